------------------------------- MODULE Buffer -------------------------------
(* C19 - the read/write interface of slog.PrintCtx is observationally equal to bytes.Buffer.

   WHAT IS MODELLED.  The reference the property names, bytes.Buffer, as a state machine over
   its public calls, at the level the property speaks at: results, error identities, panics and
   remaining contents.  Style: "functional core" - every call is a pure operator
   Op<Name>(s, args...) that maps an abstract state to a record

        [st |-> successor state, n, m |-> integer results, b |-> returned bytes,
         err |-> error class, pan |-> panic class ("" = returned normally)]

   The exhaustive specification (Next, below), the trace specification (BufferTrace.tla) and all
   invariants use these same operators - one source of truth.  The model is DETERMINISTIC: given
   the arguments (and, for the collaborator calls, what the collaborator did) there is exactly
   one allowed outcome.  Hence two implementations that both conform (PrintCtx and bytes.Buffer)
   are observationally equal on everything explored.

   ABSTRACT STATE  st = [data, lr, prev]
     data   the unread bytes (sequence of 0..255): what Len/Bytes/String show
     lr     bytes.Buffer's lastRead: 0 = last call was not a read ("invalid"), -1 = some read,
            1..4 = ReadRune that consumed that many bytes
     prev   the bytes physically still in front of the read point, *as far as any future call
            can observe them* (normal form, see Mk):
              - after ReadRune (lr = k > 0) the k bytes of that rune, so UnreadRune can put them back;
              - otherwise only the last byte: UnreadByte steps back over it.  It survives calls
                that do not move the read point (an empty Write, Next(0), Truncate(n>0), a failed
                UnreadByte or UnreadRune), which is what makes the zero-length ReadBytes/ReadString corner
                visible: on an empty buffer they still record "a read happened", and a
                following UnreadByte steps back over the byte that is physically there;
              - while lr = 0 and data is not empty nothing can observe prev before a consuming
                read refreshes it, so it is dropped.  This is also why capacity, sliding and
                reallocation need not be modelled for the write calls: they only ever destroy
                prev in exactly that unobservable situation.
            prev = <<>> therefore means "the read point is at the start of the storage" whenever
            that is observable.
   The one place where bytes.Buffer's answer depends on capacity is Grow (it leaves lastRead
   alone): Grow(n) after a read keeps prev iff the n bytes fit into the spare capacity.  The
   spare capacity is an input of OpGrow (`avail`, what Available() showed before the call): the
   exhaustive model explores both answers, a recorded trace supplies the observed one.

   OPERATORS (one per listed call)
     OpWrite OpWriteByte OpWriteRune (Write/WriteString/WriteByte/WriteRune), OpRead OpNext
     OpReadByte OpReadRune OpUnreadByte OpUnreadRune OpReadSlice (ReadBytes/ReadString) OpTruncate
     OpReset OpGrow OpReadFrom OpWriteTo OpLen OpContents (Bytes/String) OpNilString (String on
     a nil pointer); New(b) = the constructors (NewBuffer / NewBufferString / zero value).
     Decode / Encode are unicode/utf8's DecodeRune / AppendRune written over integers (lead-byte
     table Need, accept ranges Lo2/Hi2).

   WHICH OPERATOR STATES WHICH PART OF THE PROPERTY
     "results, errors or panics"     the n/m/b/err/pan fields of each Op* record
     "remaining contents"            st.data of each Op* record (OpLen/OpContents read it)
     invariants checked by TLC over every reachable state of the exhaustive model:
       TypeOK, PrevShape      shape of the state / of the normal form
       RuneAgain              after ReadRune the bytes kept in prev are exactly that rune
       UnreadLaws             ReadByte;UnreadByte and ReadRune;UnreadRune are identities on data,
                              a second Unread* fails, Unread* after a write fails
       Conservation           every read returns a prefix of data and leaves the rest; every
                              write appends; Truncate keeps a prefix; WriteTo hands over data
       DelimLaw               ReadBytes: err # nil  <=>  returned bytes do not end in delim
       EofLaw                 EOF is reported only on an empty buffer (and not for Read(len 0))
       ResetLaw               every call that empties via Reset leaves the state New(<<>>)
       Utf8RoundTrip, Utf8Strict (ASSUME)   the UTF-8 encode/decode tables agree with each other
     BufferImpl.tla checks with TLC that the storage algorithm of bytes.Buffer (capacity, slide,
     reallocation) refines this capacity-free model (invariants Agree, Rel, HRel).

   OWNERSHIP OF BYTE SLICES  (second variable `held`)
     Every call that hands out or takes a byte slice (or string) says who owns the bytes afterwards.
     `held` is the sequence of results / arguments the CALLER still keeps (oldest first, at most
     `Hold` of them, the oldest is forgotten first); each element is [tag, val]:
       "own"    a private copy the caller may keep and overwrite for ever: the result of ReadBytes,
                the bytes Read stored into p, and the ARGUMENT of Write / WriteString after the call
                (the buffer copied it).  No later call may change val, and a store through the slice
                never reaches the buffer.
       "str"    an immutable string (ReadString, String): no later call may change it.
       "bytes"  the result of Bytes(): aliases the unread bytes "at least until the next buffer
                modification": a store through it is a store into data, and shows through every
                other Bytes() result of the same window.
       "next"   the result of Next(n): "only valid until the next call to a read or write method";
                it is the consumed region itself, so a store to its last byte is what UnreadByte
                will step back over (prev).
     The window of an alias ends with the next call of ANY method other than the observers Len /
     Bytes / String (Cap / Available): HCall then removes it from `held` (EndWindows) - the model
     keeps exactly the values that must still be intact, everything bytes.Buffer leaves undefined
     (an alias after its window) is absent and so unconstrained.  Operators: HCall (a call: end the
     windows, retain the new result), CanPoke / PokeSt / PokeHeld (the caller stores one byte through
     a retained slice), FillHeld (the caller overwrites a whole owned slice).  Invariants HeldOK,
     AliasCoherent (a live Bytes alias IS data, a live Next alias ends in prev, at most one of the
     latter).  The trace specification compares the current contents of every retained slice
     (`hv`) with `held` after every logged step.

   COLLABORATORS  (the io.Reader handed to ReadFrom, the io.Writer handed to WriteTo)
     What a collaborator RECEIVES is part of the observation, and a collaborator may call methods of
     the very buffer it is serving from inside its Read / Write ("re-entrancy").  bytes.Buffer's
     documentation is silent about the latter; the reference is its source (Go 1.23):

       WriteTo   lastRead = invalid; if Len() > 0: ONE call w.Write(buf[off:]) with the whole unread
                 portion (never a second call, whatever the first one returned); afterwards, with
                 (m, e) its answer and nBytes the length BEFORE the call:  m > nBytes -> panic;
                 off += m  (relative to wherever the read point is NOW);  e # nil -> return (m, e);
                 m # nBytes -> ErrShortWrite;  otherwise Reset().   So inside Write every method is
                 legal (the struct is consistent, lastRead invalid) and the final state is: the
                 state the nested calls left, its first m unread bytes consumed WITHOUT touching
                 lastRead (a nested ReadRune stays unreadable-back: UnreadRune then steps back over
                 the last bytes the writer accepted), or the empty buffer when the writer accepted
                 everything it was offered (bytes appended from inside are dropped by that Reset).
                 No capacity enters: OpWriteToRe.  UNDEFINED (left out, `und`): the writer claims
                 more bytes than are still unread after its own nested calls consumed / truncated
                 them and the call does not end in Reset - bytes.Buffer is left with off > len(buf)
                 (negative Len()).  A writer that claims more than it was offered: panic, as before.
       ReadFrom  lastRead = invalid; loop: i = grow(MinRead) (reset when empty, reslice, slide or
                 reallocate); buf = buf[:i]; (m, e) = r.Read(buf[i:cap(buf)]) - ALL the spare
                 capacity, at least MinRead bytes; m < 0 -> panic; buf = buf[:i+m]; EOF -> return
                 nil; e # nil -> return e.  Read is called again and again until it answers with
                 an error ((0, nil) included).  Inside Read every method is legal again; what counts
                 afterwards is that ReadFrom re-reads b.buf but keeps the ABSOLUTE index i: the end
                 of the contents is put at storage position i+m of whatever the storage is now.
                 Stated here as a "window" (operators Win...): the abstract state + off (absolute position of
                 the read point; input, observed as Cap-Available-Len on entry of Read) + tail (the
                 bytes known to follow the end of the contents in the storage: what the reader
                 stored into p before it called back, contents cut off by a nested Truncate / Reset)
                 + same (the storage is still the one p points into).  Nested calls move it:
                   reads / unreads        off moves with the read point
                   a write that fits Available() (input)   appends over the tail
                   a write / Grow that does not fit        slide or reallocation: off = 0, tail unknown,
                                          same only if Cap() did not change (inputs cap, cap2)
                   Truncate(n)            the cut-off bytes become the tail
                   Reset / read on empty  off = 0; the old contents become the tail if off was 0
                 On return the reader's m bytes are stored at i (if it stores after calling back and
                 p is still in the storage) and the contents become the first i+m-off bytes of
                 contents \o tail.  E.g. a reader that stores "hello", then makes the buffer
                 reallocate by writing 600 x "x": contents = old contents \o "xxxxx".  lastRead and
                 the bytes in front of the read point are what the nested calls left.
                 UNDEFINED (left out, `und`): the new end lies before the read point (negative
                 Len()), or beyond what is known to be in the storage (spare capacity nobody wrote:
                 zeroes of a fresh allocation, consumed bytes exposed again by Reset with off > 0,
                 debris of a slide) - all of it deterministic in bytes.Buffer but nothing its
                 documentation or this property speak about.  Nested ReadFrom / WriteTo are not driven.
     Operators: DoEv (dispatch of a call given as a record; shared with the trace specification),
     NestRun / WinStep (nested calls), OpWriteToRe, OpReadFromRe.  The exhaustive model executes the
     nested scripts of the constant Nests inside the collaborator (actions WriteToRe, ReadFromRe;
     ReadFromRe only where the outcome does not depend on off).

   RECYCLING  (the encoder from one record to the next)
     The value the property speaks about is "the value encoder handed to user marshallers": the library
     keeps its encoders in a pool, so the object a marshaller of record k+1 is handed is, as a rule, the
     very object a marshaller of record k has used - read from, unread, grown, truncated.  The property's
     histories start "from an empty or pre-filled buffer": whatever happened to the object during earlier
     records, the encoder handed out for a new record is a buffer PRE-FILLED with what the library has
     written of that record so far (b), i.e. the state a constructor produces: New(b) - contents b, last
     read invalid, nothing in front of the read point.  OpRecycle(s, b) states that (it does not depend
     on s), action Recycle(k) of the exhaustive model takes it from every state (the new record's prefix
     ranges over Payloads[k], k \in Recs), invariant RecycleLaw.  For the caller it is a modification
     like any other: the windows of its aliases end, its owned copies stay intact (the library writes
     the next record into the same storage).  bytes.Buffer has no pool; its Recycle is NewBuffer(b).   *)
EXTENDS Integers, Sequences, FiniteSets, TLC

CONSTANTS
    Payloads,     \* sequence of byte sequences: arguments of Write / WriteString / ReadFrom
    ByteArgs,     \* set of bytes: arguments of WriteByte and delimiters of ReadBytes / ReadString
    Runes,        \* set of integers: arguments of WriteRune (valid, invalid, negative ...)
    Counts,       \* set of integers: len(p) of Read, n of Next / Truncate (negative ones included)
    MaxLen,       \* bound on Len(data) in the exhaustive model
    Inits,        \* set of byte sequences a buffer may be constructed with
    RuneSpace,    \* set of integers over which the UTF-8 encode/decode tables are cross-checked
    DecBytes,     \* set of bytes: all 4-byte strings over it are cross-checked against Decode
    Hold,         \* exhaustive model: how many results the caller keeps (oldest forgotten first)
    Retain,       \* exhaustive model: names of the calls whose result / argument the caller keeps
    PokeVals,     \* exhaustive model: byte values the caller stores through a kept slice
    Nests,        \* exhaustive model: sequence of scripts (sequences of call records) a collaborator runs on the buffer from inside Read / Write
    RePay,        \* exhaustive model: indexes into Payloads a re-entering reader delivers
    ReFins,       \* exhaustive model: how re-entering collaborators answer (subset of {"short", "err"}; "ok" / "eof" always)
    Recs          \* exhaustive model: indexes into Payloads - what the library has written of the NEXT record when the recycled encoder is handed out

VARIABLES st, held

-----------------------------------------------------------------------------
(* byte-sequence helpers *)
MinI(a, b) == IF a < b THEN a ELSE b
Take(s, k) == SubSeq(s, 1, k)
Drop(s, k) == SubSeq(s, k + 1, Len(s))
LastK(s, k) == IF Len(s) <= k THEN s ELSE SubSeq(s, Len(s) - k + 1, Len(s))
\* position of the first d in s, 0 = absent (no recursion: TLC evaluates this in linear time)
IndexByte(s, d) == IF \E i \in 1..Len(s) : s[i] = d
                   THEN CHOOSE i \in 1..Len(s) : s[i] = d /\ \A j \in 1..(i - 1) : s[j] # d
                   ELSE 0

-----------------------------------------------------------------------------
(* unicode/utf8 over integers *)
RuneError == 65533
MaxRune == 1114111
Huge == 1073741824        \* stands for "close to MaxInt" (TLC integers are 32 bit)
MinRead == 512

\* utf8.first: how many bytes a lead byte announces (0: cannot start a sequence)
Need(b) == IF b < 128 THEN 1 ELSE IF b < 194 THEN 0 ELSE IF b < 224 THEN 2
           ELSE IF b < 240 THEN 3 ELSE IF b < 245 THEN 4 ELSE 0
\* utf8.acceptRanges: allowed values of the second byte
Lo2(b) == IF b = 224 THEN 160 ELSE IF b = 240 THEN 144 ELSE 128
Hi2(b) == IF b = 237 THEN 159 ELSE IF b = 244 THEN 143 ELSE 191
Cont(b) == b >= 128 /\ b <= 191

\* utf8.DecodeRune on a non-empty sequence
Decode(s) ==
    LET b0 == s[1]
        k == Need(b0)
        bad == [r |-> RuneError, size |-> 1]
    IN IF k = 1 THEN [r |-> b0, size |-> 1]
       ELSE IF k = 0 \/ Len(s) < k THEN bad
       ELSE IF s[2] < Lo2(b0) \/ s[2] > Hi2(b0) THEN bad
       ELSE IF k = 2 THEN [r |-> (b0 % 32) * 64 + (s[2] % 64), size |-> 2]
       ELSE IF ~Cont(s[3]) THEN bad
       ELSE IF k = 3 THEN [r |-> (b0 % 16) * 4096 + (s[2] % 64) * 64 + (s[3] % 64), size |-> 3]
       ELSE IF ~Cont(s[4]) THEN bad
       ELSE [r |-> (b0 % 8) * 262144 + (s[2] % 64) * 4096 + (s[3] % 64) * 64 + (s[4] % 64), size |-> 4]

ValidRune(r) == r >= 0 /\ r <= MaxRune /\ ~(r >= 55296 /\ r <= 57343)

\* what WriteRune appends for the int32 r (utf8.AppendRune; invalid runes become U+FFFD)
Encode(r) ==
    IF r >= 0 /\ r < 128 THEN <<r>>
    ELSE IF r >= 128 /\ r <= 2047 THEN <<192 + (r \div 64), 128 + (r % 64)>>
    ELSE IF ~ValidRune(r) THEN <<239, 191, 189>>
    ELSE IF r <= 65535 THEN <<224 + (r \div 4096), 128 + ((r \div 64) % 64), 128 + (r % 64)>>
    ELSE <<240 + (r \div 262144), 128 + ((r \div 4096) % 64), 128 + ((r \div 64) % 64), 128 + (r % 64)>>

-----------------------------------------------------------------------------
(* error / panic classes.  "PFX" stands for the package prefix of the implementation
   ("bytes.Buffer" / "logg/slog.PrintCtx"); the harness normalises it. *)
Nil == "nil"
EOF == "EOF"                                  \* identical to io.EOF
ErrShortWrite == "ErrShortWrite"              \* identical to io.ErrShortWrite
ErrUnreadByte == "PFX: UnreadByte: previous operation was not a successful read"
ErrUnreadRune == "PFX: UnreadRune: previous operation was not a successful ReadRune"
NoPanic == ""
PanTruncate == "PFX: truncation out of range"
PanGrow == "PFX.Grow: negative count"
PanNegRead == "PFX: reader returned negative count from Read"
PanWriteTo == "PFX.WriteTo: invalid Write count"
PanTooLarge == "ErrTooLarge"                  \* identical to the package's ErrTooLarge
PanRuntime == "runtime"                       \* a Go runtime error (slice bounds)

-----------------------------------------------------------------------------
(* abstract state and the functional core *)

\* normal form: keep of prev only what a later call can still observe
Mk(d, l, p) == [data |-> d, lr |-> l,
                prev |-> IF l = 0 /\ d # <<>> THEN <<>> ELSE LastK(p, IF l > 0 THEN l ELSE 1)]
New(b) == Mk(b, 0, <<>>)                      \* constructors / the state after Reset
Fresh == New(<<>>)

R(s2, n, m, b, err, pan) == [st |-> s2, n |-> n, m |-> m, b |-> b, err |-> err, pan |-> pan]
Ok(s2) == R(s2, 0, 0, <<>>, Nil, NoPanic)

\* move the read point forward over k bytes, recording l as the last read
Eat(s, k, l) == Mk(Drop(s.data, k), l,
                   IF k >= 4 THEN SubSeq(s.data, k - 3, k) ELSE s.prev \o Take(s.data, k))

OpWrite(s, b) == R(Mk(s.data \o b, 0, s.prev), Len(b), 0, <<>>, Nil, NoPanic)
OpWriteByte(s, c) == Ok(Mk(Append(s.data, c), 0, s.prev))
OpWriteRune(s, r) == OpWrite(s, Encode(r))

\* Read(p) with len(p) = k >= 0
OpRead(s, k) ==
    IF s.data = <<>> THEN R(Fresh, 0, 0, <<>>, IF k = 0 THEN Nil ELSE EOF, NoPanic)
    ELSE LET c == MinI(k, Len(s.data))
         IN R(Eat(s, c, IF c > 0 THEN -1 ELSE 0), c, 0, Take(s.data, c), Nil, NoPanic)

\* Next(k): a negative k is a slice-bounds runtime panic, after lastRead was invalidated
OpNext(s, k) ==
    IF k < 0 THEN R(Mk(s.data, 0, s.prev), 0, 0, <<>>, Nil, PanRuntime)
    ELSE LET c == MinI(k, Len(s.data))
         IN R(Eat(s, c, IF c > 0 THEN -1 ELSE 0), c, 0, Take(s.data, c), Nil, NoPanic)

OpReadByte(s) ==
    IF s.data = <<>> THEN R(Fresh, 0, 0, <<>>, EOF, NoPanic)
    ELSE R(Eat(s, 1, -1), s.data[1], 0, <<>>, Nil, NoPanic)

OpReadRune(s) ==
    IF s.data = <<>> THEN R(Fresh, 0, 0, <<>>, EOF, NoPanic)
    ELSE LET d == Decode(s.data) IN R(Eat(s, d.size, d.size), d.r, d.size, <<>>, Nil, NoPanic)

OpUnreadRune(s) ==
    IF s.lr <= 0 THEN R(s, 0, 0, <<>>, ErrUnreadRune, NoPanic)
    ELSE IF Len(s.prev) >= s.lr THEN Ok(Mk(s.prev \o s.data, 0, <<>>))
    ELSE Ok(Mk(s.data, 0, s.prev))            \* the rune is physically gone (Grow moved the data)

OpUnreadByte(s) ==
    IF s.lr = 0 THEN R(s, 0, 0, <<>>, ErrUnreadByte, NoPanic)
    ELSE IF s.prev = <<>> THEN Ok(Mk(s.data, 0, <<>>))
    ELSE Ok(Mk(<<s.prev[Len(s.prev)]>> \o s.data, 0, Take(s.prev, Len(s.prev) - 1)))

\* ReadBytes / ReadString: always records a read, even when nothing is consumed
OpReadSlice(s, d) ==
    LET i == IndexByte(s.data, d)
    IN IF i > 0 THEN R(Eat(s, i, -1), i, 0, Take(s.data, i), Nil, NoPanic)
       ELSE R(Eat(s, Len(s.data), -1), Len(s.data), 0, s.data, EOF, NoPanic)

\* Truncate(0) is Reset; otherwise lastRead is invalidated before the range check
OpTruncate(s, k) ==
    IF k = 0 THEN Ok(Fresh)
    ELSE IF k < 0 \/ k > Len(s.data) THEN R(Mk(s.data, 0, s.prev), 0, 0, <<>>, Nil, PanTruncate)
    ELSE Ok(Mk(Take(s.data, k), 0, s.prev))

OpReset(s) == Ok(Fresh)

\* Grow(k) with `avail` spare bytes before the call.  Does not touch lastRead.
OpGrow(s, k, avail) ==
    IF k < 0 THEN R(s, 0, 0, <<>>, Nil, PanGrow)
    ELSE IF s.data = <<>> /\ s.prev # <<>>                       \* empty with the read point advanced: Reset first
         THEN R(Fresh, 0, 0, <<>>, Nil, IF k >= Huge THEN PanTooLarge ELSE NoPanic)
    ELSE IF k >= Huge THEN R(s, 0, 0, <<>>, Nil, PanTooLarge)
    ELSE IF k <= avail THEN Ok(s)                                \* fits: nothing moves
    ELSE Ok(Mk(s.data, s.lr, <<>>))                              \* slide / reallocate: read point back at 0

\* ReadFrom(r): the reader delivered the bytes b and then ended with fin:
\*   "eof" (io.EOF), "err" (some other error, returned as is), "neg" (negative count -> panic)
OpReadFrom(s, b, fin) ==
    R(Mk(s.data \o b, 0, <<>>), Len(b), 0, <<>>,
      IF fin = "err" THEN "injected" ELSE Nil,
      IF fin = "neg" THEN PanNegRead ELSE NoPanic)

\* WriteTo(w): the writer (called once with all of data, never on an empty buffer) returned (wn, werr)
WriterCalled(s) == s.data # <<>>
OpWriteTo(s, wn, werr) ==
    IF s.data = <<>> THEN R(Fresh, 0, 0, <<>>, Nil, NoPanic)
    ELSE IF wn > Len(s.data) THEN R(Mk(s.data, 0, s.prev), 0, 0, <<>>, Nil, PanWriteTo)
    ELSE LET s1 == Eat(s, wn, 0)
         IN IF werr # Nil THEN R(s1, wn, 0, <<>>, werr, NoPanic)
            ELSE IF wn # Len(s.data) THEN R(s1, wn, 0, <<>>, ErrShortWrite, NoPanic)
            ELSE R(Fresh, wn, 0, <<>>, Nil, NoPanic)

\* the encoder goes back to the pool and is handed out for the next record, of which the library
\* has written b so far: a buffer pre-filled with b, whatever the previous records did to it
OpRecycle(s, b) == Ok(New(b))

OpLen(s) == R(s, Len(s.data), 0, <<>>, Nil, NoPanic)
OpContents(s) == R(s, 0, 0, s.data, Nil, NoPanic)                \* Bytes() and String()
OpNilString(s) == R(s, 0, 0, <<60, 110, 105, 108, 62>>, Nil, NoPanic)   \* String() on a nil pointer: "<nil>"

-----------------------------------------------------------------------------
(* collaborators: what they receive, and calls of the same buffer from inside Read / Write (see header) *)

\* a call given as a record [op, n, b, avail, ...] (a line of a recorded trace, a nested call of a
\* collaborator, an element of a script of Nests)
DoEv(s, e) ==
    CASE e.op \in {"Write", "WriteString"} -> OpWrite(s, e.b)
      [] e.op = "WriteByte" -> OpWriteByte(s, e.n)
      [] e.op = "WriteRune" -> OpWriteRune(s, e.n)
      [] e.op = "Read" -> OpRead(s, e.n)
      [] e.op = "Next" -> OpNext(s, e.n)
      [] e.op = "ReadByte" -> OpReadByte(s)
      [] e.op = "ReadRune" -> OpReadRune(s)
      [] e.op = "UnreadByte" -> OpUnreadByte(s)
      [] e.op = "UnreadRune" -> OpUnreadRune(s)
      [] e.op \in {"ReadBytes", "ReadString"} -> OpReadSlice(s, e.n)
      [] e.op = "Truncate" -> OpTruncate(s, e.n)
      [] e.op = "Reset" -> OpReset(s)
      [] e.op = "Grow" -> OpGrow(s, e.n, e.avail)
      [] e.op = "Len" -> OpLen(s)
      [] e.op \in {"Bytes", "String"} -> OpContents(s)
      [] e.op = "Recycle" -> OpRecycle(s, e.b)

NestedOps == {"Write", "WriteString", "WriteByte", "WriteRune", "Read", "Next", "ReadByte", "ReadRune", "UnreadByte",
              "UnreadRune", "ReadBytes", "ReadString", "Truncate", "Reset", "Grow", "Len", "Bytes", "String"}

\* what the writer sees: exactly one Write with the whole unread portion, none on an empty buffer
WriterLens(s) == IF s.data = <<>> THEN <<>> ELSE <<Len(s.data)>>

\* the window of a running Read (header): s abstract state, off absolute read point, tail known bytes
\* behind the end of the contents, same: p still points into the storage
Win(s, off, tail) == [s |-> s, off |-> off, tail |-> tail, same |-> TRUE]
WinReset(w, s2) == [w EXCEPT !.s = s2, !.off = 0, !.tail = IF w.off = 0 THEN w.s.data \o w.tail ELSE <<>>]
WinMoved(w, s2, e) == [w EXCEPT !.s = s2, !.off = 0, !.tail = <<>>, !.same = w.same /\ e.cap2 = e.cap]
\* bytes of room a write call asks for (WriteRune of a multi-byte rune: utf8.UTFMax)
Room(e) == CASE e.op \in {"Write", "WriteString"} -> Len(e.b)
             [] e.op = "WriteByte" -> 1
             [] e.op = "WriteRune" -> IF e.n >= 0 /\ e.n < 128 THEN 1 ELSE 4
\* grow's first step: an empty buffer whose read point is not at 0 is reset
WinEmptyReset(w) == w.s.data = <<>> /\ w.off # 0
\* Inside a window the normal form of prev is suspended: the end of the contents may later be put
\* back (Splice) without any byte being consumed, so a byte in front of the read point that a write
\* made unobservable can become observable again.  Keep(w, s2): the read point did not move - the
\* bytes in front of it are still the ones known before the call.
RawSt(d, l, p) == [data |-> d, lr |-> l, prev |-> p]
Keep(w, s2) == IF s2.prev = <<>> /\ w.s.prev # <<>>
               THEN [s2 EXCEPT !.prev = LastK(w.s.prev, IF s2.lr > 0 THEN s2.lr ELSE 1)] ELSE s2
WinStep(w, e) ==
    LET o == DoEv(w.s, e)
        l0 == Len(w.s.data)
        l1 == Len(o.st.data)
        moved == [w EXCEPT !.s = IF l0 = l1 THEN Keep(w, o.st) ELSE o.st, !.off = w.off + l0 - l1]   \* the read point moved, the end stayed
    IN CASE e.op \in {"Len", "Bytes", "String"} -> w
         [] e.op \in {"Read", "ReadByte", "ReadRune"} -> IF l0 = 0 THEN WinReset(w, o.st) ELSE moved
         [] e.op \in {"Next", "ReadBytes", "ReadString", "UnreadByte", "UnreadRune"} -> moved
         [] e.op = "Reset" -> WinReset(w, o.st)
         [] e.op = "Truncate" -> IF e.n = 0 THEN WinReset(w, o.st)
                                 ELSE IF o.pan # NoPanic THEN [w EXCEPT !.s = Keep(w, o.st)]
                                 ELSE [w EXCEPT !.s = Keep(w, o.st), !.tail = Drop(w.s.data, e.n) \o w.tail]
         [] e.op \in {"Write", "WriteString", "WriteByte", "WriteRune"} ->
                IF Room(e) <= e.avail THEN [w EXCEPT !.s = Keep(w, o.st), !.tail = Drop(w.tail, l1 - l0)]
                ELSE IF WinEmptyReset(w) /\ Room(e) <= e.cap THEN [w EXCEPT !.s = [o.st EXCEPT !.prev = <<>>], !.off = 0, !.tail = <<>>]
                ELSE WinMoved(w, [o.st EXCEPT !.prev = <<>>], e)
         [] e.op = "Grow" ->
                IF e.n < 0 THEN w
                ELSE LET w1 == IF WinEmptyReset(w) THEN [w EXCEPT !.s = o.st, !.off = 0, !.tail = <<>>] ELSE [w EXCEPT !.s = Keep(w, o.st)]
                         room == IF WinEmptyReset(w) THEN e.cap ELSE e.avail
                     IN IF e.n >= Huge \/ e.n <= room THEN w1 ELSE WinMoved(w1, [o.st EXCEPT !.prev = <<>>], e)

\* the nested calls of one Read / Write, in order: [w |-> window afterwards, outs |-> the model's outcome of each]
RECURSIVE NestRun(_, _, _)
NestRun(w, nest, outs) ==
    IF nest = <<>> THEN [w |-> w, outs |-> outs]
    ELSE NestRun(WinStep(w, Head(nest)), Tail(nest), Append(outs, DoEv(w.s, Head(nest))))
NestLegal(nest) == \A k \in DOMAIN nest : nest[k].op \in NestedOps

RR(o, und, outs) == [o |-> o, und |-> und, outs |-> outs]

\* WriteTo(w) whose writer runs the calls `nest` on the buffer from inside its (only) Write and
\* then answers (wn, werr)
OpWriteToRe(s, nest, wn, werr) ==
    IF s.data = <<>> THEN RR(R(Fresh, 0, 0, <<>>, Nil, NoPanic), FALSE, <<>>)
    ELSE LET run == NestRun(Win(RawSt(s.data, 0, LastK(s.prev, 1)), 0, <<>>), nest, <<>>)
             s1 == run.w.s
         IN IF ~NestLegal(nest) THEN RR(Ok(s), TRUE, <<>>)
            ELSE IF wn > Len(s.data) THEN RR(R(Mk(s1.data, s1.lr, s1.prev), 0, 0, <<>>, Nil, PanWriteTo), FALSE, run.outs)
            ELSE IF wn > Len(s1.data)
                 THEN IF werr = Nil /\ wn = Len(s.data) THEN RR(R(Fresh, wn, 0, <<>>, Nil, NoPanic), FALSE, run.outs)
                      ELSE RR(Ok(s1), TRUE, run.outs)                             \* off > len(buf): undefined
            ELSE LET s2 == Eat(s1, wn, s1.lr)
                 IN IF werr # Nil THEN RR(R(s2, wn, 0, <<>>, werr, NoPanic), FALSE, run.outs)
                    ELSE IF wn # Len(s.data) THEN RR(R(s2, wn, 0, <<>>, ErrShortWrite, NoPanic), FALSE, run.outs)
                    ELSE RR(R(Fresh, wn, 0, <<>>, Nil, NoPanic), FALSE, run.outs)

\* the end of one Read: the reader's bytes c land at absolute position i (if stored after the
\* nested calls), the contents end at i + Len(c)
Splice(w, i, c, order) ==
    LET comb0 == w.s.data \o w.tail
        pos == i - w.off
        late == order = "post" /\ w.same /\ c # <<>>
        comb == IF late /\ pos >= 0 /\ pos <= Len(comb0) THEN Take(comb0, pos) \o c \o Drop(comb0, pos + Len(c)) ELSE comb0
        nl == i + Len(c) - w.off
        \* (last clause: a byte in front of the read point becomes observable which the model has
        \* not kept - it was consumed before this ReadFrom, under the normal form; no verdict)
        und == nl < 0 \/ nl > Len(comb) \/ (late /\ pos < 0)
               \/ (w.off > 0 /\ w.s.prev = <<>> /\ (nl = 0 \/ w.s.lr # 0))
    IN [und |-> und, s |-> IF und THEN w.s ELSE RawSt(Take(comb, nl), w.s.lr, w.s.prev)]

\* ReadFrom(r) as the sequence of Read calls r received: calls[j] = [off, c, fin, order, nest]:
\*   off    absolute read point on entry (input);  c  the bytes r stored (it returns Len(c));
\*   fin    "more" (nil) / "eof" / "err" / "neg" (r returns -1);  order "pre": r stores c and then
\*   calls back, "post": the other way round;  nest  the calls it makes.
\* The last call, and only the last, has fin # "more".
RECURSIVE ReadLoop(_, _, _, _, _, _)
ReadLoop(s, woff, calls, j, total, outs) ==
    IF j > Len(calls) THEN RR(Ok(s), TRUE, outs)                                  \* (a log without a final answer)
    ELSE LET call == calls[j]
             sg == IF call.off = 0 THEN RawSt(s.data, IF j = 1 THEN 0 ELSE s.lr, <<>>)   \* grow(MinRead) moved the data (or nothing was in front)
                   ELSE IF j = 1 THEN RawSt(s.data, 0, LastK(s.prev, 1))            \* lastRead = invalid; nothing moved
                   ELSE s
             sr == IF j > 1 /\ s.data = <<>> /\ woff # 0 THEN Fresh ELSE sg           \* grow: reset when empty
             run == NestRun(Win(sr, call.off, IF call.order = "pre" THEN call.c ELSE <<>>), call.nest, outs)
             i == call.off + Len(sr.data)
             sp == Splice(run.w, i, call.c, call.order)
             n2 == total + Len(call.c)
             norm(x) == Mk(x.data, x.lr, x.prev)
         IN IF ~NestLegal(call.nest) THEN RR(Ok(s), TRUE, outs)
            ELSE IF call.fin = "neg" THEN RR(R(norm(run.w.s), total, 0, <<>>, Nil, PanNegRead), FALSE, run.outs)
            ELSE IF sp.und THEN RR(Ok(s), TRUE, run.outs)
            ELSE IF call.fin = "eof" THEN RR(R(norm(sp.s), n2, 0, <<>>, Nil, NoPanic), FALSE, run.outs)
            ELSE IF call.fin = "err" THEN RR(R(norm(sp.s), n2, 0, <<>>, "injected", NoPanic), FALSE, run.outs)
            ELSE ReadLoop(sp.s, run.w.off, calls, j + 1, n2, run.outs)
OpReadFromRe(s, calls) == ReadLoop(s, 0, calls, 1, 0, <<>>)

-----------------------------------------------------------------------------
(* ownership: the byte slices the caller keeps (see header) *)

Observers == {"Len", "Bytes", "String", "NilString"}        \* calls that do not modify the buffer
Modifies(op) == op \notin Observers

\* what the caller holds after the call: an owned copy, an immutable string, or an alias
HandTag(op) == CASE op \in {"Write", "WriteString", "Read", "ReadBytes"} -> "own"
                 [] op \in {"ReadString", "String"} -> "str"
                 [] op = "Bytes" -> "bytes"
                 [] op = "Next" -> "next"
                 [] OTHER -> "none"

IsOwned(h) == h.tag \in {"own", "str"}
IsAlias(h) == h.tag \in {"bytes", "next"}
EndWindows(H) == SelectSeq(H, IsOwned)                      \* a modification: every alias becomes undefined
Push(H, h, cap) == IF cap <= 0 THEN H ELSE IF Len(H) >= cap THEN Append(Tail(H), h) ELSE Append(H, h)

\* the call op (outcome o, byte argument arg) seen from the caller who keeps (keep) or drops its result
HCall(H, op, o, arg, keep, cap) ==
    LET H1 == IF Modifies(op) THEN EndWindows(H) ELSE H
        v == IF op \in {"Write", "WriteString"} THEN arg ELSE o.b
    IN IF keep /\ HandTag(op) # "none" /\ o.pan = NoPanic /\ v # <<>>
       THEN Push(H1, [tag |-> HandTag(op), val |-> v], cap) ELSE H1

\* the caller executes  slice[j] = v  on the k-th kept slice (j counts from 1)
CanPoke(H, k, j) == k \in DOMAIN H /\ H[k].tag \in {"own", "bytes", "next"} /\ j \in 1..Len(H[k].val)
PokeSt(s, h, j, v) ==
    CASE h.tag = "bytes" -> [s EXCEPT !.data[j] = v]                      \* Bytes() IS the unread data
      [] h.tag = "next" -> IF j = Len(h.val) /\ s.prev # <<>>                \* the byte UnreadByte steps back over
                           THEN [s EXCEPT !.prev[Len(s.prev)] = v] ELSE s
      [] OTHER -> s                                                       \* a private copy: invisible to the buffer
PokeHeld(H, k, j, v) ==
    [i \in DOMAIN H |-> IF i = k \/ (H[i].tag = "bytes" /\ H[k].tag = "bytes")   \* all live Bytes() results are one region
                        THEN [H[i] EXCEPT !.val[j] = v] ELSE H[i]]

\* the caller overwrites every byte of an owned slice (and appends into its spare capacity)
CanFill(H, k) == k \in DOMAIN H /\ H[k].tag = "own"
FillHeld(H, k) == [H EXCEPT ![k].val = [i \in 1..Len(H[k].val) |-> 255 - H[k].val[i]]]

-----------------------------------------------------------------------------
(* the exhaustive model: every call with every argument of the constant sets, from every state *)

Fits(b) == Len(st.data) + Len(b) <= MaxLen
HC(op, o, arg) == HCall(held, op, o, arg, op \in Retain, Hold)      \* (a state function: no primes)

Write(k) == Fits(Payloads[k]) /\ st' = OpWrite(st, Payloads[k]).st
            /\ held' = HC("Write", OpWrite(st, Payloads[k]), Payloads[k])
WriteString(k) == Fits(Payloads[k]) /\ st' = OpWrite(st, Payloads[k]).st
                  /\ held' = HC("WriteString", OpWrite(st, Payloads[k]), Payloads[k])
WriteByte(c) == Fits(<<c>>) /\ st' = OpWriteByte(st, c).st /\ held' = HC("WriteByte", OpWriteByte(st, c), <<>>)
WriteRune(r) == Fits(Encode(r)) /\ st' = OpWriteRune(st, r).st /\ held' = HC("WriteRune", OpWriteRune(st, r), <<>>)
Read(k) == k >= 0 /\ st' = OpRead(st, k).st /\ held' = HC("Read", OpRead(st, k), <<>>)
Next_(k) == st' = OpNext(st, k).st /\ held' = HC("Next", OpNext(st, k), <<>>)
ReadByte == st' = OpReadByte(st).st /\ held' = HC("ReadByte", OpReadByte(st), <<>>)
ReadRune == st' = OpReadRune(st).st /\ held' = HC("ReadRune", OpReadRune(st), <<>>)
UnreadByte == st' = OpUnreadByte(st).st /\ held' = HC("UnreadByte", OpUnreadByte(st), <<>>)
UnreadRune == st' = OpUnreadRune(st).st /\ held' = HC("UnreadRune", OpUnreadRune(st), <<>>)
ReadBytes(d) == st' = OpReadSlice(st, d).st /\ held' = HC("ReadBytes", OpReadSlice(st, d), <<>>)
ReadString(d) == st' = OpReadSlice(st, d).st /\ held' = HC("ReadString", OpReadSlice(st, d), <<>>)
Truncate(k) == st' = OpTruncate(st, k).st /\ held' = HC("Truncate", OpTruncate(st, k), <<>>)
Reset == st' = OpReset(st).st /\ held' = HC("Reset", OpReset(st), <<>>)
GrowKinds == {"fit", "nofit", "neg", "huge"}
GrowArg(kind) == CASE kind = "fit" -> 0 [] kind = "nofit" -> 1 [] kind = "neg" -> -1 [] OTHER -> Huge
Grow(kind) == st' = OpGrow(st, GrowArg(kind), 0).st /\ held' = HC("Grow", OpGrow(st, GrowArg(kind), 0), <<>>)
ReadFrom(k, fin) == Fits(Payloads[k]) /\ st' = OpReadFrom(st, Payloads[k], fin).st
                    /\ held' = HC("ReadFrom", OpReadFrom(st, Payloads[k], fin), <<>>)
\* writer behaviours: "ok" takes everything, "over" claims one byte too many, "short"/"err" take
\* at most m bytes and return nil / an error
WriterCount(s, m, fin) == CASE fin = "ok" -> Len(s.data) [] fin = "over" -> Len(s.data) + 1
                            [] OTHER -> MinI(m, Len(s.data))
WriteTo(m, fin) == LET o == OpWriteTo(st, WriterCount(st, m, fin), IF fin = "err" THEN "injected" ELSE Nil)
                   IN st' = o.st /\ held' = HC("WriteTo", o, <<>>)
\* collaborators that call back: the writer / reader runs the script Nests[j] on the buffer from inside
\* its Write / its Read (the reader: before or after storing Payloads[k], ending with fin in the same call)
WriteToRe(j, m, fin) ==
    LET o == OpWriteToRe(st, Nests[j], WriterCount(st, m, fin), IF fin = "err" THEN "injected" ELSE Nil)
    IN /\ st.data # <<>> /\ ~o.und /\ Len(o.o.st.data) + Len(o.o.st.prev) <= MaxLen    \* (an Unread* may put prev back)
       /\ st' = o.o.st /\ held' = HC("WriteTo", o.o, <<>>)
ReCall(k, fin, j, order, off) == <<[off |-> off, c |-> Payloads[k], fin |-> fin, order |-> order, nest |-> Nests[j]]>>
ReadFromRe(k, fin, j, order) ==
    LET a == OpReadFromRe(st, ReCall(k, fin, j, order, 0))
        b == OpReadFromRe(st, ReCall(k, fin, j, order, 3))
    IN /\ ~a.und /\ ~b.und /\ a.o = b.o                       \* defined, and not a matter of where the storage begins
       /\ Len(a.o.st.data) + Len(a.o.st.prev) <= MaxLen
       /\ st' = a.o.st /\ held' = HC("ReadFrom", a.o, <<>>)
\* the record ends; the encoder is handed out again for a record whose prefix is Payloads[k]
Recycle(k) == Len(Payloads[k]) <= MaxLen /\ st' = OpRecycle(st, Payloads[k]).st
              /\ held' = HC("Recycle", OpRecycle(st, Payloads[k]), <<>>)
Len_ == st' = OpLen(st).st /\ held' = HC("Len", OpLen(st), <<>>)
Bytes_ == st' = OpContents(st).st /\ held' = HC("Bytes", OpContents(st), <<>>)
String_ == st' = OpContents(st).st /\ held' = HC("String", OpContents(st), <<>>)
\* not a call of the buffer: the caller stores a byte through a slice it kept, at its first or
\* its last position (the last byte of a Next() result is the one UnreadByte steps back over)
PokeIdx(k, at) == IF at = "first" THEN 1 ELSE Len(held[k].val)
Poke(k, at, v) == k \in DOMAIN held /\ CanPoke(held, k, PokeIdx(k, at))
                  /\ st' = PokeSt(st, held[k], PokeIdx(k, at), v) /\ held' = PokeHeld(held, k, PokeIdx(k, at), v)

Init == st \in {New(b) : b \in Inits} /\ held = <<>>

Next ==
    \/ \E k \in 1..Len(Payloads) : Write(k)
    \/ \E k \in 1..Len(Payloads) : WriteString(k)
    \/ \E c \in ByteArgs : WriteByte(c)
    \/ \E r \in Runes : WriteRune(r)
    \/ \E k \in Counts : Read(k)
    \/ \E k \in Counts : Next_(k)
    \/ ReadByte \/ ReadRune \/ UnreadByte \/ UnreadRune \/ Reset
    \/ \E d \in ByteArgs : ReadBytes(d)
    \/ \E d \in ByteArgs : ReadString(d)
    \/ \E k \in Counts : Truncate(k)
    \/ \E kind \in GrowKinds : Grow(kind)
    \/ \E k \in 1..Len(Payloads), fin \in {"eof", "err", "neg"} : ReadFrom(k, fin)
    \/ \E fin \in {"ok", "over"} : WriteTo(0, fin)
    \/ \E m \in 0..MaxLen, fin \in {"short", "err"} : WriteTo(m, fin)
    \/ \E j \in 1..Len(Nests) : WriteToRe(j, 0, "ok")
    \/ \E j \in 1..Len(Nests), m \in 0..1, fin \in ReFins : WriteToRe(j, m, fin)
    \/ \E k \in RePay, fin \in (ReFins \cap {"err"}) \cup {"eof"}, j \in 1..Len(Nests), order \in {"pre", "post"} : ReadFromRe(k, fin, j, order)
    \/ \E k \in Recs : Recycle(k)
    \/ Len_ \/ Bytes_ \/ String_
    \/ \E k \in 1..Hold, at \in {"first", "last"}, v \in PokeVals : Poke(k, at, v)

Spec == Init /\ [][Next]_<<st, held>>

\* VIEW of the exhaustive model.  The bytes of an owned result never influence any later step (that
\* is the contract: PokeSt ignores them, HCall only moves them), and a live Bytes() result is data
\* (AliasCoherent); so states that differ only there have the same future, and TLC explores one
\* representative per class.  The trace specification has no view: there every value counts.
HeldView == [k \in DOMAIN held |-> [tag |-> held[k].tag, n |-> IF held[k].tag = "next" THEN Len(held[k].val) ELSE 0]]
View == <<st, HeldView>>

\* rendered into the dot dump: one JSON-ish string per state (parsed by the orchestrator)
TagCode(t) == CASE t = "own" -> 1 [] t = "str" -> 2 [] t = "bytes" -> 3 [] t = "next" -> 4
DumpAlias == [j |-> ToString(st.data) \o "|" \o ToString(st.lr) \o "|" \o ToString(st.prev) \o "|"
                    \o ToString([k \in DOMAIN held |-> TagCode(held[k].tag)]) \o "|"
                    \o ToString([k \in DOMAIN held |-> HeldView[k].n])]

-----------------------------------------------------------------------------
(* invariants, evaluated by TLC in every reachable state *)

IsByteSeq(s) == \A i \in 1..Len(s) : s[i] \in 0..255

TypeOK == /\ IsByteSeq(st.data) /\ IsByteSeq(st.prev) /\ Len(st.data) <= MaxLen
          /\ st.lr \in -1..4

PrevShape ==
    \* (all of the rune, or nothing after Grow moved the data; a part of it only when a collaborator
    \* reads a rune from inside, makes the storage move, and the outer WriteTo then consumes fewer bytes)
    /\ st.lr > 0 => Len(st.prev) <= st.lr
    /\ st.lr <= 0 => Len(st.prev) <= 1
    /\ (st.lr = 0 /\ st.data # <<>>) => st.prev = <<>>
    \* a recorded read with nothing in front of the read point on a non-empty buffer can only
    \* come from Grow having moved the data
    /\ st = Mk(st.data, st.lr, st.prev)

\* after ReadRune the bytes kept in prev are exactly that rune.  (Stated over the operator and not
\* over the current state: a store through a Bytes() result may legitimately turn the bytes
\* behind an already consumed rune into a different sequence.)
RuneAgain == st.data # <<>> =>
                 LET o == OpReadRune(st)
                     d == Decode(o.st.prev \o o.st.data)
                 IN o.st.lr = o.m /\ o.st.prev = Take(st.data, o.m) /\ d.size = o.m /\ d.r = o.n

UnreadLaws ==
    /\ st.data # <<>> =>
         /\ OpUnreadByte(OpReadByte(st).st).st.data = st.data
         /\ OpUnreadByte(OpReadByte(st).st).err = Nil
         /\ OpUnreadByte(OpUnreadByte(OpReadByte(st).st).st).err = ErrUnreadByte
         /\ OpUnreadRune(OpReadRune(st).st).st.data = st.data
         /\ OpUnreadRune(OpReadRune(st).st).err = Nil
         /\ OpUnreadRune(OpUnreadRune(OpReadRune(st).st).st).err = ErrUnreadRune
         /\ OpReadRune(OpUnreadRune(OpReadRune(st).st).st).n = OpReadRune(st).n
         /\ OpUnreadRune(OpReadByte(st).st).err = ErrUnreadRune          \* stricter than UnreadByte
         /\ OpUnreadByte(OpReadRune(st).st).st.data = Drop(st.data, OpReadRune(st).m - 1)
    /\ \A k \in 1..Len(Payloads) :
         /\ OpUnreadByte(OpWrite(st, Payloads[k]).st).err = ErrUnreadByte
         /\ OpUnreadRune(OpWrite(st, Payloads[k]).st).err = ErrUnreadRune
    /\ OpUnreadByte(OpReadByte(Fresh).st).err = ErrUnreadByte            \* a failed read is no read

Conservation ==
    /\ \A k \in Counts : k >= 0 =>
         /\ OpRead(st, k).b \o OpRead(st, k).st.data = st.data
         /\ OpNext(st, k).b \o OpNext(st, k).st.data = st.data
         /\ OpRead(st, k).n = Len(OpRead(st, k).b) /\ OpRead(st, k).n <= k
    /\ \A d \in ByteArgs : OpReadSlice(st, d).b \o OpReadSlice(st, d).st.data = st.data
    /\ \A k \in 1..Len(Payloads) :
         /\ OpWrite(st, Payloads[k]).st.data = st.data \o Payloads[k]
         /\ OpReadFrom(st, Payloads[k], "eof").st.data = st.data \o Payloads[k]
    /\ \A r \in Runes : LET o == OpWriteRune(st, r) IN
         /\ o.st.data = st.data \o Encode(r) /\ o.n = Len(Encode(r))
         /\ st.data = <<>> => OpReadRune(o.st).n = (IF ValidRune(r) THEN r ELSE RuneError)
    /\ \A k \in Counts : (k > 0 /\ k <= Len(st.data)) => OpTruncate(st, k).st.data = Take(st.data, k)
    /\ \A m \in 0..Len(st.data) : LET o == OpWriteTo(st, m, Nil) IN
         /\ o.st.data = Drop(st.data, m) /\ o.n = m
         /\ (o.err = Nil) = (m = Len(st.data))
    /\ st.data # <<>> => (OpReadByte(st).n = st.data[1] /\ OpReadByte(st).st.data = Drop(st.data, 1))
    /\ st.data # <<>> => OpReadRune(st).st.data = Drop(st.data, OpReadRune(st).m)

DelimLaw == \A d \in ByteArgs : LET o == OpReadSlice(st, d) IN
                (o.err # Nil) = (o.b = <<>> \/ o.b[Len(o.b)] # d)

EofLaw ==
    /\ \A k \in Counts : k >= 0 => ((OpRead(st, k).err = EOF) = (st.data = <<>> /\ k > 0))
    /\ (OpReadByte(st).err = EOF) = (st.data = <<>>)
    /\ (OpReadRune(st).err = EOF) = (st.data = <<>>)

ResetLaw ==
    /\ OpReset(st).st = Fresh /\ OpTruncate(st, 0).st = Fresh
    /\ OpWriteTo(st, Len(st.data), Nil).st = Fresh
    /\ st.data = <<>> => (OpRead(st, 0).st = Fresh /\ OpReadByte(st).st = Fresh /\ OpReadRune(st).st = Fresh)

\* collaborators: without nested calls the re-entrant operators are the plain ones, wherever the
\* storage begins and whenever the reader stores; a delivery in two Read calls (or with an empty
\* answer in between) equals one; observers inside change nothing; a writer that accepts all it was
\* offered leaves the empty buffer whatever it did from inside; a reader that writes (fitting) before
\* it stores is overwritten by what it stores
ObsNest == <<[op |-> "Len", n |-> 0], [op |-> "Bytes", n |-> 0], [op |-> "String", n |-> 0]>>
RC(off, c, fin, order, nest) == [off |-> off, c |-> c, fin |-> fin, order |-> order, nest |-> nest]
ReLaws ==
    /\ \A k \in 1..Len(Payloads), off \in (IF st.data = <<>> THEN {0} ELSE {0, 2}), order \in {"pre", "post"}, fin \in {"eof", "err"} :
         LET p == Payloads[k]
             one == OpReadFromRe(st, <<RC(off, p, fin, order, <<>>)>>)
         IN /\ ~one.und /\ one.o = OpReadFrom(st, p, fin)
            /\ OpReadFromRe(st, <<RC(off, p, fin, order, ObsNest)>>).o = one.o
            /\ Len(p) > 1 => OpReadFromRe(st, <<RC(off, Take(p, 1), "more", order, <<>>), RC(off, <<>>, "more", "pre", <<>>),
                                                 RC(off, Drop(p, 1), fin, "post", <<>>)>>).o = one.o
            /\ OpReadFromRe(st, <<RC(off, p, "more", order, <<>>), RC(off, <<>>, "neg", order, <<>>)>>).o
                 = OpReadFrom(st, p, "neg")
            /\ OpReadFromRe(st, <<RC(off, p, fin, "post", <<[op |-> "WriteByte", n |-> 7, avail |-> 512]>>)>>).o.st.data
                 = IF p = <<>> THEN st.data ELSE st.data \o p
    /\ \A m \in 0..Len(st.data) + 1 : \A we \in {Nil, "injected"} :
         /\ OpWriteToRe(st, <<>>, m, we).o = OpWriteTo(st, m, we) /\ ~OpWriteToRe(st, <<>>, m, we).und
         /\ OpWriteToRe(st, ObsNest, m, we).o = OpWriteTo(st, m, we)
    /\ \A j \in 1..Len(Nests) : LET o == OpWriteToRe(st, Nests[j], Len(st.data), Nil)
                                IN ~o.und /\ o.o.st = Fresh /\ o.o.n = Len(st.data) /\ o.o.err = Nil

\* recycling: the encoder of the next record is the buffer a constructor makes of the record's prefix -
\* nothing of the current state shows (Reset followed by Write of the prefix gives the same state; both
\* Unread* fail; the contents are the prefix); for the caller it ends the alias windows and nothing else
RecycleLaw == \A k \in 1..Len(Payloads) :
    LET p == Payloads[k]
        o == OpRecycle(st, p)
    IN /\ o.st = New(p) /\ o.pan = NoPanic /\ o.err = Nil
       /\ o.st = OpWrite(OpReset(st).st, p).st
       /\ OpUnreadByte(o.st).err = ErrUnreadByte /\ OpUnreadRune(o.st).err = ErrUnreadRune
       /\ OpContents(o.st).b = p /\ OpLen(o.st).n = Len(p)
       /\ HCall(held, "Recycle", o, <<>>, FALSE, Hold) = SelectSeq(held, IsOwned)

\* shape of the caller's side
HeldOK == /\ Len(held) <= Hold
          /\ \A k \in DOMAIN held : /\ held[k].tag \in {"own", "str", "bytes", "next"}
                                     /\ IsByteSeq(held[k].val) /\ held[k].val # <<>>

\* inside its window an alias and the buffer are the same bytes
AliasCoherent == \A k \in DOMAIN held :
    /\ held[k].tag = "bytes" => held[k].val = st.data
    /\ held[k].tag = "next" => (st.lr = -1 /\ st.prev = LastK(held[k].val, 1))
    /\ \A i \in DOMAIN held : (held[k].tag = "next" /\ held[i].tag = "next") => i = k

\* owned results are out of the buffer's reach; a modification ends every window and keeps every
\* owned result; an observer ends none.  Stated over the operators, from the current state.
OwnLaw ==
    /\ \A k \in DOMAIN held : held[k].tag = "own" =>
          \A j \in 1..Len(held[k].val), v \in PokeVals : PokeSt(st, held[k], j, v) = st
    /\ \A d \in ByteArgs : LET H == HCall(held, "ReadBytes", OpReadSlice(st, d), <<>>, FALSE, Hold)
                           IN SelectSeq(H, IsAlias) = <<>> /\ H = SelectSeq(held, IsOwned)
    /\ \A k \in 1..Len(Payloads) : HCall(held, "Write", OpWrite(st, Payloads[k]), Payloads[k], FALSE, Hold)
                                      = SelectSeq(held, IsOwned)
    /\ HCall(held, "String", OpContents(st), <<>>, FALSE, Hold) = held

-----------------------------------------------------------------------------
(* the UTF-8 tables themselves, checked by TLC before any state is explored *)

\* encoding then decoding any int32 gives the rune back (U+FFFD for invalid ones), with the same size
RoundTrips(r) == LET d == Decode(Encode(r)) IN
                     /\ d.size = Len(Encode(r))
                     /\ d.r = (IF ValidRune(r) THEN r ELSE RuneError)
ASSUME Utf8RoundTrip == /\ \A r \in RuneSpace : RoundTrips(r)
                        /\ \A r \in Runes : RoundTrips(r)
                        /\ \A r \in {-2147483647, -1, 2147483647} : RoundTrips(r)      \* int32 extremes

\* Decode accepts exactly the shortest-form encodings of valid runes; everything else is
\* (U+FFFD, 1); a truncated sequence is never accepted
ASSUME Utf8Strict == \A a \in DecBytes, b \in DecBytes, c \in DecBytes, e \in DecBytes : \A k \in 1..4 :
    LET t == Take(<<a, b, c, e>>, k)
        d == Decode(t)
    IN /\ d.size <= k
       /\ d.size > 1 => (ValidRune(d.r) /\ d.r >= 128 /\ Encode(d.r) = Take(t, d.size))
       /\ d.size = 1 => d.r = (IF a < 128 THEN a ELSE RuneError)
=============================================================================
