------------------------------- MODULE Buffer -------------------------------
(* C19 - the read/write interface of slog.PrintCtx is observationally equal to bytes.Buffer.

   WHAT IS MODELLED.  The reference the property names, bytes.Buffer, as a state machine over
   its public calls, at the level the property speaks at: results, error identities, panics and
   remaining contents.  Style: "functional core" - every call is a pure operator
   Op<Name>(s, args...) that maps an abstract state to a record

        [st |-> successor state, n, m |-> integer results, b |-> returned bytes,
         err |-> error class, pan |-> panic class ("" = returned normally)]

   The exhaustive specification (Next, below), the trace specification (BufferTrace.tla) and all
   invariants use these same operators - one source of truth.  The model is DETERMINISTIC: given
   the arguments (and, for the collaborator calls, what the collaborator did) there is exactly
   one allowed outcome.  Hence two implementations that both conform (PrintCtx and bytes.Buffer)
   are observationally equal on everything explored.

   ABSTRACT STATE  st = [data, lr, prev]
     data   the unread bytes (sequence of 0..255): what Len/Bytes/String show
     lr     bytes.Buffer's lastRead: 0 = last call was not a read ("invalid"), -1 = some read,
            1..4 = ReadRune that consumed that many bytes
     prev   the bytes physically still in front of the read point, *as far as any future call
            can observe them* (normal form, see Mk):
              - after ReadRune (lr = k > 0) the k bytes of that rune, so UnreadRune can put them back;
              - otherwise only the last byte: UnreadByte steps back over it.  It survives calls
                that do not move the read point (an empty Write, Next(0), Truncate(n>0), a failed
                UnreadByte or UnreadRune), which is what makes the zero-length ReadBytes/ReadString corner
                visible: on an empty buffer they still record "a read happened", and a
                following UnreadByte steps back over the byte that is physically there;
              - while lr = 0 and data is not empty nothing can observe prev before a consuming
                read refreshes it, so it is dropped.  This is also why capacity, sliding and
                reallocation need not be modelled for the write calls: they only ever destroy
                prev in exactly that unobservable situation.
            prev = <<>> therefore means "the read point is at the start of the storage" whenever
            that is observable.
   The one place where bytes.Buffer's answer depends on capacity is Grow (it leaves lastRead
   alone): Grow(n) after a read keeps prev iff the n bytes fit into the spare capacity.  The
   spare capacity is an input of OpGrow (`avail`, what Available() showed before the call): the
   exhaustive model explores both answers, a recorded trace supplies the observed one.

   OPERATORS (one per listed call)
     OpWrite OpWriteByte OpWriteRune (Write/WriteString/WriteByte/WriteRune), OpRead OpNext
     OpReadByte OpReadRune OpUnreadByte OpUnreadRune OpReadSlice (ReadBytes/ReadString) OpTruncate
     OpReset OpGrow OpReadFrom OpWriteTo OpLen OpContents (Bytes/String) OpNilString (String on
     a nil pointer); New(b) = the constructors (NewBuffer / NewBufferString / zero value).
     Decode / Encode are unicode/utf8's DecodeRune / AppendRune written over integers (lead-byte
     table Need, accept ranges Lo2/Hi2).

   WHICH OPERATOR STATES WHICH PART OF THE PROPERTY
     "results, errors or panics"     the n/m/b/err/pan fields of each Op* record
     "remaining contents"            st.data of each Op* record (OpLen/OpContents read it)
     invariants checked by TLC over every reachable state of the exhaustive model:
       TypeOK, PrevShape      shape of the state / of the normal form
       RuneAgain              after ReadRune the bytes kept in prev are exactly that rune
       UnreadLaws             ReadByte;UnreadByte and ReadRune;UnreadRune are identities on data,
                              a second Unread* fails, Unread* after a write fails
       Conservation           every read returns a prefix of data and leaves the rest; every
                              write appends; Truncate keeps a prefix; WriteTo hands over data
       DelimLaw               ReadBytes: err # nil  <=>  returned bytes do not end in delim
       EofLaw                 EOF is reported only on an empty buffer (and not for Read(len 0))
       ResetLaw               every call that empties via Reset leaves the state New(<<>>)
       Utf8RoundTrip, Utf8Strict (ASSUME)   the UTF-8 encode/decode tables agree with each other
     BufferImpl.tla checks with TLC that the storage algorithm of bytes.Buffer (capacity, slide,
     reallocation) refines this capacity-free model (invariants Agree, Rel, HRel).

   OWNERSHIP OF BYTE SLICES  (second variable `held`)
     Every call that hands out or takes a byte slice (or string) says who owns the bytes afterwards.
     `held` is the sequence of results / arguments the CALLER still keeps (oldest first, at most
     `Hold` of them, the oldest is forgotten first); each element is [tag, val]:
       "own"    a private copy the caller may keep and overwrite for ever: the result of ReadBytes,
                the bytes Read stored into p, and the ARGUMENT of Write / WriteString after the call
                (the buffer copied it).  No later call may change val, and a store through the slice
                never reaches the buffer.
       "str"    an immutable string (ReadString, String): no later call may change it.
       "bytes"  the result of Bytes(): aliases the unread bytes "at least until the next buffer
                modification": a store through it is a store into data, and shows through every
                other Bytes() result of the same window.
       "next"   the result of Next(n): "only valid until the next call to a read or write method";
                it is the consumed region itself, so a store to its last byte is what UnreadByte
                will step back over (prev).
     The window of an alias ends with the next call of ANY method other than the observers Len /
     Bytes / String (Cap / Available): HCall then removes it from `held` (EndWindows) - the model
     keeps exactly the values that must still be intact, everything bytes.Buffer leaves undefined
     (an alias after its window) is absent and so unconstrained.  Operators: HCall (a call: end the
     windows, retain the new result), CanPoke / PokeSt / PokeHeld (the caller stores one byte through
     a retained slice), FillHeld (the caller overwrites a whole owned slice).  Invariants HeldOK,
     AliasCoherent (a live Bytes alias IS data, a live Next alias ends in prev, at most one of the
     latter).  The trace specification compares the current contents of every retained slice
     (`hv`) with `held` after every logged step.                                                  *)
EXTENDS Integers, Sequences, FiniteSets, TLC

CONSTANTS
    Payloads,     \* sequence of byte sequences: arguments of Write / WriteString / ReadFrom
    ByteArgs,     \* set of bytes: arguments of WriteByte and delimiters of ReadBytes / ReadString
    Runes,        \* set of integers: arguments of WriteRune (valid, invalid, negative ...)
    Counts,       \* set of integers: len(p) of Read, n of Next / Truncate (negative ones included)
    MaxLen,       \* bound on Len(data) in the exhaustive model
    Inits,        \* set of byte sequences a buffer may be constructed with
    RuneSpace,    \* set of integers over which the UTF-8 encode/decode tables are cross-checked
    DecBytes,     \* set of bytes: all 4-byte strings over it are cross-checked against Decode
    Hold,         \* exhaustive model: how many results the caller keeps (oldest forgotten first)
    Retain,       \* exhaustive model: names of the calls whose result / argument the caller keeps
    PokeVals      \* exhaustive model: byte values the caller stores through a kept slice

VARIABLES st, held

-----------------------------------------------------------------------------
(* byte-sequence helpers *)
MinI(a, b) == IF a < b THEN a ELSE b
Take(s, k) == SubSeq(s, 1, k)
Drop(s, k) == SubSeq(s, k + 1, Len(s))
LastK(s, k) == IF Len(s) <= k THEN s ELSE SubSeq(s, Len(s) - k + 1, Len(s))
\* position of the first d in s, 0 = absent (no recursion: TLC evaluates this in linear time)
IndexByte(s, d) == IF \E i \in 1..Len(s) : s[i] = d
                   THEN CHOOSE i \in 1..Len(s) : s[i] = d /\ \A j \in 1..(i - 1) : s[j] # d
                   ELSE 0

-----------------------------------------------------------------------------
(* unicode/utf8 over integers *)
RuneError == 65533
MaxRune == 1114111
Huge == 1073741824        \* stands for "close to MaxInt" (TLC integers are 32 bit)
MinRead == 512

\* utf8.first: how many bytes a lead byte announces (0: cannot start a sequence)
Need(b) == IF b < 128 THEN 1 ELSE IF b < 194 THEN 0 ELSE IF b < 224 THEN 2
           ELSE IF b < 240 THEN 3 ELSE IF b < 245 THEN 4 ELSE 0
\* utf8.acceptRanges: allowed values of the second byte
Lo2(b) == IF b = 224 THEN 160 ELSE IF b = 240 THEN 144 ELSE 128
Hi2(b) == IF b = 237 THEN 159 ELSE IF b = 244 THEN 143 ELSE 191
Cont(b) == b >= 128 /\ b <= 191

\* utf8.DecodeRune on a non-empty sequence
Decode(s) ==
    LET b0 == s[1]
        k == Need(b0)
        bad == [r |-> RuneError, size |-> 1]
    IN IF k = 1 THEN [r |-> b0, size |-> 1]
       ELSE IF k = 0 \/ Len(s) < k THEN bad
       ELSE IF s[2] < Lo2(b0) \/ s[2] > Hi2(b0) THEN bad
       ELSE IF k = 2 THEN [r |-> (b0 % 32) * 64 + (s[2] % 64), size |-> 2]
       ELSE IF ~Cont(s[3]) THEN bad
       ELSE IF k = 3 THEN [r |-> (b0 % 16) * 4096 + (s[2] % 64) * 64 + (s[3] % 64), size |-> 3]
       ELSE IF ~Cont(s[4]) THEN bad
       ELSE [r |-> (b0 % 8) * 262144 + (s[2] % 64) * 4096 + (s[3] % 64) * 64 + (s[4] % 64), size |-> 4]

ValidRune(r) == r >= 0 /\ r <= MaxRune /\ ~(r >= 55296 /\ r <= 57343)

\* what WriteRune appends for the int32 r (utf8.AppendRune; invalid runes become U+FFFD)
Encode(r) ==
    IF r >= 0 /\ r < 128 THEN <<r>>
    ELSE IF r >= 128 /\ r <= 2047 THEN <<192 + (r \div 64), 128 + (r % 64)>>
    ELSE IF ~ValidRune(r) THEN <<239, 191, 189>>
    ELSE IF r <= 65535 THEN <<224 + (r \div 4096), 128 + ((r \div 64) % 64), 128 + (r % 64)>>
    ELSE <<240 + (r \div 262144), 128 + ((r \div 4096) % 64), 128 + ((r \div 64) % 64), 128 + (r % 64)>>

-----------------------------------------------------------------------------
(* error / panic classes.  "PFX" stands for the package prefix of the implementation
   ("bytes.Buffer" / "logg/slog.PrintCtx"); the harness normalises it. *)
Nil == "nil"
EOF == "EOF"                                  \* identical to io.EOF
ErrShortWrite == "ErrShortWrite"              \* identical to io.ErrShortWrite
ErrUnreadByte == "PFX: UnreadByte: previous operation was not a successful read"
ErrUnreadRune == "PFX: UnreadRune: previous operation was not a successful ReadRune"
NoPanic == ""
PanTruncate == "PFX: truncation out of range"
PanGrow == "PFX.Grow: negative count"
PanNegRead == "PFX: reader returned negative count from Read"
PanWriteTo == "PFX.WriteTo: invalid Write count"
PanTooLarge == "ErrTooLarge"                  \* identical to the package's ErrTooLarge
PanRuntime == "runtime"                       \* a Go runtime error (slice bounds)

-----------------------------------------------------------------------------
(* abstract state and the functional core *)

\* normal form: keep of prev only what a later call can still observe
Mk(d, l, p) == [data |-> d, lr |-> l,
                prev |-> IF l = 0 /\ d # <<>> THEN <<>> ELSE LastK(p, IF l > 0 THEN l ELSE 1)]
New(b) == Mk(b, 0, <<>>)                      \* constructors / the state after Reset
Fresh == New(<<>>)

R(s2, n, m, b, err, pan) == [st |-> s2, n |-> n, m |-> m, b |-> b, err |-> err, pan |-> pan]
Ok(s2) == R(s2, 0, 0, <<>>, Nil, NoPanic)

\* move the read point forward over k bytes, recording l as the last read
Eat(s, k, l) == Mk(Drop(s.data, k), l,
                   IF k >= 4 THEN SubSeq(s.data, k - 3, k) ELSE s.prev \o Take(s.data, k))

OpWrite(s, b) == R(Mk(s.data \o b, 0, s.prev), Len(b), 0, <<>>, Nil, NoPanic)
OpWriteByte(s, c) == Ok(Mk(Append(s.data, c), 0, s.prev))
OpWriteRune(s, r) == OpWrite(s, Encode(r))

\* Read(p) with len(p) = k >= 0
OpRead(s, k) ==
    IF s.data = <<>> THEN R(Fresh, 0, 0, <<>>, IF k = 0 THEN Nil ELSE EOF, NoPanic)
    ELSE LET c == MinI(k, Len(s.data))
         IN R(Eat(s, c, IF c > 0 THEN -1 ELSE 0), c, 0, Take(s.data, c), Nil, NoPanic)

\* Next(k): a negative k is a slice-bounds runtime panic, after lastRead was invalidated
OpNext(s, k) ==
    IF k < 0 THEN R(Mk(s.data, 0, s.prev), 0, 0, <<>>, Nil, PanRuntime)
    ELSE LET c == MinI(k, Len(s.data))
         IN R(Eat(s, c, IF c > 0 THEN -1 ELSE 0), c, 0, Take(s.data, c), Nil, NoPanic)

OpReadByte(s) ==
    IF s.data = <<>> THEN R(Fresh, 0, 0, <<>>, EOF, NoPanic)
    ELSE R(Eat(s, 1, -1), s.data[1], 0, <<>>, Nil, NoPanic)

OpReadRune(s) ==
    IF s.data = <<>> THEN R(Fresh, 0, 0, <<>>, EOF, NoPanic)
    ELSE LET d == Decode(s.data) IN R(Eat(s, d.size, d.size), d.r, d.size, <<>>, Nil, NoPanic)

OpUnreadRune(s) ==
    IF s.lr <= 0 THEN R(s, 0, 0, <<>>, ErrUnreadRune, NoPanic)
    ELSE IF Len(s.prev) >= s.lr THEN Ok(Mk(s.prev \o s.data, 0, <<>>))
    ELSE Ok(Mk(s.data, 0, s.prev))            \* the rune is physically gone (Grow moved the data)

OpUnreadByte(s) ==
    IF s.lr = 0 THEN R(s, 0, 0, <<>>, ErrUnreadByte, NoPanic)
    ELSE IF s.prev = <<>> THEN Ok(Mk(s.data, 0, <<>>))
    ELSE Ok(Mk(<<s.prev[Len(s.prev)]>> \o s.data, 0, Take(s.prev, Len(s.prev) - 1)))

\* ReadBytes / ReadString: always records a read, even when nothing is consumed
OpReadSlice(s, d) ==
    LET i == IndexByte(s.data, d)
    IN IF i > 0 THEN R(Eat(s, i, -1), i, 0, Take(s.data, i), Nil, NoPanic)
       ELSE R(Eat(s, Len(s.data), -1), Len(s.data), 0, s.data, EOF, NoPanic)

\* Truncate(0) is Reset; otherwise lastRead is invalidated before the range check
OpTruncate(s, k) ==
    IF k = 0 THEN Ok(Fresh)
    ELSE IF k < 0 \/ k > Len(s.data) THEN R(Mk(s.data, 0, s.prev), 0, 0, <<>>, Nil, PanTruncate)
    ELSE Ok(Mk(Take(s.data, k), 0, s.prev))

OpReset(s) == Ok(Fresh)

\* Grow(k) with `avail` spare bytes before the call.  Does not touch lastRead.
OpGrow(s, k, avail) ==
    IF k < 0 THEN R(s, 0, 0, <<>>, Nil, PanGrow)
    ELSE IF s.data = <<>> /\ s.prev # <<>>                       \* empty with the read point advanced: Reset first
         THEN R(Fresh, 0, 0, <<>>, Nil, IF k >= Huge THEN PanTooLarge ELSE NoPanic)
    ELSE IF k >= Huge THEN R(s, 0, 0, <<>>, Nil, PanTooLarge)
    ELSE IF k <= avail THEN Ok(s)                                \* fits: nothing moves
    ELSE Ok(Mk(s.data, s.lr, <<>>))                              \* slide / reallocate: read point back at 0

\* ReadFrom(r): the reader delivered the bytes b and then ended with fin:
\*   "eof" (io.EOF), "err" (some other error, returned as is), "neg" (negative count -> panic)
OpReadFrom(s, b, fin) ==
    R(Mk(s.data \o b, 0, <<>>), Len(b), 0, <<>>,
      IF fin = "err" THEN "injected" ELSE Nil,
      IF fin = "neg" THEN PanNegRead ELSE NoPanic)

\* WriteTo(w): the writer (called once with all of data, never on an empty buffer) returned (wn, werr)
WriterCalled(s) == s.data # <<>>
OpWriteTo(s, wn, werr) ==
    IF s.data = <<>> THEN R(Fresh, 0, 0, <<>>, Nil, NoPanic)
    ELSE IF wn > Len(s.data) THEN R(Mk(s.data, 0, s.prev), 0, 0, <<>>, Nil, PanWriteTo)
    ELSE LET s1 == Eat(s, wn, 0)
         IN IF werr # Nil THEN R(s1, wn, 0, <<>>, werr, NoPanic)
            ELSE IF wn # Len(s.data) THEN R(s1, wn, 0, <<>>, ErrShortWrite, NoPanic)
            ELSE R(Fresh, wn, 0, <<>>, Nil, NoPanic)

OpLen(s) == R(s, Len(s.data), 0, <<>>, Nil, NoPanic)
OpContents(s) == R(s, 0, 0, s.data, Nil, NoPanic)                \* Bytes() and String()
OpNilString(s) == R(s, 0, 0, <<60, 110, 105, 108, 62>>, Nil, NoPanic)   \* String() on a nil pointer: "<nil>"

-----------------------------------------------------------------------------
(* ownership: the byte slices the caller keeps (see header) *)

Observers == {"Len", "Bytes", "String", "NilString"}        \* calls that do not modify the buffer
Modifies(op) == op \notin Observers

\* what the caller holds after the call: an owned copy, an immutable string, or an alias
HandTag(op) == CASE op \in {"Write", "WriteString", "Read", "ReadBytes"} -> "own"
                 [] op \in {"ReadString", "String"} -> "str"
                 [] op = "Bytes" -> "bytes"
                 [] op = "Next" -> "next"
                 [] OTHER -> "none"

IsOwned(h) == h.tag \in {"own", "str"}
IsAlias(h) == h.tag \in {"bytes", "next"}
EndWindows(H) == SelectSeq(H, IsOwned)                      \* a modification: every alias becomes undefined
Push(H, h, cap) == IF cap <= 0 THEN H ELSE IF Len(H) >= cap THEN Append(Tail(H), h) ELSE Append(H, h)

\* the call op (outcome o, byte argument arg) seen from the caller who keeps (keep) or drops its result
HCall(H, op, o, arg, keep, cap) ==
    LET H1 == IF Modifies(op) THEN EndWindows(H) ELSE H
        v == IF op \in {"Write", "WriteString"} THEN arg ELSE o.b
    IN IF keep /\ HandTag(op) # "none" /\ o.pan = NoPanic /\ v # <<>>
       THEN Push(H1, [tag |-> HandTag(op), val |-> v], cap) ELSE H1

\* the caller executes  slice[j] = v  on the k-th kept slice (j counts from 1)
CanPoke(H, k, j) == k \in DOMAIN H /\ H[k].tag \in {"own", "bytes", "next"} /\ j \in 1..Len(H[k].val)
PokeSt(s, h, j, v) ==
    CASE h.tag = "bytes" -> [s EXCEPT !.data[j] = v]                      \* Bytes() IS the unread data
      [] h.tag = "next" -> IF j = Len(h.val) /\ s.prev # <<>>                \* the byte UnreadByte steps back over
                           THEN [s EXCEPT !.prev[Len(s.prev)] = v] ELSE s
      [] OTHER -> s                                                       \* a private copy: invisible to the buffer
PokeHeld(H, k, j, v) ==
    [i \in DOMAIN H |-> IF i = k \/ (H[i].tag = "bytes" /\ H[k].tag = "bytes")   \* all live Bytes() results are one region
                        THEN [H[i] EXCEPT !.val[j] = v] ELSE H[i]]

\* the caller overwrites every byte of an owned slice (and appends into its spare capacity)
CanFill(H, k) == k \in DOMAIN H /\ H[k].tag = "own"
FillHeld(H, k) == [H EXCEPT ![k].val = [i \in 1..Len(H[k].val) |-> 255 - H[k].val[i]]]

-----------------------------------------------------------------------------
(* the exhaustive model: every call with every argument of the constant sets, from every state *)

Fits(b) == Len(st.data) + Len(b) <= MaxLen
HC(op, o, arg) == HCall(held, op, o, arg, op \in Retain, Hold)      \* (a state function: no primes)

Write(k) == Fits(Payloads[k]) /\ st' = OpWrite(st, Payloads[k]).st
            /\ held' = HC("Write", OpWrite(st, Payloads[k]), Payloads[k])
WriteString(k) == Fits(Payloads[k]) /\ st' = OpWrite(st, Payloads[k]).st
                  /\ held' = HC("WriteString", OpWrite(st, Payloads[k]), Payloads[k])
WriteByte(c) == Fits(<<c>>) /\ st' = OpWriteByte(st, c).st /\ held' = HC("WriteByte", OpWriteByte(st, c), <<>>)
WriteRune(r) == Fits(Encode(r)) /\ st' = OpWriteRune(st, r).st /\ held' = HC("WriteRune", OpWriteRune(st, r), <<>>)
Read(k) == k >= 0 /\ st' = OpRead(st, k).st /\ held' = HC("Read", OpRead(st, k), <<>>)
Next_(k) == st' = OpNext(st, k).st /\ held' = HC("Next", OpNext(st, k), <<>>)
ReadByte == st' = OpReadByte(st).st /\ held' = HC("ReadByte", OpReadByte(st), <<>>)
ReadRune == st' = OpReadRune(st).st /\ held' = HC("ReadRune", OpReadRune(st), <<>>)
UnreadByte == st' = OpUnreadByte(st).st /\ held' = HC("UnreadByte", OpUnreadByte(st), <<>>)
UnreadRune == st' = OpUnreadRune(st).st /\ held' = HC("UnreadRune", OpUnreadRune(st), <<>>)
ReadBytes(d) == st' = OpReadSlice(st, d).st /\ held' = HC("ReadBytes", OpReadSlice(st, d), <<>>)
ReadString(d) == st' = OpReadSlice(st, d).st /\ held' = HC("ReadString", OpReadSlice(st, d), <<>>)
Truncate(k) == st' = OpTruncate(st, k).st /\ held' = HC("Truncate", OpTruncate(st, k), <<>>)
Reset == st' = OpReset(st).st /\ held' = HC("Reset", OpReset(st), <<>>)
GrowKinds == {"fit", "nofit", "neg", "huge"}
GrowArg(kind) == CASE kind = "fit" -> 0 [] kind = "nofit" -> 1 [] kind = "neg" -> -1 [] OTHER -> Huge
Grow(kind) == st' = OpGrow(st, GrowArg(kind), 0).st /\ held' = HC("Grow", OpGrow(st, GrowArg(kind), 0), <<>>)
ReadFrom(k, fin) == Fits(Payloads[k]) /\ st' = OpReadFrom(st, Payloads[k], fin).st
                    /\ held' = HC("ReadFrom", OpReadFrom(st, Payloads[k], fin), <<>>)
\* writer behaviours: "ok" takes everything, "over" claims one byte too many, "short"/"err" take
\* at most m bytes and return nil / an error
WriterCount(s, m, fin) == CASE fin = "ok" -> Len(s.data) [] fin = "over" -> Len(s.data) + 1
                            [] OTHER -> MinI(m, Len(s.data))
WriteTo(m, fin) == LET o == OpWriteTo(st, WriterCount(st, m, fin), IF fin = "err" THEN "injected" ELSE Nil)
                   IN st' = o.st /\ held' = HC("WriteTo", o, <<>>)
Len_ == st' = OpLen(st).st /\ held' = HC("Len", OpLen(st), <<>>)
Bytes_ == st' = OpContents(st).st /\ held' = HC("Bytes", OpContents(st), <<>>)
String_ == st' = OpContents(st).st /\ held' = HC("String", OpContents(st), <<>>)
\* not a call of the buffer: the caller stores a byte through a slice it kept, at its first or
\* its last position (the last byte of a Next() result is the one UnreadByte steps back over)
PokeIdx(k, at) == IF at = "first" THEN 1 ELSE Len(held[k].val)
Poke(k, at, v) == k \in DOMAIN held /\ CanPoke(held, k, PokeIdx(k, at))
                  /\ st' = PokeSt(st, held[k], PokeIdx(k, at), v) /\ held' = PokeHeld(held, k, PokeIdx(k, at), v)

Init == st \in {New(b) : b \in Inits} /\ held = <<>>

Next ==
    \/ \E k \in 1..Len(Payloads) : Write(k)
    \/ \E k \in 1..Len(Payloads) : WriteString(k)
    \/ \E c \in ByteArgs : WriteByte(c)
    \/ \E r \in Runes : WriteRune(r)
    \/ \E k \in Counts : Read(k)
    \/ \E k \in Counts : Next_(k)
    \/ ReadByte \/ ReadRune \/ UnreadByte \/ UnreadRune \/ Reset
    \/ \E d \in ByteArgs : ReadBytes(d)
    \/ \E d \in ByteArgs : ReadString(d)
    \/ \E k \in Counts : Truncate(k)
    \/ \E kind \in GrowKinds : Grow(kind)
    \/ \E k \in 1..Len(Payloads), fin \in {"eof", "err", "neg"} : ReadFrom(k, fin)
    \/ \E fin \in {"ok", "over"} : WriteTo(0, fin)
    \/ \E m \in 0..MaxLen, fin \in {"short", "err"} : WriteTo(m, fin)
    \/ Len_ \/ Bytes_ \/ String_
    \/ \E k \in 1..Hold, at \in {"first", "last"}, v \in PokeVals : Poke(k, at, v)

Spec == Init /\ [][Next]_<<st, held>>

\* VIEW of the exhaustive model.  The bytes of an owned result never influence any later step (that
\* is the contract: PokeSt ignores them, HCall only moves them), and a live Bytes() result is data
\* (AliasCoherent); so states that differ only there have the same future, and TLC explores one
\* representative per class.  The trace specification has no view: there every value counts.
HeldView == [k \in DOMAIN held |-> [tag |-> held[k].tag, n |-> IF held[k].tag = "next" THEN Len(held[k].val) ELSE 0]]
View == <<st, HeldView>>

\* rendered into the dot dump: one JSON-ish string per state (parsed by the orchestrator)
TagCode(t) == CASE t = "own" -> 1 [] t = "str" -> 2 [] t = "bytes" -> 3 [] t = "next" -> 4
DumpAlias == [j |-> ToString(st.data) \o "|" \o ToString(st.lr) \o "|" \o ToString(st.prev) \o "|"
                    \o ToString([k \in DOMAIN held |-> TagCode(held[k].tag)]) \o "|"
                    \o ToString([k \in DOMAIN held |-> HeldView[k].n])]

-----------------------------------------------------------------------------
(* invariants, evaluated by TLC in every reachable state *)

IsByteSeq(s) == \A i \in 1..Len(s) : s[i] \in 0..255

TypeOK == /\ IsByteSeq(st.data) /\ IsByteSeq(st.prev) /\ Len(st.data) <= MaxLen
          /\ st.lr \in -1..4

PrevShape ==
    /\ st.lr > 0 => Len(st.prev) \in {0, st.lr}
    /\ st.lr <= 0 => Len(st.prev) <= 1
    /\ (st.lr = 0 /\ st.data # <<>>) => st.prev = <<>>
    \* a recorded read with nothing in front of the read point on a non-empty buffer can only
    \* come from Grow having moved the data
    /\ st = Mk(st.data, st.lr, st.prev)

\* after ReadRune the bytes kept in prev are exactly that rune.  (Stated over the operator and not
\* over the current state: a store through a Bytes() result may legitimately turn the bytes
\* behind an already consumed rune into a different sequence.)
RuneAgain == st.data # <<>> =>
                 LET o == OpReadRune(st)
                     d == Decode(o.st.prev \o o.st.data)
                 IN o.st.lr = o.m /\ o.st.prev = Take(st.data, o.m) /\ d.size = o.m /\ d.r = o.n

UnreadLaws ==
    /\ st.data # <<>> =>
         /\ OpUnreadByte(OpReadByte(st).st).st.data = st.data
         /\ OpUnreadByte(OpReadByte(st).st).err = Nil
         /\ OpUnreadByte(OpUnreadByte(OpReadByte(st).st).st).err = ErrUnreadByte
         /\ OpUnreadRune(OpReadRune(st).st).st.data = st.data
         /\ OpUnreadRune(OpReadRune(st).st).err = Nil
         /\ OpUnreadRune(OpUnreadRune(OpReadRune(st).st).st).err = ErrUnreadRune
         /\ OpReadRune(OpUnreadRune(OpReadRune(st).st).st).n = OpReadRune(st).n
         /\ OpUnreadRune(OpReadByte(st).st).err = ErrUnreadRune          \* stricter than UnreadByte
         /\ OpUnreadByte(OpReadRune(st).st).st.data = Drop(st.data, OpReadRune(st).m - 1)
    /\ \A k \in 1..Len(Payloads) :
         /\ OpUnreadByte(OpWrite(st, Payloads[k]).st).err = ErrUnreadByte
         /\ OpUnreadRune(OpWrite(st, Payloads[k]).st).err = ErrUnreadRune
    /\ OpUnreadByte(OpReadByte(Fresh).st).err = ErrUnreadByte            \* a failed read is no read

Conservation ==
    /\ \A k \in Counts : k >= 0 =>
         /\ OpRead(st, k).b \o OpRead(st, k).st.data = st.data
         /\ OpNext(st, k).b \o OpNext(st, k).st.data = st.data
         /\ OpRead(st, k).n = Len(OpRead(st, k).b) /\ OpRead(st, k).n <= k
    /\ \A d \in ByteArgs : OpReadSlice(st, d).b \o OpReadSlice(st, d).st.data = st.data
    /\ \A k \in 1..Len(Payloads) :
         /\ OpWrite(st, Payloads[k]).st.data = st.data \o Payloads[k]
         /\ OpReadFrom(st, Payloads[k], "eof").st.data = st.data \o Payloads[k]
    /\ \A r \in Runes : LET o == OpWriteRune(st, r) IN
         /\ o.st.data = st.data \o Encode(r) /\ o.n = Len(Encode(r))
         /\ st.data = <<>> => OpReadRune(o.st).n = (IF ValidRune(r) THEN r ELSE RuneError)
    /\ \A k \in Counts : (k > 0 /\ k <= Len(st.data)) => OpTruncate(st, k).st.data = Take(st.data, k)
    /\ \A m \in 0..Len(st.data) : LET o == OpWriteTo(st, m, Nil) IN
         /\ o.st.data = Drop(st.data, m) /\ o.n = m
         /\ (o.err = Nil) = (m = Len(st.data))
    /\ st.data # <<>> => (OpReadByte(st).n = st.data[1] /\ OpReadByte(st).st.data = Drop(st.data, 1))
    /\ st.data # <<>> => OpReadRune(st).st.data = Drop(st.data, OpReadRune(st).m)

DelimLaw == \A d \in ByteArgs : LET o == OpReadSlice(st, d) IN
                (o.err # Nil) = (o.b = <<>> \/ o.b[Len(o.b)] # d)

EofLaw ==
    /\ \A k \in Counts : k >= 0 => ((OpRead(st, k).err = EOF) = (st.data = <<>> /\ k > 0))
    /\ (OpReadByte(st).err = EOF) = (st.data = <<>>)
    /\ (OpReadRune(st).err = EOF) = (st.data = <<>>)

ResetLaw ==
    /\ OpReset(st).st = Fresh /\ OpTruncate(st, 0).st = Fresh
    /\ OpWriteTo(st, Len(st.data), Nil).st = Fresh
    /\ st.data = <<>> => (OpRead(st, 0).st = Fresh /\ OpReadByte(st).st = Fresh /\ OpReadRune(st).st = Fresh)

\* shape of the caller's side
HeldOK == /\ Len(held) <= Hold
          /\ \A k \in DOMAIN held : /\ held[k].tag \in {"own", "str", "bytes", "next"}
                                     /\ IsByteSeq(held[k].val) /\ held[k].val # <<>>

\* inside its window an alias and the buffer are the same bytes
AliasCoherent == \A k \in DOMAIN held :
    /\ held[k].tag = "bytes" => held[k].val = st.data
    /\ held[k].tag = "next" => (st.lr = -1 /\ st.prev = LastK(held[k].val, 1))
    /\ \A i \in DOMAIN held : (held[k].tag = "next" /\ held[i].tag = "next") => i = k

\* owned results are out of the buffer's reach; a modification ends every window and keeps every
\* owned result; an observer ends none.  Stated over the operators, from the current state.
OwnLaw ==
    /\ \A k \in DOMAIN held : held[k].tag = "own" =>
          \A j \in 1..Len(held[k].val), v \in PokeVals : PokeSt(st, held[k], j, v) = st
    /\ \A d \in ByteArgs : LET H == HCall(held, "ReadBytes", OpReadSlice(st, d), <<>>, FALSE, Hold)
                           IN SelectSeq(H, IsAlias) = <<>> /\ H = SelectSeq(held, IsOwned)
    /\ \A k \in 1..Len(Payloads) : HCall(held, "Write", OpWrite(st, Payloads[k]), Payloads[k], FALSE, Hold)
                                      = SelectSeq(held, IsOwned)
    /\ HCall(held, "String", OpContents(st), <<>>, FALSE, Hold) = held

-----------------------------------------------------------------------------
(* the UTF-8 tables themselves, checked by TLC before any state is explored *)

\* encoding then decoding any int32 gives the rune back (U+FFFD for invalid ones), with the same size
RoundTrips(r) == LET d == Decode(Encode(r)) IN
                     /\ d.size = Len(Encode(r))
                     /\ d.r = (IF ValidRune(r) THEN r ELSE RuneError)
ASSUME Utf8RoundTrip == /\ \A r \in RuneSpace : RoundTrips(r)
                        /\ \A r \in Runes : RoundTrips(r)
                        /\ \A r \in {-2147483647, -1, 2147483647} : RoundTrips(r)      \* int32 extremes

\* Decode accepts exactly the shortest-form encodings of valid runes; everything else is
\* (U+FFFD, 1); a truncated sequence is never accepted
ASSUME Utf8Strict == \A a \in DecBytes, b \in DecBytes, c \in DecBytes, e \in DecBytes : \A k \in 1..4 :
    LET t == Take(<<a, b, c, e>>, k)
        d == Decode(t)
    IN /\ d.size <= k
       /\ d.size > 1 => (ValidRune(d.r) /\ d.r >= 128 /\ Encode(d.r) = Take(t, d.size))
       /\ d.size = 1 => d.r = (IF a < 128 THEN a ELSE RuneError)
=============================================================================
