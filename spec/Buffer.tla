------------------------------- MODULE Buffer -------------------------------
(* C19 - the read/write interface of slog.PrintCtx is observationally equal to bytes.Buffer.

   WHAT IS MODELLED.  The reference the property names, bytes.Buffer, as a state machine over
   its public calls, at the level the property speaks at: results, error identities, panics and
   remaining contents.  Style: "functional core" - every call is a pure operator
   Op<Name>(s, args...) that maps an abstract state to a record

        [st |-> successor state, n, m |-> integer results, b |-> returned bytes,
         err |-> error class, pan |-> panic class ("" = returned normally)]

   The exhaustive specification (Next, below), the trace specification (BufferTrace.tla) and all
   invariants use these same operators - one source of truth.  The model is DETERMINISTIC: given
   the arguments (and, for the collaborator calls, what the collaborator did) there is exactly
   one allowed outcome.  Hence two implementations that both conform (PrintCtx and bytes.Buffer)
   are observationally equal on everything explored.

   ABSTRACT STATE  st = [data, lr, prev]
     data   the unread bytes (sequence of 0..255): what Len/Bytes/String show
     lr     bytes.Buffer's lastRead: 0 = last call was not a read ("invalid"), -1 = some read,
            1..4 = ReadRune that consumed that many bytes
     prev   the bytes physically still in front of the read point, *as far as any future call
            can observe them* (normal form, see Mk):
              - after ReadRune (lr = k > 0) the k bytes of that rune, so UnreadRune can put them back;
              - otherwise only the last byte: UnreadByte steps back over it.  It survives calls
                that do not move the read point (an empty Write, Next(0), Truncate(n>0), a failed
                UnreadByte or UnreadRune), which is what makes the zero-length ReadBytes/ReadString corner
                visible: on an empty buffer they still record "a read happened", and a
                following UnreadByte steps back over the byte that is physically there;
              - while lr = 0 and data is not empty nothing can observe prev before a consuming
                read refreshes it, so it is dropped.  This is also why capacity, sliding and
                reallocation need not be modelled for the write calls: they only ever destroy
                prev in exactly that unobservable situation.
            prev = <<>> therefore means "the read point is at the start of the storage" whenever
            that is observable.
   The one place where bytes.Buffer's answer depends on capacity is Grow (it leaves lastRead
   alone): Grow(n) after a read keeps prev iff the n bytes fit into the spare capacity.  The
   spare capacity is an input of OpGrow (`avail`, what Available() showed before the call): the
   exhaustive model explores both answers, a recorded trace supplies the observed one.

   OPERATORS (one per listed call)
     OpWrite OpWriteByte OpWriteRune (Write/WriteString/WriteByte/WriteRune), OpRead OpNext
     OpReadByte OpReadRune OpUnreadByte OpUnreadRune OpReadSlice (ReadBytes/ReadString) OpTruncate
     OpReset OpGrow OpReadFrom OpWriteTo OpLen OpContents (Bytes/String) OpNilString (String on
     a nil pointer); New(b) = the constructors (NewBuffer / NewBufferString / zero value).
     Decode / Encode are unicode/utf8's DecodeRune / AppendRune written over integers (lead-byte
     table Need, accept ranges Lo2/Hi2).

   WHICH OPERATOR STATES WHICH PART OF THE PROPERTY
     "results, errors or panics"     the n/m/b/err/pan fields of each Op* record
     "remaining contents"            st.data of each Op* record (OpLen/OpContents read it)
     invariants checked by TLC over every reachable state of the exhaustive model:
       TypeOK, PrevShape      shape of the state / of the normal form
       RuneAgain              after ReadRune the bytes kept in prev are exactly that rune
       UnreadLaws             ReadByte;UnreadByte and ReadRune;UnreadRune are identities on data,
                              a second Unread* fails, Unread* after a write fails
       Conservation           every read returns a prefix of data and leaves the rest; every
                              write appends; Truncate keeps a prefix; WriteTo hands over data
       DelimLaw               ReadBytes: err # nil  <=>  returned bytes do not end in delim
       EofLaw                 EOF is reported only on an empty buffer (and not for Read(len 0))
       ResetLaw               every call that empties via Reset leaves the state New(<<>>)
       Utf8RoundTrip, Utf8Strict (ASSUME)   the UTF-8 encode/decode tables agree with each other
     BufferImpl.tla checks with TLC that the storage algorithm of bytes.Buffer (capacity, slide,
     reallocation) refines this capacity-free model (invariants Agree, Rel).                      *)
EXTENDS Integers, Sequences, FiniteSets, TLC

CONSTANTS
    Payloads,     \* sequence of byte sequences: arguments of Write / WriteString / ReadFrom
    ByteArgs,     \* set of bytes: arguments of WriteByte and delimiters of ReadBytes / ReadString
    Runes,        \* set of integers: arguments of WriteRune (valid, invalid, negative ...)
    Counts,       \* set of integers: len(p) of Read, n of Next / Truncate (negative ones included)
    MaxLen,       \* bound on Len(data) in the exhaustive model
    Inits,        \* set of byte sequences a buffer may be constructed with
    RuneSpace,    \* set of integers over which the UTF-8 encode/decode tables are cross-checked
    DecBytes      \* set of bytes: all 4-byte strings over it are cross-checked against Decode

VARIABLE st

-----------------------------------------------------------------------------
(* byte-sequence helpers *)
MinI(a, b) == IF a < b THEN a ELSE b
Take(s, k) == SubSeq(s, 1, k)
Drop(s, k) == SubSeq(s, k + 1, Len(s))
LastK(s, k) == IF Len(s) <= k THEN s ELSE SubSeq(s, Len(s) - k + 1, Len(s))
\* position of the first d in s, 0 = absent (no recursion: TLC evaluates this in linear time)
IndexByte(s, d) == IF \E i \in 1..Len(s) : s[i] = d
                   THEN CHOOSE i \in 1..Len(s) : s[i] = d /\ \A j \in 1..(i - 1) : s[j] # d
                   ELSE 0

-----------------------------------------------------------------------------
(* unicode/utf8 over integers *)
RuneError == 65533
MaxRune == 1114111
Huge == 1073741824        \* stands for "close to MaxInt" (TLC integers are 32 bit)
MinRead == 512

\* utf8.first: how many bytes a lead byte announces (0: cannot start a sequence)
Need(b) == IF b < 128 THEN 1 ELSE IF b < 194 THEN 0 ELSE IF b < 224 THEN 2
           ELSE IF b < 240 THEN 3 ELSE IF b < 245 THEN 4 ELSE 0
\* utf8.acceptRanges: allowed values of the second byte
Lo2(b) == IF b = 224 THEN 160 ELSE IF b = 240 THEN 144 ELSE 128
Hi2(b) == IF b = 237 THEN 159 ELSE IF b = 244 THEN 143 ELSE 191
Cont(b) == b >= 128 /\ b <= 191

\* utf8.DecodeRune on a non-empty sequence
Decode(s) ==
    LET b0 == s[1]
        k == Need(b0)
        bad == [r |-> RuneError, size |-> 1]
    IN IF k = 1 THEN [r |-> b0, size |-> 1]
       ELSE IF k = 0 \/ Len(s) < k THEN bad
       ELSE IF s[2] < Lo2(b0) \/ s[2] > Hi2(b0) THEN bad
       ELSE IF k = 2 THEN [r |-> (b0 % 32) * 64 + (s[2] % 64), size |-> 2]
       ELSE IF ~Cont(s[3]) THEN bad
       ELSE IF k = 3 THEN [r |-> (b0 % 16) * 4096 + (s[2] % 64) * 64 + (s[3] % 64), size |-> 3]
       ELSE IF ~Cont(s[4]) THEN bad
       ELSE [r |-> (b0 % 8) * 262144 + (s[2] % 64) * 4096 + (s[3] % 64) * 64 + (s[4] % 64), size |-> 4]

ValidRune(r) == r >= 0 /\ r <= MaxRune /\ ~(r >= 55296 /\ r <= 57343)

\* what WriteRune appends for the int32 r (utf8.AppendRune; invalid runes become U+FFFD)
Encode(r) ==
    IF r >= 0 /\ r < 128 THEN <<r>>
    ELSE IF r >= 128 /\ r <= 2047 THEN <<192 + (r \div 64), 128 + (r % 64)>>
    ELSE IF ~ValidRune(r) THEN <<239, 191, 189>>
    ELSE IF r <= 65535 THEN <<224 + (r \div 4096), 128 + ((r \div 64) % 64), 128 + (r % 64)>>
    ELSE <<240 + (r \div 262144), 128 + ((r \div 4096) % 64), 128 + ((r \div 64) % 64), 128 + (r % 64)>>

-----------------------------------------------------------------------------
(* error / panic classes.  "PFX" stands for the package prefix of the implementation
   ("bytes.Buffer" / "logg/slog.PrintCtx"); the harness normalises it. *)
Nil == "nil"
EOF == "EOF"                                  \* identical to io.EOF
ErrShortWrite == "ErrShortWrite"              \* identical to io.ErrShortWrite
ErrUnreadByte == "PFX: UnreadByte: previous operation was not a successful read"
ErrUnreadRune == "PFX: UnreadRune: previous operation was not a successful ReadRune"
NoPanic == ""
PanTruncate == "PFX: truncation out of range"
PanGrow == "PFX.Grow: negative count"
PanNegRead == "PFX: reader returned negative count from Read"
PanWriteTo == "PFX.WriteTo: invalid Write count"
PanTooLarge == "ErrTooLarge"                  \* identical to the package's ErrTooLarge
PanRuntime == "runtime"                       \* a Go runtime error (slice bounds)

-----------------------------------------------------------------------------
(* abstract state and the functional core *)

\* normal form: keep of prev only what a later call can still observe
Mk(d, l, p) == [data |-> d, lr |-> l,
                prev |-> IF l = 0 /\ d # <<>> THEN <<>> ELSE LastK(p, IF l > 0 THEN l ELSE 1)]
New(b) == Mk(b, 0, <<>>)                      \* constructors / the state after Reset
Fresh == New(<<>>)

R(s2, n, m, b, err, pan) == [st |-> s2, n |-> n, m |-> m, b |-> b, err |-> err, pan |-> pan]
Ok(s2) == R(s2, 0, 0, <<>>, Nil, NoPanic)

\* move the read point forward over k bytes, recording l as the last read
Eat(s, k, l) == Mk(Drop(s.data, k), l,
                   IF k >= 4 THEN SubSeq(s.data, k - 3, k) ELSE s.prev \o Take(s.data, k))

OpWrite(s, b) == R(Mk(s.data \o b, 0, s.prev), Len(b), 0, <<>>, Nil, NoPanic)
OpWriteByte(s, c) == Ok(Mk(Append(s.data, c), 0, s.prev))
OpWriteRune(s, r) == OpWrite(s, Encode(r))

\* Read(p) with len(p) = k >= 0
OpRead(s, k) ==
    IF s.data = <<>> THEN R(Fresh, 0, 0, <<>>, IF k = 0 THEN Nil ELSE EOF, NoPanic)
    ELSE LET c == MinI(k, Len(s.data))
         IN R(Eat(s, c, IF c > 0 THEN -1 ELSE 0), c, 0, Take(s.data, c), Nil, NoPanic)

\* Next(k): a negative k is a slice-bounds runtime panic, after lastRead was invalidated
OpNext(s, k) ==
    IF k < 0 THEN R(Mk(s.data, 0, s.prev), 0, 0, <<>>, Nil, PanRuntime)
    ELSE LET c == MinI(k, Len(s.data))
         IN R(Eat(s, c, IF c > 0 THEN -1 ELSE 0), c, 0, Take(s.data, c), Nil, NoPanic)

OpReadByte(s) ==
    IF s.data = <<>> THEN R(Fresh, 0, 0, <<>>, EOF, NoPanic)
    ELSE R(Eat(s, 1, -1), s.data[1], 0, <<>>, Nil, NoPanic)

OpReadRune(s) ==
    IF s.data = <<>> THEN R(Fresh, 0, 0, <<>>, EOF, NoPanic)
    ELSE LET d == Decode(s.data) IN R(Eat(s, d.size, d.size), d.r, d.size, <<>>, Nil, NoPanic)

OpUnreadRune(s) ==
    IF s.lr <= 0 THEN R(s, 0, 0, <<>>, ErrUnreadRune, NoPanic)
    ELSE IF Len(s.prev) >= s.lr THEN Ok(Mk(s.prev \o s.data, 0, <<>>))
    ELSE Ok(Mk(s.data, 0, s.prev))            \* the rune is physically gone (Grow moved the data)

OpUnreadByte(s) ==
    IF s.lr = 0 THEN R(s, 0, 0, <<>>, ErrUnreadByte, NoPanic)
    ELSE IF s.prev = <<>> THEN Ok(Mk(s.data, 0, <<>>))
    ELSE Ok(Mk(<<s.prev[Len(s.prev)]>> \o s.data, 0, Take(s.prev, Len(s.prev) - 1)))

\* ReadBytes / ReadString: always records a read, even when nothing is consumed
OpReadSlice(s, d) ==
    LET i == IndexByte(s.data, d)
    IN IF i > 0 THEN R(Eat(s, i, -1), i, 0, Take(s.data, i), Nil, NoPanic)
       ELSE R(Eat(s, Len(s.data), -1), Len(s.data), 0, s.data, EOF, NoPanic)

\* Truncate(0) is Reset; otherwise lastRead is invalidated before the range check
OpTruncate(s, k) ==
    IF k = 0 THEN Ok(Fresh)
    ELSE IF k < 0 \/ k > Len(s.data) THEN R(Mk(s.data, 0, s.prev), 0, 0, <<>>, Nil, PanTruncate)
    ELSE Ok(Mk(Take(s.data, k), 0, s.prev))

OpReset(s) == Ok(Fresh)

\* Grow(k) with `avail` spare bytes before the call.  Does not touch lastRead.
OpGrow(s, k, avail) ==
    IF k < 0 THEN R(s, 0, 0, <<>>, Nil, PanGrow)
    ELSE IF s.data = <<>> /\ s.prev # <<>>                       \* empty with the read point advanced: Reset first
         THEN R(Fresh, 0, 0, <<>>, Nil, IF k >= Huge THEN PanTooLarge ELSE NoPanic)
    ELSE IF k >= Huge THEN R(s, 0, 0, <<>>, Nil, PanTooLarge)
    ELSE IF k <= avail THEN Ok(s)                                \* fits: nothing moves
    ELSE Ok(Mk(s.data, s.lr, <<>>))                              \* slide / reallocate: read point back at 0

\* ReadFrom(r): the reader delivered the bytes b and then ended with fin:
\*   "eof" (io.EOF), "err" (some other error, returned as is), "neg" (negative count -> panic)
OpReadFrom(s, b, fin) ==
    R(Mk(s.data \o b, 0, <<>>), Len(b), 0, <<>>,
      IF fin = "err" THEN "injected" ELSE Nil,
      IF fin = "neg" THEN PanNegRead ELSE NoPanic)

\* WriteTo(w): the writer (called once with all of data, never on an empty buffer) returned (wn, werr)
WriterCalled(s) == s.data # <<>>
OpWriteTo(s, wn, werr) ==
    IF s.data = <<>> THEN R(Fresh, 0, 0, <<>>, Nil, NoPanic)
    ELSE IF wn > Len(s.data) THEN R(Mk(s.data, 0, s.prev), 0, 0, <<>>, Nil, PanWriteTo)
    ELSE LET s1 == Eat(s, wn, 0)
         IN IF werr # Nil THEN R(s1, wn, 0, <<>>, werr, NoPanic)
            ELSE IF wn # Len(s.data) THEN R(s1, wn, 0, <<>>, ErrShortWrite, NoPanic)
            ELSE R(Fresh, wn, 0, <<>>, Nil, NoPanic)

OpLen(s) == R(s, Len(s.data), 0, <<>>, Nil, NoPanic)
OpContents(s) == R(s, 0, 0, s.data, Nil, NoPanic)                \* Bytes() and String()
OpNilString(s) == R(s, 0, 0, <<60, 110, 105, 108, 62>>, Nil, NoPanic)   \* String() on a nil pointer: "<nil>"

-----------------------------------------------------------------------------
(* the exhaustive model: every call with every argument of the constant sets, from every state *)

Fits(b) == Len(st.data) + Len(b) <= MaxLen

Write(k) == Fits(Payloads[k]) /\ st' = OpWrite(st, Payloads[k]).st
WriteString(k) == Fits(Payloads[k]) /\ st' = OpWrite(st, Payloads[k]).st
WriteByte(c) == Fits(<<c>>) /\ st' = OpWriteByte(st, c).st
WriteRune(r) == Fits(Encode(r)) /\ st' = OpWriteRune(st, r).st
Read(k) == k >= 0 /\ st' = OpRead(st, k).st
Next_(k) == st' = OpNext(st, k).st
ReadByte == st' = OpReadByte(st).st
ReadRune == st' = OpReadRune(st).st
UnreadByte == st' = OpUnreadByte(st).st
UnreadRune == st' = OpUnreadRune(st).st
ReadBytes(d) == st' = OpReadSlice(st, d).st
ReadString(d) == st' = OpReadSlice(st, d).st
Truncate(k) == st' = OpTruncate(st, k).st
Reset == st' = OpReset(st).st
GrowKinds == {"fit", "nofit", "neg", "huge"}
GrowArg(kind) == CASE kind = "fit" -> 0 [] kind = "nofit" -> 1 [] kind = "neg" -> -1 [] OTHER -> Huge
Grow(kind) == st' = OpGrow(st, GrowArg(kind), 0).st
ReadFrom(k, fin) == Fits(Payloads[k]) /\ st' = OpReadFrom(st, Payloads[k], fin).st
\* writer behaviours: "ok" takes everything, "over" claims one byte too many, "short"/"err" take
\* at most m bytes and return nil / an error
WriterCount(s, m, fin) == CASE fin = "ok" -> Len(s.data) [] fin = "over" -> Len(s.data) + 1
                            [] OTHER -> MinI(m, Len(s.data))
WriteTo(m, fin) == st' = OpWriteTo(st, WriterCount(st, m, fin), IF fin = "err" THEN "injected" ELSE Nil).st
Len_ == st' = OpLen(st).st
Bytes_ == st' = OpContents(st).st
String_ == st' = OpContents(st).st

Init == st \in {New(b) : b \in Inits}

Next ==
    \/ \E k \in 1..Len(Payloads) : Write(k)
    \/ \E k \in 1..Len(Payloads) : WriteString(k)
    \/ \E c \in ByteArgs : WriteByte(c)
    \/ \E r \in Runes : WriteRune(r)
    \/ \E k \in Counts : Read(k)
    \/ \E k \in Counts : Next_(k)
    \/ ReadByte \/ ReadRune \/ UnreadByte \/ UnreadRune \/ Reset
    \/ \E d \in ByteArgs : ReadBytes(d)
    \/ \E d \in ByteArgs : ReadString(d)
    \/ \E k \in Counts : Truncate(k)
    \/ \E kind \in GrowKinds : Grow(kind)
    \/ \E k \in 1..Len(Payloads), fin \in {"eof", "err", "neg"} : ReadFrom(k, fin)
    \/ \E fin \in {"ok", "over"} : WriteTo(0, fin)
    \/ \E m \in 0..MaxLen, fin \in {"short", "err"} : WriteTo(m, fin)
    \/ Len_ \/ Bytes_ \/ String_

Spec == Init /\ [][Next]_st

\* rendered into the dot dump: one JSON-ish string per state (parsed by the orchestrator)
DumpAlias == [j |-> ToString(st.data) \o "|" \o ToString(st.lr) \o "|" \o ToString(st.prev)]

-----------------------------------------------------------------------------
(* invariants, evaluated by TLC in every reachable state *)

IsByteSeq(s) == \A i \in 1..Len(s) : s[i] \in 0..255

TypeOK == /\ IsByteSeq(st.data) /\ IsByteSeq(st.prev) /\ Len(st.data) <= MaxLen
          /\ st.lr \in -1..4

PrevShape ==
    /\ st.lr > 0 => Len(st.prev) \in {0, st.lr}
    /\ st.lr <= 0 => Len(st.prev) <= 1
    /\ (st.lr = 0 /\ st.data # <<>>) => st.prev = <<>>
    \* a recorded read with nothing in front of the read point on a non-empty buffer can only
    \* come from Grow having moved the data
    /\ st = Mk(st.data, st.lr, st.prev)

\* after ReadRune the kept bytes decode to a rune of exactly that size
RuneAgain == (st.lr > 0 /\ st.prev # <<>>) =>
                 LET d == Decode(st.prev \o st.data) IN d.size = st.lr /\ d.size = Len(st.prev)

UnreadLaws ==
    /\ st.data # <<>> =>
         /\ OpUnreadByte(OpReadByte(st).st).st.data = st.data
         /\ OpUnreadByte(OpReadByte(st).st).err = Nil
         /\ OpUnreadByte(OpUnreadByte(OpReadByte(st).st).st).err = ErrUnreadByte
         /\ OpUnreadRune(OpReadRune(st).st).st.data = st.data
         /\ OpUnreadRune(OpReadRune(st).st).err = Nil
         /\ OpUnreadRune(OpUnreadRune(OpReadRune(st).st).st).err = ErrUnreadRune
         /\ OpReadRune(OpUnreadRune(OpReadRune(st).st).st).n = OpReadRune(st).n
         /\ OpUnreadRune(OpReadByte(st).st).err = ErrUnreadRune          \* stricter than UnreadByte
         /\ OpUnreadByte(OpReadRune(st).st).st.data = Drop(st.data, OpReadRune(st).m - 1)
    /\ \A k \in 1..Len(Payloads) :
         /\ OpUnreadByte(OpWrite(st, Payloads[k]).st).err = ErrUnreadByte
         /\ OpUnreadRune(OpWrite(st, Payloads[k]).st).err = ErrUnreadRune
    /\ OpUnreadByte(OpReadByte(Fresh).st).err = ErrUnreadByte            \* a failed read is no read

Conservation ==
    /\ \A k \in Counts : k >= 0 =>
         /\ OpRead(st, k).b \o OpRead(st, k).st.data = st.data
         /\ OpNext(st, k).b \o OpNext(st, k).st.data = st.data
         /\ OpRead(st, k).n = Len(OpRead(st, k).b) /\ OpRead(st, k).n <= k
    /\ \A d \in ByteArgs : OpReadSlice(st, d).b \o OpReadSlice(st, d).st.data = st.data
    /\ \A k \in 1..Len(Payloads) :
         /\ OpWrite(st, Payloads[k]).st.data = st.data \o Payloads[k]
         /\ OpReadFrom(st, Payloads[k], "eof").st.data = st.data \o Payloads[k]
    /\ \A r \in Runes : LET o == OpWriteRune(st, r) IN
         /\ o.st.data = st.data \o Encode(r) /\ o.n = Len(Encode(r))
         /\ st.data = <<>> => OpReadRune(o.st).n = (IF ValidRune(r) THEN r ELSE RuneError)
    /\ \A k \in Counts : (k > 0 /\ k <= Len(st.data)) => OpTruncate(st, k).st.data = Take(st.data, k)
    /\ \A m \in 0..Len(st.data) : LET o == OpWriteTo(st, m, Nil) IN
         /\ o.st.data = Drop(st.data, m) /\ o.n = m
         /\ (o.err = Nil) = (m = Len(st.data))
    /\ st.data # <<>> => (OpReadByte(st).n = st.data[1] /\ OpReadByte(st).st.data = Drop(st.data, 1))
    /\ st.data # <<>> => OpReadRune(st).st.data = Drop(st.data, OpReadRune(st).m)

DelimLaw == \A d \in ByteArgs : LET o == OpReadSlice(st, d) IN
                (o.err # Nil) = (o.b = <<>> \/ o.b[Len(o.b)] # d)

EofLaw ==
    /\ \A k \in Counts : k >= 0 => ((OpRead(st, k).err = EOF) = (st.data = <<>> /\ k > 0))
    /\ (OpReadByte(st).err = EOF) = (st.data = <<>>)
    /\ (OpReadRune(st).err = EOF) = (st.data = <<>>)

ResetLaw ==
    /\ OpReset(st).st = Fresh /\ OpTruncate(st, 0).st = Fresh
    /\ OpWriteTo(st, Len(st.data), Nil).st = Fresh
    /\ st.data = <<>> => (OpRead(st, 0).st = Fresh /\ OpReadByte(st).st = Fresh /\ OpReadRune(st).st = Fresh)

-----------------------------------------------------------------------------
(* the UTF-8 tables themselves, checked by TLC before any state is explored *)

\* encoding then decoding any int32 gives the rune back (U+FFFD for invalid ones), with the same size
RoundTrips(r) == LET d == Decode(Encode(r)) IN
                     /\ d.size = Len(Encode(r))
                     /\ d.r = (IF ValidRune(r) THEN r ELSE RuneError)
ASSUME Utf8RoundTrip == /\ \A r \in RuneSpace : RoundTrips(r)
                        /\ \A r \in Runes : RoundTrips(r)
                        /\ \A r \in {-2147483647, -1, 2147483647} : RoundTrips(r)      \* int32 extremes

\* Decode accepts exactly the shortest-form encodings of valid runes; everything else is
\* (U+FFFD, 1); a truncated sequence is never accepted
ASSUME Utf8Strict == \A a \in DecBytes, b \in DecBytes, c \in DecBytes, e \in DecBytes : \A k \in 1..4 :
    LET t == Take(<<a, b, c, e>>, k)
        d == Decode(t)
    IN /\ d.size <= k
       /\ d.size > 1 => (ValidRune(d.r) /\ d.r >= 128 /\ Encode(d.r) = Take(t, d.size))
       /\ d.size = 1 => d.r = (IF a < 128 THEN a ELSE RuneError)
=============================================================================
