-------------------------- MODULE EncoderHistTrace --------------------------
(* Trace validation for EncoderHist: a log of histories the harness executed on the real
   library (worker command "enchist"), one JSON object per line:

     {"op":"Reset", testing, dbg, trc, width, minw, modes:[[jm,cm],..], named:[..]}
                       a new behaviour starts: fresh loggers, fresh custom severities, the
                       process-wide settings put back; the line carries what the getters report
     {"op":"Configure", l, f, jm, cm, named}       getters of the (new) logger of slot l afterwards
     {"op":"Emit", l, sev, msg, args, caller, cfile, obs}  obs = projection of the bytes written (the
                       independent decoders of fam_encoder_dec.go / fam_encoder_color.go) plus
                       tagsrc / lvlsrc: which sources the printed level tag / name is equal to
     {"op":"GC", n}   {"op":"Register", c, g, ok}   {"op":"Switch", k, v, dbg, trc}
     {"op":"SwitchOff", dbg, trc}   {"op":"SetWidth", w}   {"op":"SetMinW", m}
     {"op":"SetColors", c, fg, bg}   slog.SetLevelColors(concrete severity of c, colour of class fg, of class bg)

   The monitor consumes one line per step and maintains the model state ms of EncoderHist
   (same step operators).  Where a public getter exists the monitor ADOPTS its answer (logger
   mode, name, debug / trace switch) - which mode a call sequence must produce is C11's
   business, here only the consequence counts: a logger that says JSONMode() must write JSON.
   A difference between the planned (CfgStep) and the reported mode is printed as "@@note".
   Every Emit is judged by HDiag against ExpRecOf(ms, ...): a function of ms and the record,
   never of the lines consumed before.  Rejected lines:
        @@bad {"line": i, "diag": [...], "fmt": f, "l": l, "feats": [...]}
   and "@@done [nbad, nskip]" at the end of the log.                                        *)
EXTENDS EncoderHist, Json

CONSTANT TraceFile

VARIABLES i, ms, nbad, nskip

tvars == <<i, ms, nbad, nskip, st, hist, obl, flat>>

TLog == ndJsonDeserialize(TraceFile)

GetterMode(jm, cm) == IF jm THEN "json" ELSE IF cm THEN "color" ELSE "logfmt"

RECURSIVE HNodeFeats(_)
HNodeFeats(s) ==
    UNION { {"value:" \o s[j].kind}
            \cup (IF s[j].kind \in TextKinds /\ s[j].vc # "plain" THEN {"text:" \o s[j].vc} ELSE {})
            \cup (IF s[j].kind = "group" THEN HNodeFeats(s[j].sub) ELSE {}) : j \in DOMAIN s }
HFeats(rec) ==
    HNodeFeats(rec.attrs)
    \cup {"msg:" \o rec.msg[j] : j \in {x \in DOMAIN rec.msg : rec.msg[x] # "plain"}}
    \cup {"attrs:" \o f : f \in TreeFeatures(rec.attrs)}
    \cup (IF rec.lc.set THEN {"colours:" \o rec.lc.fg \o "+" \o rec.lc.bg} ELSE {})
    \cup (IF rec.caller /\ rec.cfile # "plain" THEN {"caller:" \o rec.cfile} ELSE {})
    \cup {"member-key:" \o x[1] \o ":" \o x[2] : x \in MemberReserved(rec.attrs, 0)}

Blank == [testing |-> FALSE, dbg |-> FALSE, trc |-> FALSE, width |-> 3, minw |-> 36,
          reg |-> [c \in Customs |-> "none"], col |-> [v \in ColSevs |-> NoLC], mode |-> InitMode, named |-> InitNamed]

StateAtReset(e) ==
    [testing |-> e.testing, dbg |-> e.dbg, trc |-> e.trc, width |-> e.width, minw |-> e.minw,
     reg |-> [c \in Customs |-> "none"], col |-> [v \in ColSevs |-> NoLC],
     mode |-> [l \in Loggers |-> GetterMode(e.modes[l][1], e.modes[l][2])],
     named |-> [l \in Loggers |-> e.named[l]]]

\* the model state after a non-Emit line
After(s, e) ==
    CASE e.op = "Reset"     -> StateAtReset(e)
      [] e.op = "Configure" -> [s EXCEPT !.mode[e.l] = GetterMode(e.jm, e.cm), !.named[e.l] = e.named]
      [] e.op = "Register"  -> IF e.ok THEN RegStep(s, e.c, e.g) ELSE s
      [] e.op \in {"Switch", "SwitchOff"} -> [s EXCEPT !.dbg = e.dbg, !.trc = e.trc]
      [] e.op = "SetWidth"  -> IF e.w \in 1..5 THEN [s EXCEPT !.width = e.w] ELSE s
      [] e.op = "SetMinW"   -> IF e.m >= 16 THEN [s EXCEPT !.minw = e.m] ELSE s
      [] e.op = "SetColors" -> IF e.c \in ColSevs THEN ColStep(s, e.c, e.fg, e.bg) ELSE s
      [] OTHER              -> s                      \* GC

TInit == /\ i = 1 /\ ms = Blank /\ nbad = 0 /\ nskip = 0
         /\ st = Blank /\ hist = <<>> /\ obl = NoObl /\ flat = <<>>

TNext ==
    /\ i <= Len(TLog)
    /\ i' = i + 1
    /\ UNCHANGED <<st, hist, obl, flat>>
    /\ LET e == TLog[i] IN
       IF e.op # "Emit"
       THEN /\ ms' = After(ms, e)
            /\ UNCHANGED <<nbad, nskip>>
            /\ IF e.op = "Configure" /\ CfgStep(ms, e.l, CfgForms[e.f]).mode[e.l] # GetterMode(e.jm, e.cm)
               THEN PrintT("@@note " \o ToJson([line |-> i, planned |-> CfgStep(ms, e.l, CfgForms[e.f]).mode[e.l],
                                                reported |-> GetterMode(e.jm, e.cm), jm |-> e.jm, cm |-> e.cm]))
               ELSE TRUE
       ELSE LET rec == ExpRecOf(ms, e.l, e.sev, e.msg, Own[e.l] \o e.args, e.caller, e.cfile) IN
            /\ ms' = ms                               \* formatting a record changes nothing
            /\ IF ~InDomain(rec) THEN nskip' = nskip + 1 /\ nbad' = nbad
               ELSE LET d == HDiag(rec, ExpTagSrc(ms, e.sev), ExpNameSrc(ms, e.sev), e.obs) IN
                    /\ nskip' = nskip
                    /\ IF d = {} THEN nbad' = nbad
                       ELSE /\ nbad' = nbad + 1
                            /\ PrintT("@@bad " \o ToJson([line |-> i, diag |-> d, fmt |-> rec.fmt, l |-> e.l,
                                                          feats |-> HFeats(rec)]))

TSpec == TInit /\ [][TNext]_tvars

Done == i <= Len(TLog) \/ PrintT("@@done " \o ToJson(<<nbad, nskip>>))
=============================================================================
