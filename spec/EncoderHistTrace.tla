-------------------------- MODULE EncoderHistTrace --------------------------
(* Trace validation for EncoderHist: a log of histories the harness executed on the real
   library (worker command "enchist"), one JSON object per line:

     {"op":"Reset", testing, dbg, trc, width, minw, modes:[[jm,cm],..], named:[..]}
                       a new behaviour starts: fresh loggers, fresh custom severities, the
                       process-wide settings put back; the line carries what the getters report
     {"op":"Configure", l, f, jm, cm, named}       getters of the (new) logger of slot l afterwards
     {"op":"Emit", l, sev, msg, args, caller, cfile, obs}  obs = projection of the bytes written (the
                       independent decoders of fam_encoder_dec.go / fam_encoder_color.go) plus
                       tagsrc / lvlsrc: which sources the printed level tag / name is equal to
     {"op":"GC", n}   {"op":"Register", c, g, ok}   {"op":"Switch", k, v, dbg, trc}
     {"op":"SwitchOff", dbg, trc}   {"op":"SetWidth", w}   {"op":"SetMinW", m}
     {"op":"SetColors", c, fg, bg}   slog.SetLevelColors(concrete severity of c, colour of class fg, of class bg)
     {"op":"Wire", l, w}             the destinations of the logger of slot l are now DestForms[w]
   An Emit line describes the delivery [l, r, d = 0, k = 1] of EncoderHist!Deliveries - the record
   as the FIRST destination of logger l found it in its argument when it read it; every other
   delivery of the same Emit (records the destinations logged from inside Write, the same record
   at a second destination) is an element of the line's "sub": {l, r, sev, msg, args, caller,
   cfile, obs, d, k}, in the order of Deliveries.  The monitor checks that the list IS
   Deliveries(ms, l, r) (otherwise "@@shape": harness and model disagree - no verdict) and judges
   every delivery like a record of its own.

   The monitor consumes one line per step and maintains the model state ms of EncoderHist
   (same step operators).  Where a public getter exists the monitor ADOPTS its answer (logger
   mode, name, debug / trace switch) - which mode a call sequence must produce is C11's
   business, here only the consequence counts: a logger that says JSONMode() must write JSON.
   A difference between the planned (CfgStep) and the reported mode is printed as "@@note".
   Every Emit is judged by HDiag against ExpRecOf(ms, ...): a function of ms and the record,
   never of the lines consumed before.  Rejected lines:
        @@bad {"line": i, "sub": j, "diag": [...], "fmt": f, "l": l, "feats": [...]}     (j = 0: the line's own
                                                   delivery, j > 0: element j of its sub)
   and "@@done [nbad, nskip]" at the end of the log.                                        *)
EXTENDS EncoderHist, Json

CONSTANT TraceFile

VARIABLES i, ms, nbad, nskip

tvars == <<i, ms, nbad, nskip, st, hist, obl, flat>>

TLog == ndJsonDeserialize(TraceFile)

GetterMode(jm, cm) == IF jm THEN "json" ELSE IF cm THEN "color" ELSE "logfmt"

RECURSIVE HNodeFeats(_)
HNodeFeats(s) ==
    UNION { {"value:" \o s[j].kind}
            \cup (IF s[j].kind \in TextKinds /\ s[j].vc # "plain" THEN {"text:" \o s[j].vc} ELSE {})
            \cup (IF s[j].kind = "group" THEN HNodeFeats(s[j].sub) ELSE {}) : j \in DOMAIN s }
HFeats(rec) ==
    HNodeFeats(rec.attrs)
    \cup {"msg:" \o rec.msg[j] : j \in {x \in DOMAIN rec.msg : rec.msg[x] # "plain"}}
    \cup {"attrs:" \o f : f \in TreeFeatures(rec.attrs)}
    \cup (IF rec.lc.set THEN {"colours:" \o rec.lc.fg \o "+" \o rec.lc.bg} ELSE {})
    \cup (IF rec.caller /\ rec.cfile # "plain" THEN {"caller:" \o rec.cfile} ELSE {})
    \cup {"member-key:" \o x[1] \o ":" \o x[2] : x \in MemberReserved(rec.attrs, 0)}
\* where a delivery sits in the nesting of its Emit
NestFeats(s, x) ==
    (IF x.d > 0 THEN {"nest:nested"} ELSE {})
    \cup (IF DestLogs(s, x) THEN {"nest:destination-logs"} ELSE {})
    \cup (IF EarlierLogs(s, x) THEN {"nest:earlier-destination-logs"} ELSE {})
    \cup (IF x.k > 1 THEN {"nest:second-destination"} ELSE {})

Blank == [testing |-> FALSE, dbg |-> FALSE, trc |-> FALSE, width |-> 3, minw |-> 36,
          reg |-> [c \in Customs |-> "none"], col |-> [v \in ColSevs |-> NoLC], mode |-> InitMode, named |-> InitNamed,
          dest |-> InitDest]

StateAtReset(e) ==
    [testing |-> e.testing, dbg |-> e.dbg, trc |-> e.trc, width |-> e.width, minw |-> e.minw,
     reg |-> [c \in Customs |-> "none"], col |-> [v \in ColSevs |-> NoLC],
     mode |-> [l \in Loggers |-> GetterMode(e.modes[l][1], e.modes[l][2])],
     named |-> [l \in Loggers |-> e.named[l]], dest |-> InitDest]

\* the model state after a non-Emit line
After(s, e) ==
    CASE e.op = "Reset"     -> StateAtReset(e)
      [] e.op = "Configure" -> [s EXCEPT !.mode[e.l] = GetterMode(e.jm, e.cm), !.named[e.l] = e.named]
      [] e.op = "Register"  -> IF e.ok THEN RegStep(s, e.c, e.g) ELSE s
      [] e.op \in {"Switch", "SwitchOff"} -> [s EXCEPT !.dbg = e.dbg, !.trc = e.trc]
      [] e.op = "SetWidth"  -> IF e.w \in 1..5 THEN [s EXCEPT !.width = e.w] ELSE s
      [] e.op = "SetMinW"   -> IF e.m >= 16 THEN [s EXCEPT !.minw = e.m] ELSE s
      [] e.op = "SetColors" -> IF e.c \in ColSevs THEN ColStep(s, e.c, e.fg, e.bg) ELSE s
      [] e.op = "Wire"      -> IF e.l \in Loggers /\ e.w \in DOMAIN DestForms THEN WireStep(s, e.l, e.w) ELSE s
      [] OTHER              -> s                      \* GC

TInit == /\ i = 1 /\ ms = Blank /\ nbad = 0 /\ nskip = 0
         /\ st = Blank /\ hist = <<>> /\ obl = NoObl /\ flat = <<>>

TNext ==
    /\ i <= Len(TLog)
    /\ i' = i + 1
    /\ UNCHANGED <<st, hist, obl, flat>>
    /\ LET e == TLog[i] IN
       IF e.op # "Emit"
       THEN /\ ms' = After(ms, e)
            /\ UNCHANGED <<nbad, nskip>>
            /\ IF e.op = "Configure" /\ CfgStep(ms, e.l, CfgForms[e.f]).mode[e.l] # GetterMode(e.jm, e.cm)
               THEN PrintT("@@note " \o ToJson([line |-> i, planned |-> CfgStep(ms, e.l, CfgForms[e.f]).mode[e.l],
                                                reported |-> GetterMode(e.jm, e.cm), jm |-> e.jm, cm |-> e.cm]))
               ELSE TRUE
       ELSE LET subs == IF "sub" \in DOMAIN e THEN e.sub ELSE <<>>
                \* all deliveries of this Emit: the line's own one first
                all == <<[l |-> e.l, r |-> e.r, sev |-> e.sev, msg |-> e.msg, args |-> e.args, caller |-> e.caller,
                          cfile |-> e.cfile, obs |-> e.obs, d |-> 0, k |-> 1]>> \o subs
                want == Deliveries(ms, e.l, e.r)
                Key(x) == [l |-> x.l, r |-> x.r, d |-> x.d, k |-> x.k]
                first == [l |-> e.l, r |-> e.r, d |-> 0, k |-> 1]
                shapeok == /\ e.r \in RcIds
                           /\ Len(want) = Len(all)
                           /\ \E p \in DOMAIN want :
                                 /\ want[p] = first
                                 /\ \A j \in DOMAIN subs : Key(subs[j]) = want[IF j < p THEN j ELSE j + 1]
                RecOf(x) == ExpRecOf(ms, x.l, x.sev, x.msg, Own[x.l] \o x.args, x.caller, x.cfile)
                DiagOf(x) == IF ~InDomain(RecOf(x)) THEN {}
                             ELSE HDiag(RecOf(x), ExpTagSrc(ms, x.sev), ExpNameSrc(ms, x.sev), x.obs)
                badset == {j \in DOMAIN all : DiagOf(all[j]) # {}}
            IN
            /\ ms' = ms                               \* formatting a record changes nothing
            /\ IF shapeok THEN TRUE
               ELSE PrintT("@@shape " \o ToJson([line |-> i, want |-> want, got |-> [j \in DOMAIN all |-> Key(all[j])]]))
            /\ nskip' = nskip + Cardinality({j \in DOMAIN all : ~InDomain(RecOf(all[j]))})
            /\ nbad' = nbad + Cardinality(badset)
            /\ \A j \in badset :
                  PrintT("@@bad " \o ToJson([line |-> i, sub |-> j - 1, diag |-> DiagOf(all[j]), fmt |-> RecOf(all[j]).fmt,
                                              l |-> all[j].l, feats |-> HFeats(RecOf(all[j])) \cup NestFeats(ms, all[j])]))

TSpec == TInit /\ [][TNext]_tvars

Done == i <= Len(TLog) \/ PrintT("@@done " \o ToJson(<<nbad, nskip>>))
=============================================================================
