---------------------------- MODULE CallerTrace ----------------------------
(* Trace validation for C14.  The Go worker issued every cell of Caller!CellsOver(EPKinds) on the real
   library, decoded the `caller` member of the record that came out and located that
   (file, line, function) in the real call stack captured while the record was being written:
   got = [k |-> "user", i |-> j] when it is user frame j (0 = the issuing statement, j = the
   j-th wrapper; for a cell with site # "go" the frames sit behind //line directives and the
   decoded file must be EXACTLY the hardened file name the runtime reports for the frame), k = "lib" for a frame of the library / log / log/slog / runtime, "none" when
   it is no frame of the stack, "missing" when the record has no caller member, "attr" when what
   the last-wins decoder finds under the name is the attribute of the PROGRAM (cells with ua # "none":
   the record, the logger or the log/slog handler carries an attribute keyed `caller`).

   One line is consumed per step (a monitor).  A line is accepted when its cell is a cell of the
   specification and got = SeenD(cell, {}), what a reader of the documented library's record sees - which
   Caller.tla's invariants show to be the frame the property demands.  A line that instead
   equals SeenD(cell, {d}) for a named deviation d is collected in `dev`; anything else in
   `bad` together with the expected frame (at most MaxReport reproducers per entry point /
   deviation, all are counted).  The verdict is printed when the log is consumed.              *)
EXTENDS Caller

CONSTANT TraceFile, MaxReport

VARIABLES i, nok, bad, nbad, badn, dev, devn

TLog == ndJsonDeserialize(TraceFile)

CellOf(e) == [ep |-> e.ep, fam |-> e.fam, fmt |-> e.fmt, kind |-> e.kind, inl |-> e.inl, via |-> e.via,
              skip |-> e.skip, other |-> e.other, depth |-> e.depth, site |-> e.site, ua |-> e.ua, route |-> e.route]
GotOf(e) == [k |-> e.got.k, i |-> e.got.i]

WellFormed(e) ==
    /\ {"id", "ep", "fam", "fmt", "kind", "inl", "via", "skip", "other", "depth", "site", "ua", "route", "got"} \subseteq DOMAIN e
    /\ e.fam \in Families
    /\ IsCell(CellOf(e))

DevsMatching(c, g) == {d \in AllDevs : SeenD(c, {d}) # SeenD(c, {}) /\ g = SeenD(c, {d})}
(* where several deviations predict the same frame (a function of package log that goes through Logger.Output,
   skip 1: counting a fixed depth and ignoring the skip count both name user frame 0) the one that also shows
   at skip 0 names the line *)
PickDev(M) == IF "BridgeFixedDepth" \in M THEN "BridgeFixedDepth"
              ELSE IF "AdapterFixedDepth" \in M THEN "AdapterFixedDepth" ELSE CHOOSE d \in M : TRUE

TInit == /\ cell \in {CHOOSE c \in CellsOver({CHOOSE ek \in EPKinds : TRUE}) : TRUE} /\ phase = "cell"
         /\ i = 1 /\ nok = 0 /\ bad = <<>> /\ nbad = 0 /\ badn = [n \in {e.name : e \in EPs} |-> 0] /\ dev = <<>> /\ devn = [d \in AllDevs |-> 0]

TNext ==
    /\ i <= Len(TLog)
    /\ i' = i + 1 /\ UNCHANGED phase
    /\ LET e == TLog[i] IN
       IF ~WellFormed(e)
       THEN /\ UNCHANGED <<cell, nok, badn, dev, devn>>
            /\ nbad' = nbad + 1
            /\ bad' = IF nbad < 3 THEN Append(bad, [line |-> i, id |-> -1, why |-> "not a cell of the specification",
                                                           want |-> NoFrame]) ELSE bad
       ELSE LET c == CellOf(e)  g == GotOf(e) IN
            /\ cell' = c
            /\ IF g = SeenD(c, {}) /\ g = Want(c)
               THEN nok' = nok + 1 /\ UNCHANGED <<bad, nbad, badn, dev, devn>>
               ELSE IF DevsMatching(c, g) # {}
               THEN /\ dev' = IF devn[PickDev(DevsMatching(c, g))] < MaxReport
                              THEN Append(dev, [line |-> i, id |-> e.id, dev |-> PickDev(DevsMatching(c, g)),
                                                want |-> Want(c)])
                              ELSE dev
                    /\ devn' = [devn EXCEPT ![PickDev(DevsMatching(c, g))] = @ + 1]
                    /\ UNCHANGED <<nok, bad, nbad, badn>>
               ELSE /\ nbad' = nbad + 1
                    /\ badn' = [badn EXCEPT ![c.ep] = @ + 1]
                    /\ bad' = IF badn[c.ep] < MaxReport      \* at most MaxReport reproducers per entry point
                              THEN Append(bad, [line |-> i, id |-> e.id, why |-> "attribution", want |-> Want(c)])
                              ELSE bad
                    /\ UNCHANGED <<nok, dev, devn>>

TSpec == TInit /\ [][TNext]_<<cell, phase, i, nok, bad, nbad, badn, dev, devn>>

\* evaluated in every state; prints the verdict once the whole log is consumed
Done == i <= Len(TLog) \/ PrintT("@@verdict " \o ToJson([n |-> Len(TLog), ok |-> nok, nbad |-> nbad, bad |-> bad, badn |-> badn, dev |-> dev, devn |-> devn])) \/ TRUE

\* every state the implementation visits is a cell of the specification
TTypeOK == IsCell(cell)
=============================================================================
