#!/bin/sh
# Offline setup: verify the tools are present and warm the Go build cache for the worker.
set -e
cd "$(dirname "$0")"
export GOFLAGS=-mod=mod GOPROXY=off GOSUMDB=off GOTOOLCHAIN=local GOWORK=off
command -v tlc >/dev/null
command -v go >/dev/null
command -v python3 >/dev/null
cp /repo/go.sum harness/go.sum
d=$(mktemp -d)
(cd harness && go build -tags verif -o "$d/worker" . )
rm -rf "$d"
mkdir -p evidence out
echo setup ok
