"""C10: logger hierarchy - lookup by name, inheritance at creation, isolation afterwards."""
import corelib

BOOL_LISTS = [[], [True], [False]]
OBS = ["cfg", "tree", "shape", "dest", "attrs", "ts"]


def config(quick):
    """(A) tree, level, format, skip, writers over 2 loggers: the complete state graph is replayed
    (2 loggers so that the product of per-logger configurations stays replayable)."""
    opt = lambda k, a, b=0: dict(k=k, a=a, b=b)
    sa = {"Level": [(2, 0)], "Skip": [(1, 0), (2, 0)], "Writer": [(1, 0)]}
    if not quick:
        sa.update({"Level": [(2, 0), (7, 0)], "JSONMode": [(1, 0)]})
    return dict(
        max_loggers=2, init_level=5, names=["a"], bool_lists=BOOL_LISTS, layouts=[""],
        # (the level option with value 0 = Panic: the zero value is a level like any other)
        opt_lists=[[], [opt("Level", 2)], [opt("JSONMode", 1), opt("Attrs", 2, 7)], [opt("Writer", 1)], [opt("Level", 0)]],
        setter_args=sa, acts=["Set", "With", "New", "NewDetached", "Lookup"], probe_sevs=[4, 2], max_list=1,
    )


def config_attrs(quick):
    """(B) attribute lists over 2 loggers, every way of giving a logger an attribute."""
    opt = lambda k, a, b=0: dict(k=k, a=a, b=b)
    sa = {"Attrs": [(1, 1), (3, 2)], "Attrs1": [(2, 1), (1, 2)], "SetKV": [(1, 3)], "Attrs0": [(0, 0), (1, 0), (2, 0), (3, 0)]}
    if not quick:
        sa = {"Attrs": [(1, 1), (3, 2)], "Attrs1": [(2, 1), (1, 2)], "SetKV": [(1, 3), (2, 4)], "Attrs0": [(0, 0), (1, 0), (2, 0), (3, 0)]}
    return dict(
        max_loggers=2, init_level=5, names=["a"], bool_lists=BOOL_LISTS, layouts=[""],
        opt_lists=[[], [opt("Attrs1", 2, 1)], [opt("SetKV", 1, 3), opt("Attrs", 1, 1)], [opt("Attrs1", 2, 1), opt("Attrs1", 2, 1)]],
        setter_args=sa, acts=["Set", "With", "New"], probe_sevs=[4], max_list=2,
    )


def config_skip(quick):
    """(C) WithSkip keeps one child per n: 3-4 loggers, skip counts set and re-set."""
    return dict(
        max_loggers=3 if quick else 4, init_level=5, names=["a"], bool_lists=BOOL_LISTS, layouts=[""], opt_lists=[[]],
        setter_args={"Skip": [(1, 0), (2, 0)]}, acts=["Set", "With", "New", "PkgSkip", "Lookup"], probe_sevs=[4], max_list=1,
    )


FLAG_SETS = [["date"], ["attrsR", "micro"], ["caller", "lineno"], ["time", "micro", "localTime", "lineno", "caller", "attrs", "privacypath", "privacyrx"],
             [], ["noInterrupt", "date"]]


def config_flags(quick):
    """Beyond the listed properties: the package-level flag and level utilities (SetFlags/AddFlags/RemoveFlags/ResetFlags,
    SaveFlagsAndMod + its restore functions, ResetLevel/Reset/SaveLevelAndSet + restore)."""
    return dict(
        max_loggers=1, init_level=5, names=[], bool_lists=BOOL_LISTS, layouts=[""], opt_lists=[[]],
        setter_args={"Level": [(2, 0)] if quick else [(2, 0), (5, 0)]}, acts=["Flags", "PkgLevel"], probe_sevs=[4], max_list=1,
        flag_sets=FLAG_SETS[:2] if quick else FLAG_SETS[:3], max_saved=1,
    )


def config_time(quick):
    """(D) zone mode and time layout are per-logger settings like the others (a child made by With...() or
    New(options) leaves its parent alone), the date/time/microseconds/local-time flags are process-wide:
    the timestamp of every logger's probe record is observed after every call."""
    opt = lambda k, a, b=0: dict(k=k, a=a, b=b)
    return dict(
        max_loggers=2, init_level=5, names=["a"], bool_lists=BOOL_LISTS, layouts=["", "15:04:05"],
        opt_lists=[[], [opt("UTCMode", 3), opt("TimeFormat", 2)]] + ([] if quick else [[opt("TimeFormat", 1)], [opt("UTCMode", 1)]]),
        setter_args={"UTCMode": [(1, 0), (3, 0)], "TimeFormat": [(1, 0), (2, 0)]}, acts=["Set", "With", "New", "Flags"],
        probe_sevs=[4], max_list=1, flag_sets=[["localTime"]] if quick else [["date"], ["localTime"]],
        max_saved=0,
    )


def config_reentry(quick):
    """(E) re-entrancy: a value that logs through another (or the same) logger from inside its String method while
    the outer record is being formatted; a child created from inside an Each walk.  Long-running processes: a logger
    given 1100 anonymous children in one go (all of them visited by Each), 70 000 loggers derived elsewhere."""
    opt = lambda k, a, b=0: dict(k=k, a=a, b=b)
    return dict(
        max_loggers=2, init_level=5, names=["a"], bool_lists=BOOL_LISTS, layouts=["", "15:04:05"], opt_lists=[[], [opt("JSONMode", 1)]],
        setter_args={"JSONMode": [(1, 0)], "ColorMode": [(3, 0)], "TimeFormat": [(2, 0)]} if quick else
        {"JSONMode": [(1, 0)], "ColorMode": [(3, 0)], "TimeFormat": [(2, 0)], "UTCMode": [(1, 0)]},
        acts=["Set", "New", "LogNest", "EachNew", "BulkKids"], probe_sevs=[4], max_list=1, max_bulk=1,
    )


def config_longrun(quick):
    """(F) a long-running process that derives one logger per request from one parent: 200 000 (thorough: 400 000)
    anonymous children of one logger in one go, made by New(), WithAttrs and With.  Every one of them must be a
    new logger (Each visits exactly that many leaves) and the loggers handed out before keep their settings."""
    return dict(
        max_loggers=2, init_level=5, names=["a"], bool_lists=BOOL_LISTS, layouts=[""], opt_lists=[[]],
        setter_args={"JSONMode": [(1, 0)]}, acts=["Set", "New", "BulkKids"], probe_sevs=[4], max_list=1, max_bulk=1,
        bulk_n=200000 if quick else 400000,
    )


def big_config(quick):
    """Checked exhaustively by TLC only (too large to replay transition by transition)."""
    c = config(True)
    c["max_loggers"] = 3
    c["setter_args"] = {"Level": [(2, 0)], "Skip": [(1, 0)], "Writer": [(1, 0)], "JSONMode": [(1, 0)], "Attrs": [(1, 1)]}
    return c


def rand_config():
    """Wider vocabulary for the random histories (not explored exhaustively)."""
    opt = lambda k, a, b=0: dict(k=k, a=a, b=b)
    sa = {
        "Level": [(v, 0) for v in (0, 2, 3, 4, 5, 6, 7, 8, 9, 11)],
        "JSONMode": [(1, 0), (2, 0), (3, 0)], "ColorMode": [(1, 0), (2, 0), (3, 0)],
        "Attrs": [(k, v) for k in (1, 2, 3, 4) for v in (1, 2, 3)],
        "Attrs1": [(k, v) for k in (1, 2, 5) for v in (1, 2)], "SetKV": [(k, v) for k in (2, 3, 6) for v in (4, 5)],
        "Attrs0": [(0, 0), (1, 0), (2, 0), (3, 0)],
        "Skip": [(0, 0), (1, 0), (2, 0), (3, 0)],
        "Writer": [(1, 0), (2, 0), (3, 0)], "ErrorWriter": [(1, 0), (2, 0), (4, 0)],
        "AddWriter": [(1, 0), (2, 0), (3, 0)], "AddErrorWriter": [(2, 0), (4, 0)],
        "ResetWriters": [(0, 0)], "UTCMode": [(1, 0), (3, 0)], "TimeFormat": [(1, 0), (2, 0)],
        "CtxKeys": [(1, 0), (2, 0)], "CtxReset": [(0, 0)],
    }
    return dict(
        max_loggers=3, init_level=5, names=["a", "b", "c"], bool_lists=BOOL_LISTS, layouts=["", "15:04:05"],
        opt_lists=[[], [opt("Level", 2)], [opt("JSONMode", 1), opt("Attrs", 2, 7)], [opt("Writer", 1)], [opt("Level", 0)],
                   [opt("ColorMode", 3), opt("Level", 5), opt("AddWriter", 2)], [opt("ErrorWriter", 3), opt("UTCMode", 1)]],
        setter_args=sa, acts=["Set", "With", "New", "NewDetached", "PkgSetLevel", "SetDefault", "Flags", "PkgLevel", "PkgSkip", "LogNest", "EachNew", "BulkKids", "Burn", "Lookup"], probe_sevs=[4, 2],
        flag_sets=FLAG_SETS,
    )


def run(ctx, replay):
    c = config(ctx.quick())
    if replay:
        return corelib.replay_core(ctx, replay, rand_config(), OBS)
    if not ctx.quick():
        # 3 loggers: ~1.4 M states, checked by TLC only (not replayed)
        corelib.mc_only(ctx, big_config(True), invariants=["OneFormat", "TreeOK", "RouteOK"],
                        properties=["Isolation", "TreeMonotone", "DbgSticky"], name="core-mc-big", timeout=3000)
    # the six graphs are independent: run them side by side
    import concurrent.futures
    jobs = []
    jobs.append(lambda: corelib.run_core(ctx, c, invariants=["OneFormat", "TreeOK", "RouteOK"],
                     properties=["Isolation", "TreeMonotone", "DbgSticky"], obs=OBS,
                     rand_count=25 if ctx.quick() else 600, rand_depth=25 if ctx.quick() else 50,
                     rand_loggers=10 if ctx.quick() else 20, rand_cfg=rand_config(), tag="tree"))
    jobs.append(lambda: corelib.run_core(ctx, config_attrs(ctx.quick()), invariants=["TreeOK"], properties=["Isolation"], obs=["cfg", "attrs"],
                     rand_count=0, rand_depth=0, rand_loggers=3, tag="attrs", alt_env=False))
    jobs.append(lambda: corelib.run_core(ctx, config_flags(ctx.quick()), invariants=["FlagsOK", "TreeOK"], properties=["RestoreExact", "DbgSticky"],
                     obs=["cfg"], rand_count=0, rand_depth=0, rand_loggers=2, tag="flags", alt_env=False))
    jobs.append(lambda: corelib.run_core(ctx, config_skip(ctx.quick()), invariants=["TreeOK"], properties=["Isolation", "TreeMonotone"],
                     obs=["cfg", "tree"], rand_count=0, rand_depth=0, rand_loggers=4, tag="skip", alt_env=False))
    jobs.append(lambda: corelib.run_core(ctx, config_time(ctx.quick()), invariants=["TreeOK", "FlagsOK"], properties=["Isolation", "RestoreExact"],
                     obs=["cfg", "ts"], rand_count=0, rand_depth=0, rand_loggers=3, tag="time"))
    jobs.append(lambda: corelib.run_core(ctx, config_reentry(ctx.quick()), invariants=["TreeOK", "OneFormat"], properties=["Isolation", "TreeMonotone"],
                     obs=["cfg", "tree", "shape"], rand_count=0, rand_depth=0, rand_loggers=3, tag="reentry", alt_env=False))
    jobs.append(lambda: corelib.run_core(ctx, config_longrun(ctx.quick()), invariants=["TreeOK"], properties=["Isolation", "TreeMonotone"],
                     obs=["cfg", "tree"], rand_count=0, rand_depth=0, rand_loggers=2, tag="longrun", alt_env=False))
    with concurrent.futures.ThreadPoolExecutor(max_workers=3) as pool:
        for f in [pool.submit(j) for j in jobs]:
            f.result()
    ctx.assumptions += ["attribute probe uses LogAttrs at Always severity; loggers at level Off or with an empty writer list show no attributes"]
    return ctx.finish(rule="every transition of the exhaustive MC graph (3 loggers; New/NewDetached/With*/Set* on level, format, "
                           "attrs, skip, writers) executed on the library with ALL live loggers observed after each call "
                           "(getters, Parent/Root/Each/Sublogger, probe shape, probe destinations, printed attributes) + "
                           "seeded random deep histories over a wider vocabulary; non-trivial = distinct (op, kind, args, receiver)",
                      exhaustive=True)
