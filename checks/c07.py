"""C07: attribute assembly - sources, precedence, uniqueness and order."""
import random

import corelib

OBS = ["cfg"]
GROUPS = [[(2, 1), (1, 2), (2, 3)], [(1, 1), (4, -1), (1, 5)], [(7, 1)], [],
          # a group holding a bigger inner group FOLLOWED by later-sorting siblings, and one three levels deep
          [(1, 1), (2, -6), (3, 7), (4, 8)], [(5, 1), (1, 2), (3, 3), (2, 4), (4, 5), (6, 6)], [(2, -5), (1, 1), (9, 9)],
          # the same sub-group (key 4, group 1) held by two different parents
          [(4, -1)], [(4, -1), (1, 1)]]
CTX_VALS = [[], [(1, 5)], [(1, 5), (2, 6)], [(0, 0)]]                 # [(0,0)] = a nil context
CTX_ZERO = [[(1, 0)], [(1, 0), (2, 6)]]                                # a value that is the zero value of its type
# (keys 991..993 are distinct keys cut from one string: same address, different lengths)
CALL_ARGS = [[], [(1, 9)], [(2, 8), (1, 9), (2, 7)], [(3, -1)], [(5, 1), (3, -2), (51, 4)], [(3, 6), (3, -1), (1, 1)],
             [(3, -5), (9, 1)], [(1, -7), (2, 2)], [(4, -5), (2, -5), (1, 1)], [(1, -8), (2, -9)], [(2, -8), (1, -9), (4, -1)],
             [(993, 3), (991, 1), (992, 2), (1, 9)]]


def config(quick):
    opt = lambda k, a, b=0: dict(k=k, a=a, b=b)
    # (the thorough tier widens the contexts and call-site lists, not the logger configurations: the
    # replayed graph has to stay below a few hundred thousand transitions)
    sa = {"Attrs": [(1, 1), (3, -1)], "CtxKeys": [(1, 0)]}
    return dict(max_loggers=2, init_level=5, names=["a"], bool_lists=[[], [False]], layouts=[""],
                # (the last list: bare key, value pairs among New's arguments, in unsorted order)
                opt_lists=[[], [opt("Attrs", 2, 2)], [opt("Attrs", 1, 7), opt("Attrs", 3, -2)], [opt("KV", 5, 4), opt("KV", 1, 7)],
                           # attributes given by an option AND as bare pairs in one New call (one key in both)
                           [opt("Attrs", 2, 2), opt("Attrs", 4, 1), opt("KV", 5, 4), opt("KV", 2, 9)],
                           # lists built by NewAttrs (they carry empty slots), appended in unsorted key order
                           [opt("Attrs1", 5, 4), opt("Attrs1", 2, 7), opt("Attrs1", 3, 2)]],
                setter_args=sa, acts=["Set", "With", "New", "LogM", "SetAttrsR"], probe_sevs=[4], max_list=2,
                flag_sets=[["attrsR"], ["date", "attrsR"]],
                groups=GROUPS, ctx_vals=CTX_VALS[:2] if quick else CTX_VALS,
                call_args=[CALL_ARGS[i] for i in (0, 2, 6, 9, 11)] if quick else CALL_ARGS)


def config_chain(quick):
    """Chains of three loggers: inheritance outermost first (only attribute appends and the flag)."""
    c = config(True)
    c.update(max_loggers=3, setter_args={"Attrs": [(1, 1), (2, 2)] if quick else [(1, 1), (2, 2), (3, -1)]},
             acts=["Set", "With", "LogM", "Flags"], max_list=1, max_saved=1, flag_sets=[["attrsR"]],
             ctx_vals=[CTX_VALS[0]], call_args=CALL_ARGS[:2] if quick else CALL_ARGS[:3])
    return c


def config_nilctx(quick):
    """A nil context (and contexts with / without the values) on loggers with registered context keys."""
    c = config(True)
    # (context key 11 is a distinct key that prints under the name of key 1)
    c.update(max_loggers=1, setter_args={"CtxKeys": [(1, 0), (2, 0), (11, 0)], "Attrs": [(51, 3)]}, acts=["Set", "LogM"], max_list=2,
             ctx_vals=[CTX_VALS[3], CTX_VALS[1], CTX_VALS[2], CTX_VALS[0], [(11, 6)], [(1, 5), (11, 6)]] + CTX_ZERO, call_args=[[], [(51, 4)], [(1, 9)]])
    return c


def config_big(quick):
    """Loggers owning more attributes than any pooled slice starts with (128), alone and in chains, with context values."""
    c = config(True)
    # (a list of 260 entries followed by a later entry that repeats one of its keys: the later one wins)
    opt = lambda k, a, b=0: dict(k=k, a=a, b=b)
    c.update(max_loggers=2 if quick else 3, setter_args={"AttrsN": [(60, 100), (130, 300)], "CtxKeys": [(1, 0)]},
             opt_lists=[[], [opt("AttrsN", 260, 500), opt("Attrs", 501, 7), opt("Attrs", 759, 3)]],
             acts=["Set", "With", "New", "LogM", "SetAttrsR"], max_list=1, ctx_vals=[CTX_VALS[1], CTX_VALS[0]], call_args=[[], [(1, 9)]])
    return c


def rand_config(c, seed):
    """Deep chains, big colliding call-site lists (up to 64), all three formats."""
    rng = random.Random(seed * 31 + 5)
    r = dict(c)
    big = []
    for n in (13, 14, 20, 33, 40, 64, 64, 17, 25, 48):
        lst = []
        for _ in range(n):
            k = rng.randint(1, 12)
            lst.append((k, -rng.randint(1, 3)) if rng.random() < 0.12 else (k, rng.randint(1, 99)))
        big.append(lst)
    r["call_args"] = c["call_args"] + [x for x in CALL_ARGS if x not in c["call_args"]] + big
    r["ctx_vals"] = c["ctx_vals"] + [x for x in CTX_VALS if x not in c["ctx_vals"]] + [[(2, 7)], [(1, 1), (2, 2), (3, 3)], [(11, 6)], [(1, 5), (11, 6), (2, 2)], [(12, 4), (2, 3)]]
    r["setter_args"] = {"Attrs": [(k, v) for k in (1, 2, 3, 4, 51, 52) for v in (1, 2)] + [(3, -1), (5, -2), (6, -4), (7, -5), (8, -7)],
                        "Attrs1": [(2, 3), (8, 1)], "SetKV": [(1, 4), (9, 2)], "CtxKeys": [(1, 0), (2, 0), (3, 0), (11, 0), (12, 0)],
                        "AttrsN": [(60, 100), (130, 200)],      # more than any pooled slice starts with
                        "JSONMode": [(1, 0)], "ColorMode": [(1, 0), (2, 0)]}
    r["acts"] = ["Set", "Set", "With", "With", "New", "LogM", "LogM", "LogM", "SetAttrsR", "Flags"]
    r["max_loggers"] = 2
    return r


def explain(ev, b):
    if ev["op"] != "LogM":
        return None
    n = len(ev.get("leaves") or [])
    return [("LogM:%s" % ev.get("shape", "?"), "logger %d, context #%d, call attributes #%d (inherit flag %s): printed leaves %s ; model expected %s" % (
        ev["l"], ev["a"], ev["b"], ev.get("attrsR"), str(ev.get("leaves"))[:500], b["expected"][:700]))]


def run(ctx, replay):
    c = config(ctx.quick())
    rc = rand_config(c, ctx.seed)
    if replay:
        return corelib.replay_core(ctx, replay, rc, OBS)
    jobs = []          # the graphs are independent: they run side by side
    jobs.append(lambda: corelib.run_core(ctx, c, invariants=["MergeOK", "TreeOK"], properties=["Isolation"], obs=OBS,
                     rand_count=30 if ctx.quick() else 1200, rand_depth=30 if ctx.quick() else 45,
                     rand_loggers=5, rand_cfg=rc, key_fn=explain, tag="merge"))
    jobs.append(lambda: corelib.run_core(ctx, config_chain(ctx.quick()), invariants=["MergeOK", "TreeOK", "FlagsOK"], properties=[], obs=OBS,
                     rand_count=0, rand_depth=0, rand_loggers=3, key_fn=explain, tag="chain"))
    jobs.append(lambda: corelib.run_core(ctx, config_big(ctx.quick()), invariants=["MergeOK"], properties=[], obs=OBS,
                     rand_count=0, rand_depth=0, rand_loggers=3, key_fn=explain, tag="big"))
    jobs.append(lambda: corelib.run_core(ctx, config_nilctx(ctx.quick()), invariants=["MergeOK"], properties=[], obs=OBS,
                     rand_count=0, rand_depth=0, rand_loggers=1, key_fn=explain, tag="nilctx"))
    corelib.run_jobs(jobs)
    ctx.assumptions += ["attribute keys are aNNN names whose byte order is the numeric order of the model's key ids; values are integers",
                        "the printed attributes are projected from the record by an order-preserving JSON token walk / a dotted-key scan "
                        "of the logfmt and colored text",
                        "the record is issued with LogAttrs at Always severity"]
    return ctx.finish(rule="every LogM transition of two exhaustive MC graphs executed (logger chains of depth 2-3 x own attribute lists "
                           "incl. groups x context keys x inherit flag on/off) x (context contents x call-site attribute lists incl. "
                           "nested groups and colliding keys); TLC compares the printed leaves with Leaves(Merge(Sources)); + seeded "
                           "random histories with call-site lists of 13..64 colliding attributes in all three formats",
                      exhaustive=True)
