"""C16: timestamps show the record's instant in the configured zone and layout.

Pipeline (spec/Timestamp.tla is the oracle throughout):
  1. TLC evaluates the properties of the whole decision table (ASSUME TableOK), explores the
     single-logger machine and exports the table (zone, allowed layouts per cell) + LayoutInfo;
  2. the Go worker replays every cell of the table with N sampled instants (tscells);
  3. TLC explores the configuration machine exhaustively (invariants + action properties; both
     child-start variants), witness runs show the invariants are not vacuous;
  4. the state graph of a smaller configuration is dumped; an edge cover of it plus seeded random
     deeper histories are executed on the library (tsrun) and the recording is validated by TLC
     against TimestampTrace.
"""
import concurrent.futures
import itertools
import json
import os
import random
import re

from vlib import Undecided, edge_cover, read_ndjson, parse_action
from tlagen import gen_mc

CUSTOMS = ["RFC3339NanoOrig", "RFC1123Z", "Kitchen", "StampMicro", "SpaceNano", "TimeNoNano", "RFC1123",
           "TabMicro", "QuoteHMS", "BackslashDate"]
BOOL_LISTS = [[], [True], [False], [True, False], [False, True], [False, True, False]]
LAY_LISTS = [[], [""], ["RFC1123Z"], ["Kitchen"], ["StampMicro"], ["SpaceNano"], ["TimeNoNano"],
             ["RFC3339NanoOrig"], ["Kitchen", "RFC1123Z"], ["RFC1123Z", ""], ["", "Kitchen"],
             ["", "", "RFC3339NanoOrig"], ["RFC1123"]]
U = lambda a: dict(k="UTC", a=a)
T = lambda a: dict(k="TF", a=a)
OPT_LISTS = [[], [U(1)], [U(3)], [T(1)], [T(4)], [U(2), T(3)], [T(4), U(3)], [U(3), U(2)], [T(3), T(4)],
             [U(6)], [T(10)], [T(5), U(5), T(6)]]
FLAGS = ["date", "time", "micro", "local"]
FLAG_SETS = [sorted(c) for r in range(5) for c in itertools.combinations(FLAGS, r)]   # all 16


def consts(max_loggers, xbool, xlay, xopt, xflagset, xflags, inherit, max_saved=1):
    plain = dict(MaxLoggers=max_loggers, MaxSaved=max_saved)
    c = dict(Customs=set(CUSTOMS), BoolLists=BOOL_LISTS, LayLists=LAY_LISTS, OptLists=OPT_LISTS,
             FlagSets=[set(f) for f in FLAG_SETS], XBool=set(xbool), XLay=set(xlay), XOpt=set(xopt),
             XFlagSet=set(xflagset), XFlags=set(xflags), Inherit=set(inherit))
    return c, plain


def mc_files(name, extends, c, plain, cfg_lines, assumes=()):
    mod, cfg = gen_mc(name, extends, c, cfg_lines, plain=plain)
    if assumes:
        mod = mod.replace("====\n", "\n".join(assumes) + "\n====\n")
    return {name + ".tla": mod, name + ".cfg": cfg}


INVS = "INVARIANTS TypeOK CellsOK StatementOK"
PROPS = "PROPERTIES Isolation LayoutSticky RestoreExact"


def cell_key(c):
    return (c["utc"], c["lay"], tuple(sorted(c["flags"])), c["fmt"])


def export_table(ctx):
    """TLC: table properties over all cells + exploration of the one-logger machine; returns
    (cells with expectation, layout infos)."""
    c, plain = consts(1, [1, 2, 3], [1, 2, 4, 9], [], [1, 16], FLAGS, [False, True])
    files = mc_files("MC16T", "Timestamp, Json", c, plain, ["INIT Init", "NEXT Next", INVS, PROPS],
                     assumes=["ASSUME TableOK",
                              'ASSUME PrintT("@@table " \\o ToJson([table |-> Table, infos |-> LayoutInfo]))'])
    r = ctx.model_check("MC16T", "MC16T.cfg", files=files, name="c16-table", timeout=600)
    got = r.prints("table")
    if len(got) != 1:
        raise Undecided("table export missing:\n" + r.out[-3000:])
    cells = []
    for i, row in enumerate(sorted(got[0]["table"], key=lambda x: cell_key(x["cell"]))):
        cl, ex = row["cell"], row["exp"]
        cells.append(dict(id=i, utc=cl["utc"], lay=cl["lay"], flags=sorted(cl["flags"]), fmt=cl["fmt"],
                          zone=ex["zone"], layouts=sorted(ex["layouts"])))
    if len(cells) != 3 * (1 + len(CUSTOMS)) * 16 * 3:
        raise Undecided("table has %d cells" % len(cells))
    return cells, got[0]["infos"]


def describe_cell(c):
    return "utc-mode=%d layout=%s flags={%s} format=%s" % (c["utc"], c["lay"] or "(none)", ",".join(c["flags"]), c["fmt"])


def cell_finding_key(c, kind):
    """Stable signature of a failing cell class: the zone rule that failed (zone mode x local flag), or
    the layout rule (logger layout, else the date/time/microseconds flag combination) per format."""
    df = "+".join(f for f in c["flags"] if f != "local") or "none"
    if kind == "zone":
        return "zone:utc%d:%s" % (c["utc"], "local" if "local" in c["flags"] else "nolocal")
    if kind == "extract":
        return "extract:%s" % c["fmt"]
    return "layout:%s:%s" % (c["lay"] or "flags=" + df, c["fmt"])


def run_cells(ctx, cells, infos, n, replay=False):
    inp = os.path.join(ctx.scratch, "cells-in.json")
    outp = os.path.join(ctx.scratch, "cells-out.json")
    with open(inp, "w") as fh:
        json.dump(dict(seed=ctx.seed, n=n, infos=infos, cells=cells), fh)
    ctx.run_worker(["tscells", inp, outp], testing=True, timeout=3000)
    with open(outp) as fh:
        res = json.load(fh)["cells"]
    if len(res) != len(cells):
        raise Undecided("worker answered %d of %d cells" % (len(res), len(cells)))
    sharp = 0
    blunt = []
    for c, o in zip(cells, res):
        ctx.evaluations += o["n"]
        ctx.traces += 1
        if o["fail"]:
            for f in o["failures"][:1]:
                what = "%s: %d of %d instants; e.g. instant %s printed as %r, specification allows %s (%s; configured by %s)" % (
                    describe_cell(c), o["fail"], o["n"], f["shown"], f["text"], f["want"], f["note"], f["how"])
                ctx.finding(cell_finding_key(c, f["kind"]), what,
                            dict(kind="cell", cell={k: c[k] for k in ("utc", "lay", "flags", "fmt")},
                                 instants=[x["instant"] for x in o["failures"]], observed=o["failures"],
                                 expected=dict(zone=c["zone"], layouts=c["layouts"])))
        elif o["discr"] > 0 and o["unique"] > 0:
            sharp += 1
            if o.get("sample"):
                s = o["sample"]
                if c["id"] % 211 == 7 or replay:
                    ctx.sample(dict(cell=describe_cell(c), expected=dict(zone=c["zone"], layouts=c["layouts"]),
                                    instant=s["shown"], text=s["text"], configured_by=s["how"]))
        else:
            blunt.append(describe_cell(c))
    if blunt and not replay:
        raise Undecided("no discriminating sample in %d cells, e.g. %s" % (len(blunt), blunt[:3]))
    ctx.nontrivial += sharp
    ctx.extra["table_cells"] = len(cells)
    ctx.extra["instants_per_cell"] = n
    ctx.extra["cells_with_zone_and_layout_discriminating_samples"] = sharp
    return res


# ---------------------------------------------------------------------------- machine


def parse_dot_edges(path):
    """TLC's `-dump dot,actionlabels` output -> (nodes, edges (src, label, dst), initial nodes)."""
    edge = re.compile(r'^(-?\d+) -> (-?\d+) \[label="(.*?)",color=')
    node = re.compile(r'^(-?\d+) \[label=".*?"(,style = filled)?')
    nodes, edges, inits, seen = {}, [], [], set()
    with open(path) as fh:
        for line in fh:
            m = edge.match(line)
            if m:
                e = (m.group(1), m.group(3).replace('\\"', '"'), m.group(2))
                if e not in seen:
                    seen.add(e)
                    edges.append(e)
                continue
            m = node.match(line)
            if m:
                nodes[m.group(1)] = True
                if m.group(2):
                    inits.append(m.group(1))
    if not inits:
        raise Undecided("no initial state in dump")
    return nodes, edges, inits


def label_to_event(label):
    name, a = parse_action(label)
    if name in ("SetUTC", "WithUTC", "SetTF", "WithTF", "New"):
        return dict(op=name, l=a[0], a=a[1], f="")
    if name in ("AddFlag", "RemoveFlag"):
        return dict(op=name, l=0, a=0, f=a[0])
    if name == "SetFlags":
        return dict(op=name, l=0, a=a[0], f="")
    if name == "ResetFlags":
        return dict(op=name, l=0, a=0, f="")
    if name == "SaveMod":
        return dict(op=name, l=0, a=a[0], f="", b=a[1])
    if name == "Restore":
        return dict(op=name, l=0, a=a[0], f="")
    raise Undecided("unknown action label %r" % label)


def random_behaviours(rng, count, depth, max_loggers):
    res = []
    for _ in range(count):
        n, beh, saved = 1, [], 0
        for _ in range(depth):
            x = rng.random()
            l = rng.randint(1, n)
            y = rng.random()
            if y < 0.05:
                beh.append(dict(op="ResetFlags", l=0, a=0, f=""))
            elif y < 0.13:
                beh.append(dict(op="SaveMod", l=0, a=rng.randint(1, len(FLAG_SETS)), f="",
                                b=rng.choice([0, 0] + list(range(1, len(FLAG_SETS) + 1)))))
                saved += 1
            elif y < 0.22 and saved:
                beh.append(dict(op="Restore", l=0, a=rng.randint(1, saved), f=""))
            elif x < 0.22:
                beh.append(dict(op="SetUTC", l=l, a=rng.randint(1, len(BOOL_LISTS)), f=""))
            elif x < 0.44:
                beh.append(dict(op="SetTF", l=l, a=rng.randint(1, len(LAY_LISTS)), f=""))
            elif x < 0.52 and n < max_loggers:
                beh.append(dict(op="WithUTC", l=l, a=rng.randint(1, len(BOOL_LISTS)), f=""))
                n += 1
            elif x < 0.60 and n < max_loggers:
                beh.append(dict(op="WithTF", l=l, a=rng.randint(1, len(LAY_LISTS)), f=""))
                n += 1
            elif x < 0.68 and n < max_loggers:
                beh.append(dict(op="New", l=l, a=rng.randint(1, len(OPT_LISTS)), f=""))
                n += 1
            elif x < 0.80:
                beh.append(dict(op="AddFlag", l=0, a=0, f=rng.choice(FLAGS)))
            elif x < 0.92:
                beh.append(dict(op="RemoveFlag", l=0, a=0, f=rng.choice(FLAGS)))
            else:
                beh.append(dict(op="SetFlags", l=0, a=rng.randint(1, len(FLAG_SETS)), f=""))
        res.append(beh)
    return res


def script_of(ctx, infos, behaviours, probes):
    return dict(seed=ctx.seed, probes=probes, infos=infos, bool_lists=BOOL_LISTS, lay_lists=LAY_LISTS,
                opt_lists=OPT_LISTS, flag_sets=FLAG_SETS, behaviours=behaviours)


def validate_trace(ctx, trace_path, name="c16-trace"):
    c, plain = consts(64, [], [], [], [], [], [False, True])
    c["TraceFile"] = "trace.ndjson"
    files = mc_files("MC16V", "TimestampTrace", c, plain,
                     ["SPECIFICATION TSpec", "INVARIANTS Done TCellsOK TStatementOK TCandsSmall", "CHECK_DEADLOCK FALSE"])
    r = ctx.tlc("MC16V", "MC16V.cfg", files=files, copy={trace_path: "trace.ndjson"}, workers=1, name=name,
                timeout=3000, heap="12g", allow_fail=True)
    if r.invariant_violated:
        raise Undecided("trace run: invariant %s violated on a recorded behaviour:\n%s" % (r.invariant_violated, r.out[-3000:]))
    if not r.ok:
        raise Undecided("trace validation run failed:\n" + r.out[-5000:])
    res = r.prints("bad")
    if len(res) != 1:
        raise Undecided("trace validation did not reach the end of the log:\n" + r.out[-3000:])
    return sorted(res[0]["bad"], key=lambda b: b["line"]), res[0]["inh"], res[0]["lines"]


def trace_key(ev, expected):
    """Name the abstract class of a rejected line (diagnosis only - the verdict is TLC's)."""
    try:
        x = json.loads(expected)
    except ValueError:
        return "%s:guard" % ev["op"]
    if ev.get("panic"):
        return "%s:panic" % ev["op"]
    if ev["ret"] != x["ret"] or ev["n"] != x["n"]:
        return "%s:returned-logger" % ev["op"]
    if sorted(ev["flags"]) != sorted(x["flags"]):
        return "%s:flags" % ev["op"]
    for l, (o, xl) in enumerate(zip(ev["obs"], x["loggers"]), 1):
        who = "receiver" if l == ev["l"] and ev["ret"] in (0, l) else "returned" if l == ev["ret"] else "bystander"
        for fmt in ("json", "logfmt", "color"):
            for fits in o[fmt]:
                if any("%s@%s" % (y, xl["zone"]) in fits for y in xl["layouts"]):
                    continue
                other = "Own" if xl["zone"] == "UTC" else "UTC"
                if any("%s@%s" % (y, other) in fits for y in xl["layouts"]):
                    return "%s:%s:zone" % (ev["op"], who)
                return "%s:%s:layout:%s" % (ev["op"], who, fmt)
    return "%s:child-start" % ev["op"]


def run_behaviours(ctx, infos, behaviours, n_cover, probes, replay_obj=None):
    script = script_of(ctx, infos, behaviours, probes)
    sp = os.path.join(ctx.scratch, "ts-script.json")
    tp = os.path.join(ctx.scratch, "ts-trace.ndjson")
    with open(sp, "w") as fh:
        json.dump(script, fh)
    ctx.run_worker(["tsrun", sp, tp], testing=True, timeout=3000)
    rows = read_ndjson(tp)
    bad, inh, lines = validate_trace(ctx, tp)
    if lines != len(rows):
        raise Undecided("TLC read %d of %d trace lines" % (lines, len(rows)))
    starts = [i for i, r_ in enumerate(rows) if r_["op"] == "Reset"]
    calls = set()
    nprobe = 0
    for r_ in rows:
        if r_["op"] != "Reset":
            calls.add((r_["op"], r_["l"], r_["a"], r_["f"], tuple(r_["flags"]), r_["n"]))
            nprobe += sum(len(o[f]) for o in r_["obs"] for f in ("json", "logfmt", "color"))
    ctx.evaluations += nprobe
    ctx.traces += len(starts)
    ctx.nontrivial += len(calls)
    for b in bad:
        line = b["line"] - 1
        bi = max(j for j, s in enumerate(starts) if s <= line)
        upto = line - starts[bi]
        ev = rows[line]
        what = "after %d call(s), %s(l=%s,a=%s,f=%s) [args: %s]: observed %s ; model expected %s" % (
            upto - 1, ev["op"], ev["l"], ev["a"], ev["f"], describe_args(ev),
            json.dumps({k: v for k, v in ev.items() if k not in ("op", "l", "a", "f")})[:1200], b["expected"][:1200])
        ctx.finding(trace_key(ev, b["expected"]), what,
                    replay_obj or dict(kind="behaviour", behaviour=behaviours[bi][:upto], probes=probes, observed=ev,
                                       expected=b["expected"], source="edge-cover" if bi < n_cover else "random"))
    return rows, bad, inh


def describe_args(ev):
    if ev["op"] in ("SetUTC", "WithUTC"):
        return BOOL_LISTS[ev["a"] - 1]
    if ev["op"] in ("SetTF", "WithTF"):
        return LAY_LISTS[ev["a"] - 1]
    if ev["op"] == "New":
        return OPT_LISTS[ev["a"] - 1]
    if ev["op"] == "SetFlags":
        return FLAG_SETS[ev["a"] - 1]
    if ev["op"] == "SaveMod":
        return dict(add=FLAG_SETS[ev["a"] - 1], remove=FLAG_SETS[ev["b"] - 1] if ev.get("b") else None)
    if ev["op"] == "Restore":
        return "restore function #%d" % ev["a"]
    return ev["f"]


def run(ctx, replay):
    if replay:
        return do_replay(ctx, replay)
    quick = ctx.quick()
    # ---- 1. table: TLC checks it and exports it
    cells, infos = export_table(ctx)
    # ---- 2. every cell on the library (runs below, concurrently with the TLC runs of step 3)
    # ---- 3. exhaustive exploration of the configuration machine
    if quick:
        big = consts(2, [1, 2, 3, 4], [1, 2, 3, 4, 9, 10], [2, 5, 6, 7], [1, 16], FLAGS, [False, True])
    else:
        big = consts(3, range(1, len(BOOL_LISTS) + 1), range(1, len(LAY_LISTS) + 1), range(1, len(OPT_LISTS) + 1),
                     [1, 8, 16], FLAGS, [False, True], max_saved=0)
    # save/restore scopes crossed with two loggers (the big thorough machine has none: saved flag sets
    # multiply its states beyond what finishes)
    big2 = consts(2, [1, 2, 3, 4], [1, 2, 3, 4, 9, 10], [2, 5, 6, 7], [1, 16], FLAGS, [False, True],
                  max_saved=1 if quick else 2)
    # vacuity: the situations the invariants speak about are reachable (witness runs, must be violated)
    wit = consts(2, [1, 3], [1, 4], [2], [], FLAGS, [False, True])
    witnesses = ("NeverUTCModeWithLocalFlag", "NeverCustomWithDateFlags", "NeverUnlisted", "NeverChildDiffers")

    # graph of a smaller configuration (children start unconfigured), dumped for replay
    if quick:
        small = consts(2, [1, 3], [1, 4], [6], [], ["local", "date"], [False], max_saved=0)
        scopes = consts(1, [3], [4], [], [2, 5], ["local", "date"], [False], max_saved=2)
    else:
        small = consts(2, [1, 2, 3, 5], [1, 3, 4, 10], [2, 6, 7], [1], FLAGS, [False], max_saved=0)
        scopes = consts(1, [1, 3], [4], [], [2, 5, 9], FLAGS, [False], max_saved=2)
    dot = os.path.join(ctx.scratch, "ts-graph")
    dot2 = os.path.join(ctx.scratch, "ts-graph-scopes")

    def graph(cfg=None, out=None, nm="MC16D"):
        cfg, out = cfg or small, out or dot
        return ctx.model_check(nm, nm + ".cfg",
                               files=mc_files(nm, "Timestamp", cfg[0], cfg[1],
                                              ["INIT Init", "NEXT Next", "ALIAS DumpAlias", INVS, PROPS]),
                               name="c16-graph-" + nm, timeout=900, extra=["-dump", "dot,actionlabels", out], workers=2)

    def machine():
        return ctx.model_check("MC16", "MC16.cfg", files=mc_files("MC16", "Timestamp", big[0], big[1],
                                                                  ["INIT Init", "NEXT Next", INVS, PROPS]),
                               name="c16-machine", timeout=1500, workers=10)

    def machine2():
        return ctx.model_check("MC16B", "MC16B.cfg", files=mc_files("MC16B", "Timestamp", big2[0], big2[1],
                                                                    ["INIT Init", "NEXT Next", INVS, PROPS]),
                               name="c16-machine-scopes", timeout=1500, workers=6)

    def witness(inv):
        return ctx.tlc("MC16W", "MC16W.cfg", files=mc_files("MC16W", "Timestamp", wit[0], wit[1],
                                                            ["INIT Init", "NEXT Next", "INVARIANTS " + inv]),
                       name="c16-witness-" + inv, timeout=300, allow_fail=True, workers=1)

    with concurrent.futures.ThreadPoolExecutor(max_workers=7) as pool:
        fc = pool.submit(run_cells, ctx, cells, infos, 50 if quick else 5000)
        fm = pool.submit(machine)
        fm2 = pool.submit(machine2) if not quick else None
        fg = pool.submit(graph)
        fg2 = pool.submit(graph, scopes, dot2, "MC16S")
        fw = {inv: pool.submit(witness, inv) for inv in witnesses}
        fc.result()
        r = fm.result()
        if fm2:
            fm2.result()
        fg.result()
        fg2.result()
        for inv in witnesses:
            w = fw[inv].result()
            if inv not in w.invariant_violated:
                raise Undecided("witness %s was not reached: invariants may be vacuous\n%s" % (inv, w.out[-2000:]))
    ctx.extra["machine_states"] = r.distinct
    ctx.extra["witnesses_reached"] = 4
    # ---- 4. graph -> scripts -> library -> TLC
    behaviours, covers, n_nodes, n_edges = [], [], 0, 0
    for d in (dot, dot2):
        nodes, edges, inits = parse_dot_edges(d + ".dot")
        evs = [label_to_event(lbl) for (_, lbl, _) in edges]
        cov, unvisited = edge_cover(nodes, edges, inits, max_len=80)
        if unvisited:
            raise Undecided("edge cover incomplete: %d edges not reachable" % unvisited)
        behaviours += [[evs[i] for i in beh] for beh in cov]
        covers += cov
        n_nodes += len(nodes)
        n_edges += len(edges)
    n_cover = len(behaviours)
    rng = random.Random(ctx.seed * 7919 + 16)
    behaviours += random_behaviours(rng, 40 if quick else 600, 30 if quick else 50, 6 if quick else 10)
    rows, bad, inh = run_behaviours(ctx, infos, behaviours, n_cover, probes=1 if quick else 2)
    ctx.extra.update(graph_states=n_nodes, graph_edges=n_edges, cover_behaviours=n_cover,
                     cover_events=sum(len(b) for b in covers), random_behaviours=len(behaviours) - n_cover,
                     trace_events=len(rows), steps_explained_only_by_inheriting_child=inh)
    if len(rows) > 2:
        ctx.sample(dict(behaviour=behaviours[0][:5], observation_after_first_call=rows[1]))
    ctx.assumptions += [
        "layout strings are interpreted by Go's package time (Format/Parse are trusted); the layout ids of the "
        "specification are bound to the documented layout strings written out in harness/fam_timestamp.go",
        "custom layouts in the list include ones whose literal text needs escaping in a JSON / logfmt string (a tab, a "
        "double quote, backslashes); none contains '|', the separator of the coloured line",
        "instants are sampled (years 1..9999 in both the own zone and UTC, fixed offsets within +-14 h with and "
        "without seconds, 18 named zones from the embedded tzdata, time.UTC, time.Local)",
        "zone offsets are compared to the minute (all layouts print hours and minutes of the offset)",
        "whether a fresh child starts from its parent's zone mode / layout is not stated: both are accepted",
        "probe records are issued with WriteThru after switching the logger's format with SetJSONMode/SetColorMode",
    ]
    return ctx.finish(rule="table: every cell (3 zone modes x 8 layouts x 16 flag sets x 3 formats) replayed with sampled "
                           "instants, non-trivial = cells having samples whose text would differ in the other zone and "
                           "under every other layout; machine: every transition of the dumped graph + seeded random "
                           "histories executed, non-trivial = distinct (call, receiver, arguments, flags, loggers) executed",
                      exhaustive=(inh == 0))


def do_replay(ctx, path):
    with open(path) as fh:
        rp = json.load(fh)["replay"]
    cells, infos = export_table(ctx)
    if rp["kind"] == "cell":
        want = cell_key(rp["cell"])
        hit = [dict(c) for c in cells if cell_key(c) == want]
        if len(hit) != 1:
            raise Undecided("cell of the replay file is not in the table")
        if rp.get("instants"):
            hit[0]["instants"] = rp["instants"]
        run_cells(ctx, hit, infos, 200, replay=True)
    else:
        run_behaviours(ctx, infos, [rp["behaviour"]], 1, rp.get("probes", 1))
    return ctx.finish(rule="replay of one recorded case", exhaustive=False)
