"""C08: concurrent logging is race-free and never tears or loses a record."""
import json
import os

import vlib
from vlib import Undecided, read_ndjson


def pool_cfg(ng, n, np_, sort="copy", variant="ok", uses="{1, 2}", invs=None, k=2, list_sort="copy", uses_list="{1, 2}"):
    invs = invs or "PcExclusive AttrsExclusive NoTear NoRace NoDup Multiset WriteBeforePut"
    return ("SPECIFICATION Spec\nCONSTANTS NG = %d N = %d NP = %d K = %d GroupSort = \"%s\" UsesGroup = %s Variant = \"%s\" "
            "ListSort = \"%s\" UsesList = %s\n"
            "INVARIANTS %s\nCHECK_DEADLOCK FALSE\n" % (ng, n, np_, k, sort, uses, variant, list_sort, uses_list, invs))


def validate(ctx, tp, name):
    r = ctx.tlc("PoolTrace", "T.cfg", files={"T.cfg": "SPECIFICATION Spec\nCONSTANT TraceFile = \"trace.ndjson\"\nINVARIANT Done\nCHECK_DEADLOCK FALSE\n"},
                copy={tp: "trace.ndjson"}, workers=1, name=name, timeout=1800, heap="10g")
    res = r.prints("bad")
    if len(res) != 1:
        raise Undecided("trace validation did not finish:\n" + r.out[-2000:])
    return res[0]


def stress(ctx, name, G, N, seed, mode, race=False, env=None):
    tp = os.path.join(ctx.scratch, "pool-%s.ndjson" % name)
    p = ctx.run_worker(["pool-stress", tp, str(G), str(N), str(seed), mode], testing=True, race=race, timeout=1200, check=False,
                       env=dict({"GORACE": "halt_on_error=0 exitcode=66"}, **(env or {})))
    racy = "DATA RACE" in p.stderr
    if p.returncode not in (0, 66) or (p.returncode == 66 and not racy):
        # the worker died.  If the Go runtime reports a panic / fatal error whose goroutine was inside the
        # library, concurrent logging crashed the process: that is a violation, not an infrastructure problem
        err = p.stderr
        for mark in ("fatal error: ", "panic: "):
            i = err.find(mark)
            if i >= 0:
                trace = err[i:i + 6000]
                first_goroutine = trace.split("\n\ngoroutine ")[0:2]
                if any("github.com/hedzr/logg/slog." in part for part in first_goroutine):
                    ctx.finding("crash:library", "the worker process crashed inside the library during concurrent logging (run %s, G=%d N=%d "
                                "seed=%d mode=%s):\n%s" % (name, G, N, seed, mode, trace[:1800]),
                                dict(kind="pool", run=dict(name=name, G=G, N=N, seed=seed, mode=mode, race=race)))
                    return None, racy, err
        raise Undecided("pool-stress %s failed rc=%s\n%s" % (name, p.returncode, p.stderr[-3000:]))
    return tp, racy, p.stderr


def run(ctx, replay):
    quick = ctx.quick()
    if replay:
        with open(replay) as fh:
            rp = json.load(fh)["replay"]
        runs = [rp["run"]]
    else:
        # 1. design level: every interleaving of the per-call steps
        ctx.model_check("Pool", "P1.cfg", files={"P1.cfg": pool_cfg(2, 2 if quick else 3, 3)}, name="pool-2x2")
        # 3 goroutines x 2 calls with one chunk per record (142 M states with two chunks: too slow)
        ctx.model_check("Pool", "P2.cfg", files={"P2.cfg": pool_cfg(3, 1 if quick else 2, 4 if quick else 3, uses="{1, 2, 3}", uses_list="{2, 3}",
                                                                    k=2 if quick else 1)}, name="pool-3x1", timeout=2400)
        # 2. non-vacuity: each mechanism variant must violate its invariant
        #    (the fourth: nobody prints the shared group, two goroutines hand ONE attribute list to WriteThru, which sorts it in place)
        for sort, variant, inv, lsort, uses, ulist in (("inplace", "ok", "NoRace", "copy", "{1, 2}", "{1, 2}"),
                                                       ("copy", "putBeforeWrite", "NoTear", "copy", "{1, 2}", "{1, 2}"),
                                                       ("copy", "sharedBuffer", "NoTear", "copy", "{1, 2}", "{1, 2}"),
                                                       ("copy", "ok", "NoRace", "inplace", "{}", "{1, 2}")):
            w = ctx.tlc("Pool", "W.cfg", files={"W.cfg": pool_cfg(2, 1, 3, sort=sort, variant=variant, invs=inv, uses=uses,
                                                                   list_sort=lsort, uses_list=ulist)},
                        name="witness-%s-%s-%s" % (sort, variant, lsort), allow_fail=True)
            if inv not in w.invariant_violated:
                raise Undecided("witness %s/%s/list %s did not violate %s" % (sort, variant, lsort, inv))
        s = ctx.seed
        runs = [dict(name="trace", G=8, N=40 if quick else 400, seed=s * 11 + 1, mode="trace", race=False),
                dict(name="barrier", G=6, N=40 if quick else 300, seed=s * 11 + 2, mode="barrier", race=False),
                dict(name="slow", G=12, N=60 if quick else 400, seed=s * 11 + 8, mode="slow", race=False),
                dict(name="race-slow", G=12, N=60 if quick else 300, seed=s * 11 + 9, mode="free-slow", race=True),
                dict(name="race-free", G=16 if quick else 64, N=60 if quick else 400, seed=s * 11 + 3, mode="free", race=True),
                dict(name="race-barrier", G=8, N=40 if quick else 300, seed=s * 11 + 4, mode="barrier", race=True),
                # the rarely used flags on (package name of the caller, date, inherited attributes): a fresh process,
                # so that whatever those paths initialise lazily is initialised by overlapping calls
                dict(name="race-rare", G=16, N=40 if quick else 300, seed=s * 11 + 10, mode="free-slow+rare", race=True),
                dict(name="rare", G=8, N=40 if quick else 300, seed=s * 11 + 12, mode="trace+rare", race=False),
                # 48 goroutines of which 40 are inside ONE logger's destination at the same moment
                dict(name="pileup", G=48, N=3 if quick else 20, seed=s * 11 + 13, mode="pileup", race=False),
                # a process that starts with a single processor: calls still overlap (the destination yields)
                dict(name="uniproc", G=8, N=40 if quick else 300, seed=s * 11 + 14, mode="slow", race=False, env={"GOMAXPROCS": "1"})]
        if not quick:
            runs += [dict(name="trace2", G=64, N=100, seed=s * 11 + 5, mode="trace", race=False),
                     dict(name="race-free2", G=32, N=300, seed=s * 11 + 6, mode="free", race=True),
                     dict(name="race-free3", G=3, N=2000, seed=s * 11 + 7, mode="free", race=True)]
    for rn in runs:
        tp, racy, err = stress(ctx, rn["name"], rn["G"], rn["N"], rn["seed"], rn["mode"], race=rn["race"], env=rn.get("env"))
        if tp is None:          # crashed inside the library: reported, nothing to validate
            continue
        rows = read_ndjson(tp)
        end = rows[-1] if rows and rows[-1].get("ev") == "end" else None
        if not end:
            raise Undecided("pool-stress %s wrote no end record" % rn["name"])
        ctx.traces += 1
        ctx.evaluations += end["calls"]
        ctx.extra["run_" + rn["name"]] = dict(G=rn["G"], N=rn["N"], calls=end["calls"], payloads=end["payloads"],
                                              hook_events=end["hook_events"], race_detector=rn["race"], race_reported=racy)
        if racy:
            first = err[err.index("WARNING: DATA RACE"):][:1800]
            where = "other"
            if "serializeAttrs" in first or "slices.SortFunc" in first or "dedupeSlice" in first or "pdqsort" in first or "insertionSort" in first:
                where = "attr-sort"
            ctx.finding("race:" + where, "Go race detector report in run %s (G=%d N=%d seed=%d mode=%s):\n%s" % (
                rn["name"], rn["G"], rn["N"], rn["seed"], rn["mode"], first), dict(kind="pool", run=rn))
        res = validate(ctx, tp, "pooltrace-" + rn["name"])
        whys = {}
        for b in res:
            whys.setdefault(b["why"], []).append(b["line"])
        for why, lines in whys.items():
            row = rows[lines[0] - 1]
            key = "trace:" + ("shared-list-rewritten" if "attribute list shared between calls" in why else "shared-sort" if "sort" in why else "tear" if "payload" in why else "multiset" if "multiset" in why else "ownership")
            if key == "trace:shared-sort" and "in place" in why and not any("same time" in w for w in whys):
                key = "trace:shared-sort-inplace"
            ctx.finding(key, "%s (run %s, %d event(s), first at line %d: %s)" % (why, rn["name"], len(lines), lines[0], json.dumps(row)[:600]),
                        dict(kind="pool", run=rn))
        ctx.nontrivial += len(set((r.get("ev"), r.get("class", ""), r.get("same", True)) for r in rows)) + sum(
            1 for r in rows if r.get("ev") == "deliver")
        ctx.sample(dict(run=rn, first_events=rows[:5]), limit=3)
    ctx.assumptions += ["hook events are ordered by a sequence number taken inside the hook (pc.get after Get returns, pc.put before Put)",
                        "the Go race detector is the ground truth for memory-level races and sees only executed schedules",
                        "every payload is compared byte for byte with the same call issued alone (timestamps of verb calls normalised)",
                        "C09 (history independence) is needed for that comparison and is checked separately"]
    return ctx.finish(rule="TLC: all interleavings of the per-call pool/sort/format/write steps for 2x2(3) and 3x1(2) goroutines x calls "
                           "+ 4 witness variants; code: hook traces of free-running and barrier-forced concurrent logging (6-64 "
                           "goroutines, 1-8 loggers in 3 formats, shared groups, logger-level groups, attribute lists shared between goroutines "
                           "and handed to WriteThru as they are, multi-line messages, errors) "
                           "validated by TLC against PoolTrace, and the same workloads under the Go race detector; non-trivial = "
                           "distinct event kinds + delivered payloads compared", exhaustive=False)
