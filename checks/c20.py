"""C20: duration text helpers (slog/internal/times) are total, invertible and agree with
time.ParseDuration (plus the day unit).

Pipeline (spec/Duration.tla is the oracle, spec/DurationTrace.tla the trace monitor):
  1. TLC, machine "fmt": every boundary cell x style written right-to-left into the scratch
     array; invariants InBuffer / RoundTrip / StdReads / FmtShape.  A witness run with the
     library's real array size (32) must violate InBuffer (non-vacuity, and the class of the
     known overrun).
  2. TLC, machine "parse": library parser and standard parser in lock step over every string
     <= MaxLen over the alphabet; invariants AcceptSameAsStd / ResultWellFormed / RejectIsFinal;
     the dumped graph is the acceptance/value table.
  3. TLC, machine "hist": the tree of all call histories <= MaxCalls; invariants Retained /
     TextIsValue / HistoryFree.
  4. The helpers live in an internal package: a test file (harness/overlay/c20_times_test.go.txt)
     is injected with `go test -c -overlay` (nothing is written to the repository) and
       walk : every string spelled by a path of graph (2) goes through ParseDuration and
              time.ParseDuration; observations grouped by graph node are compared with the
              node's verdict/value from the specification;
       fmt  : every cell of the specification's cell space + seeded random int64 values are
              formatted in both styles (a panic is attributed to its cell), the text projected
              to symbols and parsed back; TLC validates the records (DurationTrace);
       parse: boundary strings + seeded random grammar strings; TLC validates the records.
       hist : HISTORIES of calls (machine "hist": a returned text is a value).  Every maximal
              history of the TLC-explored tree (HFormat / HParse / HParseLit / HDrop over HCells,
              both styles, repeated values) plus seeded random long histories over the cell space
              and int64 values (interleaved styles, repeats, "hoarding" many live texts) are
              executed; after EVERY call the injected test looks again at every text it still
              holds (the text now, the library parser on it now); TLC validates each history
              (DurationTrace, keys hist:*).  A witness run with Aliased = TRUE (shared scratch
              handed out without copying) must violate Retained.
       conc : the same histories run by several goroutines at once; each history's records are
              compared with the sequential ones, histories that differ are judged by TLC again;
              once more with a -race build (a reported data race inside the helpers is a finding).
       env  : the PROCESS ENVIRONMENT is a dimension of the cell space (Duration!Envs): the text of a
              duration is a function of the duration and the style only (invariant EnvFree over
              cell x style x env; witness LocaleMicro = TRUE must violate it).  Every run above is made
              in the scrubbed environment "unset"; the sub-second cells, the boundary values, seeded
              random values (fmt + parse back) and the boundary / seeded grammar strings (parse) are run
              again in every other environment of ENVS (LANG=C, LC_CTYPE=POSIX, *.ISO-8859-1 through LANG
              and through LC_ALL over a UTF-8 LANG, *.UTF-8, exotic TZ values); TLC judges the records of
              each environment with the same, environment-blind operators.
     Strings outside the model's arithmetic (long digit runs, 64-bit overflow thresholds) are
     judged by the concrete comparison with time.ParseDuration only (day unit: against the same
     string with the day term rewritten to hours).
"""
import json
import os
import random
import re
import subprocess
import threading

import vlib
from vlib import Undecided, write_ndjson, read_ndjson
from tlagen import gen_mc

OVERLAY_SRC = os.path.join(vlib.HARNESS, "overlay", "c20_times_test.go.txt")
PKG = "slog/internal/times"
LIB_BUF = 32          # size of the scratch array in dur.go (the witness run uses it)

SYM_BYTES = {c: [ord(c)] for c in "0123456789+-.dhmsnu"}
SYM_BYTES["micro"] = [0xC2, 0xB5]
SYM_BYTES["greek"] = [0xCE, 0xBC]
# concretisations of "x" (any other byte); none may combine with a neighbour into another symbol
# (the two-byte ones are the look-alikes of the micro signs: the other lead byte with the right second byte -
# U+00BC, U+03B5 - and neighbours; after their first byte the parse is dead already, like after any "x")
X_CANDS = [[ord("x")], [32], [ord("e")], [ord("D")], [0xC2], [0xFF], [0], [ord(",")], [0xCE], [ord("_")], [ord("S")],
           [0xC2, 0xBC], [0xCE, 0xB5], [0xC2, 0xB6], [0xCE, 0xBB], [0xC3, 0xB5], [0xCF, 0xBC]]


# process environments (Duration!Envs): name -> variables set; every other variable of ENV_VARS is REMOVED
ENV_VARS = ["LC_ALL", "LC_CTYPE", "LC_NUMERIC", "LC_MESSAGES", "LC_TIME", "LANG", "LANGUAGE", "TZ"]
ENVS = {
    "unset": {},
    "C": {"LANG": "C"},
    "POSIX": {"LC_CTYPE": "POSIX"},
    "latin1": {"LANG": "de_DE.ISO-8859-1", "LANGUAGE": "de"},
    "lcall-latin1": {"LC_ALL": "en_US.ISO-8859-1", "LANG": "en_US.UTF-8"},
    "utf8": {"LANG": "en_US.UTF-8", "LC_ALL": "en_US.UTF-8", "LC_NUMERIC": "de_DE.UTF-8"},
    "tz-chatham": {"TZ": "Pacific/Chatham", "LANG": "C.UTF-8", "LC_TIME": "ja_JP.eucJP"},
    "tz-posix": {"TZ": "<-0330>3:30", "LC_ALL": "POSIX"},
}
NO_UTF8 = ["C", "POSIX", "latin1", "lcall-latin1", "tz-posix"]      # Duration!NoUTF8 (only the witness run looks at it)


def proc_env(name):
    e = {k: v for k, v in os.environ.items() if k not in ENV_VARS}
    e.update(ENVS[name])
    return e


def _cell(neg=False, d=0, h=0, m=0, s=0, ms=0, us=0, ns=0):
    return dict(neg=neg, d=d, h=h, m=m, s=s, ms=ms, us=us, ns=ns)


# cells of the hist machine (members of the cell space of both tiers): the longest text (MinInt64),
# a 3-byte one, a middle one with different texts per style, zero, a negative fraction
HCELLS = [_cell(True, 106751, 23, 47, 16, 854, 775, 808), _cell(ns=1), _cell(d=1, h=1, s=1, ns=1), _cell(),
          _cell(True, ms=1, us=1)]
HLITS = [["1", "d"], ["-", "1", ".", "5", "x"]]


def config(quick):
    if quick:
        return dict(
            alphabet=["+", "-", "0", "1", "9", ".", "d", "h", "m", "s", "n", "u", "micro", "x"], maxlen=5,
            cellsets=dict(d=[0, 1, 106751], h=[0, 1, 23], m=[0, 1, 47], s=[0, 1, 16, 59], ms=[0, 1, 854],
                          us=[0, 1, 775], ns=[0, 1, 807, 808, 999]),
            rand_i64=3000, rand_parse=4000, big=3000, chunk=7000,
            hcells=HCELLS[:4], hlits=HLITS[:1], maxcalls=3, hist_mixed=40, hist_len=(25, 60), hist_hoard=(3, 72),
            hist_pairs=150, goroutines=8, hist_chunk=16000, env_rand=300, env_parse=400)
    return dict(
        alphabet=["+", "-", "0", "1", "5", "9", ".", "d", "h", "m", "s", "n", "u", "micro", "greek", "x"], maxlen=6,
        cellsets=dict(d=[0, 1, 9, 10, 99999, 100000, 106750, 106751], h=[0, 1, 9, 10, 23], m=[0, 1, 10, 47, 59],
                      s=[0, 1, 16, 59], ms=[0, 1, 10, 100, 854, 999], us=[0, 1, 100, 775, 999],
                      ns=[0, 1, 99, 807, 808, 999]),
        rand_i64=60000, rand_parse=60000, big=60000, chunk=40000,
        hcells=HCELLS, hlits=HLITS, maxcalls=4, hist_mixed=600, hist_len=(30, 120), hist_hoard=(6, 300),
        hist_pairs=3000, goroutines=16, hist_chunk=60000, env_rand=6000, env_parse=6000)


WITNESS_CELLS = dict(d=[0, 106751], h=[23], m=[47], s=[16], ms=[854], us=[775], ns=[807, 808])


def consts(c, cellsets=None):
    cs = cellsets or c["cellsets"]
    return dict(Alphabet=set(c["alphabet"]), CellSets={k: set(v) for k, v in cs.items()},
                HCells=list(c["hcells"]), HLits=list(c["hlits"]), Envs=set(c.get("envs", ENVS)), NoUTF8=set(NO_UTF8) & set(c.get("envs", ENVS)), FullEnvs={"unset"})


def plain(c, buflen, machine, aliased=False, locale_micro=False):
    return dict(BufLen=buflen, MaxLen=c["maxlen"], Machine='"%s"' % machine, MaxCalls=c["maxcalls"],
                Aliased="TRUE" if aliased else "FALSE", LocaleMicro="TRUE" if locale_micro else "FALSE")


_lock = threading.Lock()


def finding(ctx, key, what, rp):
    with _lock:
        return ctx.finding(key, what, rp)


def bump(ctx, traces=0, evaluations=0, nontrivial=0, **extra):
    with _lock:
        ctx.traces += traces
        ctx.evaluations += evaluations
        ctx.nontrivial += nontrivial
        ctx.extra.update(extra)


def par(*fns):
    """Run callables concurrently (TLC / go are subprocesses); re-raise the first failure."""
    res, err = [None] * len(fns), []

    def wrap(i, f):
        try:
            res[i] = f()
        except BaseException as ex:  # noqa
            err.append(ex)
    ths = [threading.Thread(target=wrap, args=(i, f)) for i, f in enumerate(fns)]
    [t.start() for t in ths]
    [t.join() for t in ths]
    if err:
        raise err[0]
    return res


# ------------------------------------------------------------------ the injected test binary
def build_test(ctx, race=False):
    src = os.path.join(ctx.scratch, "c20_times_test.go")
    with open(OVERLAY_SRC) as fh, open(src, "w") as out:
        out.write(fh.read())
    ov = os.path.join(ctx.scratch, "overlay-race.json" if race else "overlay.json")
    target = os.path.join(vlib.REPO, PKG, "zz_c20_verif_test.go")
    if os.path.exists(target):
        raise Undecided("overlay target exists in the repository: " + target)
    with open(ov, "w") as fh:
        json.dump({"Replace": {target: src}}, fh)
    binp = os.path.join(ctx.scratch, "times.race.test" if race else "times.test")
    p = subprocess.run(["go", "test", "-c"] + (["-race"] if race else []) + ["-overlay", ov, "-vet=off", "-o", binp, "./" + PKG + "/"],
                       cwd=vlib.REPO, env=vlib.goenv(), capture_output=True, text=True)
    if p.returncode != 0 or not os.path.exists(binp):
        if race:       # the race detector is an extra: without it (no cgo, ...) the check goes on
            return None
        raise Undecided("building the injected test failed:\n" + p.stdout + p.stderr)
    return binp


def run_test(ctx, binp, mode, inp, name, careful=False, timeout=1500, env_extra=None, envname="unset"):
    """Runs the injected test in process environment ENVS[envname].
    Returns (rows, died: None | dict(marker=.., rc, tail, complete: the log reached its end))."""
    out = os.path.join(ctx.scratch, name + ".out.ndjson")
    mark = os.path.join(ctx.scratch, name + ".mark")
    env = dict(proc_env(envname), C20_MODE=mode, C20_IN=inp, C20_OUT=out, C20_MARK=mark, C20_CAREFUL="1" if careful else "0")
    env.update(env_extra or {})
    try:
        p = subprocess.run([binp, "-test.run", "^TestC20Verif$", "-test.timeout", "0"], cwd=ctx.scratch, env=env,
                           capture_output=True, text=True, errors="replace", timeout=timeout)
    except subprocess.TimeoutExpired:
        p = None
    rows = []
    if os.path.exists(out):
        with open(out, errors="replace") as fh:
            for line in fh:
                try:
                    rows.append(json.loads(line))
                except ValueError:
                    break          # truncated last line of a process that died
    for r in rows:
        if r.get("op") in ("fmt", "parse"):
            r["env"] = envname
    if rows and rows[-1].get("op") == "end" and rows[-1].get("env") != ENVS[envname]:
        raise Undecided("the injected test did not run in environment %s: it saw %s, the check asked for %s" % (
            envname, rows[-1].get("env"), ENVS[envname]))
    if p is not None and p.returncode == 0 and rows and rows[-1].get("op") == "end":
        return rows[:-1], None
    marker = b""
    if os.path.exists(mark):
        with open(mark, "rb") as fh:
            marker = fh.read()
    complete = bool(rows) and rows[-1].get("op") == "end"
    return (rows[:-1] if complete else rows), dict(
        marker=marker, rc=None if p is None else p.returncode, complete=complete,
        tail=("timeout" if p is None else (p.stdout + p.stderr)[-1500:]),
        out="" if p is None else (p.stdout + p.stderr)[:20000])


# ------------------------------------------------------------------ TLC runs
def mc_fmt(ctx, c, buflen, cellsets=None, name="fmt-mc", workers=8, allow_fail=False):
    mc, cfg = gen_mc("MC", "Duration", consts(c, cellsets),
                     ["SPECIFICATION Spec", "INVARIANTS InBuffer RoundTrip StdReads FmtShape EnvFree", "CHECK_DEADLOCK FALSE"],
                     plain=plain(c, buflen, "fmt"))
    kw = dict(files={"MC.tla": mc, "MC.cfg": cfg}, name=name, workers=workers, timeout=1500)
    return ctx.tlc("MC", "MC.cfg", allow_fail=allow_fail, **kw)


def mc_parse(ctx, c, workers=8):
    mc, cfg = gen_mc("MC", "Duration", consts(c),
                     ["SPECIFICATION Spec", "INVARIANTS AcceptSameAsStd ResultWellFormed", "PROPERTIES RejectIsFinal",
                      "ALIAS ParseAlias", "CHECK_DEADLOCK FALSE"],
                     plain=plain(c, LIB_BUF + 1, "parse"))
    dot = os.path.join(ctx.scratch, "parsegraph")
    r = ctx.tlc("MC", "MC.cfg", files={"MC.tla": mc, "MC.cfg": cfg}, name="parse-mc", workers=workers,
                timeout=1500, extra=["-dump", "dot,actionlabels", dot])
    return r, parse_graph(dot + ".dot")


_edge = re.compile(r'^(-?\d+) -> (-?\d+) \[label="FeedBoth\(\\"(.*?)\\"\)"')
_nodehead = re.compile(r'^(-?\d+) \[label="')


def parse_graph(path):
    """TLC dot dump (ALIAS ParseAlias) -> (labels: list of dict, next: list of {sym: idx}, init idx)."""
    ids, labels, edges, init = {}, [], [], None
    with open(path, errors="replace") as fh:
        for line in fh:
            m = _edge.match(line)
            if m:
                edges.append((m.group(1), m.group(3), m.group(2)))
                continue
            m = _nodehead.match(line)
            if not m:
                continue
            rest = line[m.end():]
            cuts = [x for x in (rest.find('",tooltip='), rest.find('",style = filled'), rest.find('"];')) if x >= 0]
            if not cuts:
                raise Undecided("cannot parse dump node line: " + line[:200])
            cut = min(cuts)
            lab = rest[:cut].encode().decode("unicode_escape")
            if not lab.startswith('j = "'):
                raise Undecided("unexpected node label " + lab[:80])
            val = json.loads(json.loads(lab[4:]))
            if m.group(1) not in ids:
                ids[m.group(1)] = len(labels)
                labels.append(val)
            if rest[cut:].startswith('",style = filled'):
                init = ids[m.group(1)]
    if init is None or not edges:
        raise Undecided("parse graph dump has no initial state / edges")
    nxt = [dict() for _ in labels]
    for s, sym, d in edges:
        nxt[ids[s]][sym] = ids[d]
    return labels, nxt, init


def validate(ctx, c, rows, name, cellsets=None):
    """TLC trace validation of projected records. Returns (bad, ood_lines, cover)."""
    keep_f = ("op", "env", "cell", "style", "oor", "panic", "syms", "back")
    keep_p = ("op", "env", "syms", "lib", "std", "panic")
    slim = [slim_hist(r) if r["op"] == "hist" else {k: r[k] for k in (keep_f if r["op"] == "fmt" else keep_p)} for r in rows]
    tp = os.path.join(ctx.scratch, name + ".trace.ndjson")
    write_ndjson(tp, slim)
    tc = consts(c, cellsets)
    tc["TraceFile"] = "trace.ndjson"
    mct, cfg = gen_mc("MCT", "DurationTrace", tc, ["SPECIFICATION TSpec", "INVARIANTS Done", "CHECK_DEADLOCK FALSE"],
                      plain=plain(c, LIB_BUF, "trace"))
    r = ctx.tlc("MCT", "MCT.cfg", files={"MCT.tla": mct, "MCT.cfg": cfg}, copy={tp: "trace.ndjson"}, workers=1,
                name=name, timeout=2400, heap="3g")
    bad, ood, cover = r.prints("bad"), r.prints("ood"), r.prints("cover")
    if len(bad) != 1 or len(ood) != 1 or len(cover) != 1:
        raise Undecided("trace validation %s did not reach the end of the log:\n%s" % (name, r.out[-3000:]))
    return sorted(bad[0], key=lambda b: b["line"]), sorted(ood[0]), cover[0]


def slim_hist(r):
    cl, rt = r["call"], r["ret"]
    return dict(op="hist", h=r["h"], k=r["k"], call={k: cl[k] for k in ("o", "cell", "style", "oor", "j", "syms")},
                ret={k: rt[k] for k in ("panic", "syms", "res")}, held=[dict(syms=x["syms"], back=x["back"]) for x in r["held"]])


def validate_chunks(ctx, c, rows, name, chunk, cellsets=None, parallel=5):
    """Split a long record list over several TLC processes."""
    parts = [rows[i:i + chunk] for i in range(0, len(rows), chunk)] or [[]]
    results = [None] * len(parts)
    for g in range(0, len(parts), parallel):
        grp = list(range(g, min(g + parallel, len(parts))))
        rs = par(*[(lambda j=j: validate(ctx, c, parts[j], "%s-%d" % (name, j), cellsets)) for j in grp])
        for j, r in zip(grp, rs):
            results[j] = r
    bad, ood, cells, hits, envs = [], [], 0, 0, set()
    for j, (b, o, cov) in enumerate(results):
        off = j * chunk
        bad += [dict(x, line=x["line"] + off) for x in b]
        ood += [x + off for x in o]
        cells = cov["cells"]
        hits += cov["cells"] - cov["missing"]
        envs |= set(cov["envs"])
    return bad, ood, dict(cells=cells, hit=hits, envs=sorted(envs))


# ------------------------------------------------------------------ inputs
def cell_product(cs):
    out = []
    for neg in (False, True):
        for d in cs["d"]:
            for h in cs["h"]:
                for m in cs["m"]:
                    for s in cs["s"]:
                        for ms in cs["ms"]:
                            for us in cs["us"]:
                                for ns in cs["ns"]:
                                    out.append(dict(cell=dict(neg=neg, d=d, h=h, m=m, s=s, ms=ms, us=us, ns=ns)))
    return out


UNITS_NS = [1, 10**3, 10**6, 10**9, 60 * 10**9, 3600 * 10**9, 86400 * 10**9]
MAXI, MINI = 2**63 - 1, -2**63


def random_i64(rng, n):
    vals = [0, 1, -1, MAXI, MAXI - 1, MINI, MINI + 1, MINI + 2]
    for u in UNITS_NS:
        for k in (1, 9, 10, 23, 24, 59, 60, 99, 100, 999, 1000):
            for dlt in (-1, 0, 1):
                vals += [k * u + dlt, -(k * u + dlt)]
    while len(vals) < n:
        kind = rng.random()
        if kind < 0.4:
            v = rng.getrandbits(rng.randint(1, 63))
        elif kind < 0.7:
            v = rng.choice(UNITS_NS) * rng.randint(1, 10**rng.randint(1, 6)) + rng.choice([-1, 0, 0, 1, rng.randint(0, 10**6)])
        else:
            v = MAXI - rng.getrandbits(rng.randint(1, 62))
        v = max(MINI, min(MAXI, v))
        vals.append(-v if rng.random() < 0.5 and v != MINI else v)
    return [dict(i64=str(v)) for v in vals if MINI <= v <= MAXI]


GOOD_UNITS = [["n", "s"], ["u", "s"], ["micro", "s"], ["greek", "s"], ["m", "s"], ["s"], ["m"], ["h"], ["d"]]
BAD_UNITS = [[], ["x"], ["d", "d"], ["s", "m"], ["h", "s"], ["u"], ["n"], ["micro"], ["d", "s"], ["m", "m"], ["-"], ["+"],
             ["s", "x"], ["greek"], ["n", "s", "s"]]
MAXFRAC = {"d": 4, "h": 5, "m": 7}


def sym_bytes(syms, rng):
    out = []
    for s in syms:
        out += rng.choice(X_CANDS) if s == "x" else SYM_BYTES[s]
    return out


def to_syms(text):
    """ASCII/µ text -> symbols (generator side only)."""
    out = []
    for ch in text:
        out.append("micro" if ch == "µ" else "greek" if ch == "μ" else ch if ch in SYM_BYTES else "x")
    return out


BOUNDARY_STRINGS = [
    "0", "+0", "-0", "00", "0s", "-0s", "0d", "+0d", "-0d", "", "+", "-", ".", "d", "1", "1.", ".5", "1d", "-1d", "+1d",
    "1.5d", ".5d", "0.5d", ".25d", "1.d", ".d", "1d1d", "1d12h", "1dd", "1ds", "1 d", "1D", "d1", "1d.", "1d0", "2d3",
    "7d7h7m7s7ms7µs7ns", "1µs1μs1us", "1us", "1µs", "1μs", "1.5µs", "1h1d", "0.0001d", "0.9999d",
    "106751d", "106752d", "-106751d", "-106752d", "106751d23h", "106751d24h", "106751.9999d", "106751.99d",
    "106751d23h47m16s854ms775µs807ns", "106751d23h47m16s854ms775µs808ns", "-106751d23h47m16s854ms775µs808ns",
    "-106751d23h47m16s854ms775µs809ns", "+106751d23h47m16s854ms775us807ns", "106751d23h47m16s854ms775μs808ns",
    "2562047h47m16.854775807s", "2562047h47m16.854775808s", "-2562047h47m16.854775808s", "-2562047h47m16.854775809s",
    "2562047h", "2562048h", "-2562048h", "153722867m", "153722868m", "-153722867m16.854775808s", "106751d85636s854775807ns",
    "106751d85636s854775808ns", "-106751d85636s854775808ns", "53375d53376d", "53375d53375d47h", "1d-1d", "1d+1h", "--1d", "+-1d",
    "1.5h30m", "1h1m1s1ms1us1ns", "999999999ns", "0.000000001s", "0.0000000001s", "1.0000000005s", ".1ns", ".9ns", "1.9ns",
    "0.001µs", "0.0005µs", "0.000001ms", "0.0000005ms", "1e3s", "1_000s", "1s ", " 1s", "1s\n", "µs", "1µ", "1m s",
]


def random_parse_strings(rng, n):
    out = [to_syms(s) for s in BOUNDARY_STRINGS]
    digs = "0123456789"
    while len(out) < n:
        syms = []
        r = rng.random()
        if r < 0.45:
            syms.append(rng.choice(["+", "-"]))
        for _ in range(rng.choice([1, 1, 1, 2, 2, 3, 4, 6])):
            unit = rng.choice(GOOD_UNITS) if rng.random() < 0.9 else rng.choice(BAD_UNITS)
            nint = rng.choice([0, 1, 1, 1, 2, 2, 3, 4, 6, 9])
            ip = [rng.choice(digs) for _ in range(nint)]
            if nint and rng.random() < 0.15:
                ip[0] = "0"
            syms += ip
            if rng.random() < 0.35:
                syms.append(".")
                mf = MAXFRAC.get(unit[0], 9) if len(unit) == 1 else 9
                syms += [rng.choice(digs) for _ in range(rng.randint(0, mf))]
            syms += unit
        # noise: replace / insert / delete one symbol
        r = rng.random()
        if r < 0.25 and syms:
            k = rng.randrange(len(syms))
            alpha = list(SYM_BYTES) + ["x", "x"]
            if r < 0.10:
                syms[k] = rng.choice(alpha)
            elif r < 0.18:
                syms.insert(k, rng.choice(alpha))
            else:
                del syms[k]
        out.append(syms)
    return out


def big_strings(rng, n):
    """Strings beyond the model's arithmetic: (kind, bytes[, bytes of the hour-rewritten twin])."""
    out = []
    edge = [2**63 - 1, 2**63, 2**63 + 1, 2**64 - 1, 2**64, 2**64 + 1, 10**18, 10**19, 922337203685477580, 9223372036]
    units = ["ns", "us", "µs", "μs", "ms", "s", "m", "h"]
    per = dict(ns=1, us=10**3, ms=10**6, s=10**9, m=60 * 10**9, h=3600 * 10**9)
    per["µs"] = per["μs"] = 10**3
    enc = lambda s: list(s.encode("utf-8"))
    while len(out) < n:
        r = rng.random()
        sign = rng.choice(["", "", "-", "+"])
        if r < 0.25:       # around the 64-bit thresholds of v*unit
            u = rng.choice(units)
            v = (2**63) // per[u] + rng.randint(-2, 2)
            tail = rng.choice(["", "", "1ns", "%dns" % rng.randint(0, per[u] * 2)])
            out.append(("std", enc("%s%d%s%s" % (sign, v, u, tail))))
        elif r < 0.45:     # long integer digit runs
            v = rng.choice(edge) + rng.randint(-3, 3) if rng.random() < 0.5 else rng.getrandbits(rng.randint(30, 80))
            out.append(("std", enc("%s%s%d%s" % (sign, "0" * rng.randint(0, 3), v, rng.choice(units)))))
        elif r < 0.70:     # long fractions (precision / rounding / fraction overflow)
            ip = rng.choice(["", "0", "1", str(rng.randint(0, 10**6)), "2562047", "9223372036"])
            fp = "".join(rng.choice("0123456789") for _ in range(rng.randint(5, 25)))
            if rng.random() < 0.3:
                fp = rng.choice(["9" * rng.randint(9, 22), "0" * rng.randint(9, 22) + "1", "4" + "9" * 18, "5" + "0" * 18])
            out.append(("std", enc("%s%s.%s%s" % (sign, ip, fp, rng.choice(units)))))
        elif r < 0.85:     # sums approaching the limit
            parts, tot = [], 0
            for _ in range(rng.randint(2, 5)):
                u = rng.choice(units)
                v = rng.randint(0, (2**63) // per[u] // rng.choice([1, 2, 2, 3]))
                parts.append("%d%s" % (v, u))
            out.append(("std", enc(sign + "".join(parts))))
        else:              # day unit: K d  must behave as  24K h
            k = rng.choice([106751, 106752, 106750, 2**63 // (86400 * 10**9), 0, 1, 10**rng.randint(1, 19),
                            rng.getrandbits(rng.randint(1, 70)), 384307168202282325, 384307168202282326,
                            768614336404564650, 768614336404564651])
            pre = rng.choice(["", "", "1h", "3m"])
            tail = rng.choice(["", "", "23h47m16.854775807s", "23h47m16.854775808s", "%dns" % rng.randint(0, 10**14), "24h"])
            out.append(("day", enc("%s%s%dd%s" % (sign, pre, k, tail)), enc("%s%s%dh%s" % (sign, pre, 24 * k, tail))))
    return out


# ------------------------------------------------------------------ judging
def text_of(b):
    return bytes(b).decode("utf-8", errors="backslashreplace")


def report_bad(ctx, rows, bad, inputs, source):
    for b in bad:
        row = rows[b["line"] - 1]
        key = b["key"]
        if key.startswith("spec:"):
            raise Undecided("the specification disagrees with the harness/reference (%s) on %s; expected %s" % (
                key, json.dumps(row, ensure_ascii=False)[:800], b["expected"][:800]))
        envnote = "" if row.get("env", "unset") == "unset" else "in process environment %s %s: " % (row["env"], json.dumps(ENVS[row["env"]]))
        if row["op"] == "fmt":
            what = envnote + "SmartDurationStringEx(%s ns, frac=%s): %s ; specification: %s" % (
                row.get("i64"), row["style"] == "frac",
                ("PANIC " + row.get("pmsg", "")) if row["panic"] else "returned %r which ParseDuration reads as %s" % (
                    row.get("text"), json.dumps(row["back"])), b["expected"][:600])
            rp = dict(kind="fmt", input=inputs[(row["k"] - 1) // 2], style=row["style"], source=source, env=row.get("env", "unset"))
        else:
            what = envnote + "ParseDuration(%r): %s, time.ParseDuration: %s ; specification: %s" % (
                text_of(row["b"]), ("PANIC " + row.get("pmsg", "")) if row["panic"] else json.dumps(row["lib"]),
                json.dumps(row["std"]), b["expected"][:600])
            rp = dict(kind="parse", b=row["b"], source=source, env=row.get("env", "unset"))
        finding(ctx, key, what, rp)


def parse_key(kind, day):
    return "parse:%s:%s" % (kind, "day" if day else "noday")


def judge_concrete(ctx, items, rows):
    """Outside the model: ParseDuration must equal time.ParseDuration (twin string for the day unit)."""
    n = 0
    k = 0
    for it in items:
        r = rows[k]
        k += 1
        if it[0] == "std":
            ref = r["std"]
            day = False
        else:
            ref = rows[k]["std"]
            k += 1
            day = True
        n += 1
        if r["panic"]:
            kind = "panic"
        elif r["lib"] == ref:
            continue
        else:
            kind = "accept" if r["lib"]["ok"] and not ref["ok"] else "reject" if ref["ok"] and not r["lib"]["ok"] else "value"
        finding(ctx, parse_key(kind, day) + ":big",
                    "ParseDuration(%r) = %s%s but time.ParseDuration(%r) = %s" % (
                        text_of(it[1]), json.dumps(r["lib"]), " PANIC " + r.get("pmsg", "") if r["panic"] else "",
                        text_of(it[2] if day else it[1]), json.dumps(ref)),
                    dict(kind="concrete", item=list(it)))
    return n


def died(ctx, what, d, replay_obj, key):
    """The test process died inside a cell: for 'never panics' that death is the violation."""
    finding(ctx, key, "%s: the process died (rc=%s) while executing this cell: %s" % (what, d["rc"], d["tail"][-600:]), replay_obj)


# ------------------------------------------------------------------ steps
def step_walk(ctx, c, binp, graph):
    labels, nxt, init = graph
    syms = c["alphabet"]
    lts = dict(syms=[dict(name=s, bytes=X_CANDS if s == "x" else [SYM_BYTES[s]]) for s in syms], maxlen=c["maxlen"],
               init=init, next=[[n.get(s, -1) for s in syms] for n in nxt], seed=ctx.seed)
    for i, n in enumerate(nxt):
        if len(n) not in (0, len(syms)):
            raise Undecided("graph node %d has %d of %d outgoing symbols" % (i, len(n), len(syms)))
        if not n and not (labels[i]["dead"] or labels[i]["n"] == c["maxlen"]):
            raise Undecided("graph node %d has no successors but is neither dead nor at MaxLen" % i)
    lp = os.path.join(ctx.scratch, "lts.json")
    with open(lp, "w") as fh:
        json.dump(lts, fh)
    rows, dead = run_test(ctx, binp, "walk", lp, "walk")
    if dead:
        rows2, dead2 = run_test(ctx, binp, "walk", lp, "walk-careful", careful=True, timeout=3000)
        mk = (dead2 or dead)["marker"]
        s = list(mk[2:2 + int.from_bytes(mk[:2], "little")]) if len(mk) >= 2 else []
        died(ctx, "ParseDuration(%r)" % text_of(s), dead2 or dead, dict(kind="parse", b=s, source="walk"), "parse:crash")
        return
    stat = [r for r in rows if r["op"] == "walkstat"][0]
    seen_nodes, accepted, nontriv = 0, 0, 0
    spec_bad = []
    for r in rows:
        if r["op"] != "node":
            continue
        seen_nodes += 1
        exp = labels[r["node"]]
        for o in r["obs"]:
            if o["std"] != exp["std"]:
                spec_bad.append((o, exp))
                continue
            if exp["lib"]["ok"]:
                accepted += o["n"]
            if o["panic"]:
                kind = "panic"
            elif o["lib"] == exp["lib"]:
                continue
            else:
                kind = ("accept" if o["lib"]["ok"] and not exp["lib"]["ok"] else
                        "reject" if exp["lib"]["ok"] and not o["lib"]["ok"] else "value")
            finding(ctx, parse_key(kind, exp["day"]),
                        "ParseDuration(%r) = %s, time.ParseDuration = %s ; specification (graph node after these symbols): "
                        "lib %s (%d strings ending in this node behave so)" % (
                            text_of(o["ex"]), "PANIC" if o["panic"] else json.dumps(o["lib"]), json.dumps(o["std"]),
                            json.dumps(exp["lib"]), o["n"]),
                        dict(kind="parse", b=o["ex"], source="walk"))
    if spec_bad:
        o, exp = spec_bad[0]
        raise Undecided("specification's standard grammar disagrees with time.ParseDuration on %r: real %s, model %s (%d cases)" % (
            text_of(o["ex"]), json.dumps(o["std"]), json.dumps(exp["std"]), len(spec_bad)))
    if seen_nodes != len(labels):
        raise Undecided("walk visited %d of %d graph nodes" % (seen_nodes, len(labels)))
    n_acc_nodes = sum(1 for l in labels if l["lib"]["ok"])
    n_day_nodes = sum(1 for l in labels if l["lib"]["ok"] and l["day"])
    if not n_acc_nodes or not n_day_nodes:
        raise Undecided("vacuous parse graph: %d accepting nodes, %d with day unit" % (n_acc_nodes, n_day_nodes))
    bump(ctx, traces=stat["total"], evaluations=stat["total"], nontrivial=accepted, walk_strings=stat["total"], walk_accepted_strings=accepted, graph_nodes=len(labels),
                     graph_accepting_nodes=n_acc_nodes, graph_accepting_day_nodes=n_day_nodes,
                     error_text_differs_from_std=stat["errdiff"])
    ctx.sample(dict(walk=dict(strings=stat["total"], example_accepting_node=next(l for l in labels if l["lib"]["ok"] and l["day"]))))


def step_fmt(ctx, c, binp, rng):
    prod = cell_product(c["cellsets"])
    rnd = random_i64(rng, c["rand_i64"])
    inputs = prod + rnd
    ip = os.path.join(ctx.scratch, "fmt.in.ndjson")
    write_ndjson(ip, inputs)
    rows, dead = run_test(ctx, binp, "fmt", ip, "fmt")
    if dead:
        k = int.from_bytes(dead["marker"][:8], "little") if len(dead["marker"]) >= 8 else 0
        if not k:
            raise Undecided("fmt executor died outside a cell: " + dead["tail"])
        inp = inputs[(k - 1) // 2]
        died(ctx, "SmartDurationStringEx(%s)" % json.dumps(inp), dead, dict(kind="fmt", input=inp, style=["compact", "frac"][(k - 1) % 2]),
             "fmt:crash")
        return
    if len(rows) != 2 * len(inputs):
        raise Undecided("fmt executor returned %d records for %d cells" % (len(rows), 2 * len(inputs)))
    nprod = 2 * len(prod)
    bad1, _, cov = validate_chunks(ctx, c, rows[:nprod], "fmt-cells", c["chunk"])
    bad2, _, _ = validate_chunks(ctx, c, rows[nprod:], "fmt-rand", c["chunk"], cellsets=WITNESS_CELLS)
    if cov["hit"] != cov["cells"]:
        raise Undecided("cells of the specification not covered by the replay: %s" % cov)
    report_bad(ctx, rows[:nprod], bad1, inputs, "cells")
    report_bad(ctx, rows[nprod:], bad2, inputs, "random")   # k is global, inputs is the full list
    live = [r for r in rows if not r["oor"]]
    canon = sum(1 for r in live if not r["panic"] and r["back"] == r.get("stdback")) if live else 0
    bump(ctx, traces=len(live), evaluations=2 * len(live),
         nontrivial=len(set((r["i64"], r["style"]) for r in live if r["i64"] != "0")), fmt_cells_spec=cov["cells"], fmt_cells_covered=cov["hit"], fmt_records=len(live),
                     fmt_random_values=len(rnd), fmt_text_also_read_by_std=canon,
                     fmt_max_text_bytes=max([len(r.get("text", "").encode()) for r in live] or [0]))
    ctx.sample(dict(fmt=[dict(ns=r["i64"], style=r["style"], text=r.get("text"), panic=r["panic"]) for r in live[-4:]]))


def step_parse(ctx, c, binp, rng):
    strs = random_parse_strings(rng, c["rand_parse"])
    inputs = [dict(b=sym_bytes(s, rng)) for s in strs]
    ip = os.path.join(ctx.scratch, "parse.in.ndjson")
    write_ndjson(ip, inputs)
    rows, dead = run_test(ctx, binp, "parse", ip, "parse")
    if dead:
        k = int.from_bytes(dead["marker"][:8], "little") if len(dead["marker"]) >= 8 else 0
        if not k:
            raise Undecided("parse executor died outside a cell: " + dead["tail"])
        died(ctx, "ParseDuration(%r)" % text_of(inputs[k - 1]["b"]), dead, dict(kind="parse", b=inputs[k - 1]["b"]), "parse:crash")
        return
    if len(rows) != len(inputs):
        raise Undecided("parse executor returned %d records for %d strings" % (len(rows), len(inputs)))
    bad, ood, _ = validate_chunks(ctx, c, rows, "parse-rand", c["chunk"], cellsets=WITNESS_CELLS)
    report_bad(ctx, rows, bad, inputs, "random")
    # lines the model does not decide: concrete comparison
    n_ood = 0
    for ln in ood:
        r = rows[ln - 1]
        if "d" in r["syms"]:
            continue
        n_ood += 1
        if r["panic"] or r["lib"] != r["std"]:
            finding(ctx, parse_key("panic" if r["panic"] else "value", False) + ":big",
                        "ParseDuration(%r) = %s but time.ParseDuration = %s" % (text_of(r["b"]), json.dumps(r["lib"]), json.dumps(r["std"])),
                        dict(kind="concrete", item=["std", r["b"]]))
    bump(ctx, traces=len(rows), evaluations=len(rows),
         nontrivial=len(set(tuple(r["b"]) for r in rows if r["std"]["ok"] or r["lib"]["ok"])), parse_records=len(rows), parse_records_outside_model=len(ood), parse_records_accepted=sum(1 for r in rows if r["lib"]["ok"]))
    ctx.sample(dict(parse=[dict(s=text_of(r["b"]), lib=r["lib"]) for r in rows[-3:]]))
    # beyond the model's arithmetic
    items = big_strings(rng, c["big"])
    flat = []
    for it in items:
        flat.append(dict(b=it[1]))
        if it[0] == "day":
            flat.append(dict(b=it[2]))
    bp = os.path.join(ctx.scratch, "big.in.ndjson")
    write_ndjson(bp, flat)
    brows, dead = run_test(ctx, binp, "parse", bp, "big")
    if dead:
        k = int.from_bytes(dead["marker"][:8], "little") if len(dead["marker"]) >= 8 else 0
        if not k:
            raise Undecided("parse executor died outside a cell: " + dead["tail"])
        died(ctx, "ParseDuration(%r)" % text_of(flat[k - 1]["b"]), dead, dict(kind="parse", b=flat[k - 1]["b"]), "parse:crash")
        return
    n = judge_concrete(ctx, items, brows)
    bump(ctx, evaluations=n, concrete_big_strings=n, concrete_big_accepted=sum(1 for r in brows if r["lib"]["ok"]))


# ------------------------------------------------------------------ histories of calls
_hedge = re.compile(r'^(-?\d+) -> (-?\d+) \[label="(H\w+\(.*?\))",color')


def mc_hist(ctx, c, workers=4):
    """Exhaustive run of machine "hist"; returns (result, list of maximal histories as op lists)."""
    mc, cfg = gen_mc("MC", "Duration", consts(c),
                     ["SPECIFICATION Spec", "INVARIANTS Retained TextIsValue HistoryFree", "ALIAS HistAlias",
                      "CHECK_DEADLOCK FALSE"], plain=plain(c, LIB_BUF + 1, "hist"))
    dot = os.path.join(ctx.scratch, "histgraph")
    r = ctx.tlc("MC", "MC.cfg", files={"MC.tla": mc, "MC.cfg": cfg}, name="hist-mc", workers=workers, timeout=1500,
                extra=["-dump", "dot,actionlabels", dot])
    nodes, edges, inits = set(), [], []
    with open(dot + ".dot", errors="replace") as fh:
        for line in fh:
            m = _hedge.match(line)
            if m:
                edges.append((m.group(1), m.group(3).replace('\\"', '"'), m.group(2)))
                continue
            m = _nodehead.match(line)
            if m:
                nodes.add(m.group(1))
                if '",style = filled' in line:
                    inits.append(m.group(1))
    os.remove(dot + ".dot")
    if len(inits) != 1 or not edges:
        raise Undecided("hist graph dump has %d initial states / %d edges" % (len(inits), len(edges)))
    kids = {}
    for src, act, dst in edges:
        kids.setdefault(src, []).append((act, dst))
    if len(edges) != len(nodes) - 1:
        raise Undecided("hist graph is not the tree of histories: %d nodes, %d edges" % (len(nodes), len(edges)))
    hists, stack = [], [(inits[0], [])]
    while stack:
        node, path = stack.pop()
        if node not in kids:
            if len(path) != c["maxcalls"]:
                raise Undecided("hist graph: a maximal history has %d calls" % len(path))
            hists.append(path)
            continue
        for act, dst in kids[node]:
            stack.append((dst, path + [hist_op(c, act)]))
    return r, hists


def hist_op(c, label):
    name, args = vlib.parse_action(label)
    if name == "HFormat":
        return dict(o="fmt", cell=c["hcells"][args[0] - 1], style=args[1])
    if name == "HParse":
        return dict(o="parse", j=args[0])
    if name == "HDrop":
        return dict(o="drop", j=args[0])
    if name == "HParseLit":
        return dict(o="lit", b=[b for sym in c["hlits"][args[0] - 1] for b in (X_CANDS[0] if sym == "x" else SYM_BYTES[sym])])
    raise Undecided("unknown action in the hist graph: " + label)


def hist_witness(ctx, c):
    """Shared scratch handed out without copying: the model must lose a retained text (non-vacuity of Retained)."""
    mc, cfg = gen_mc("MC", "Duration", consts(c), ["SPECIFICATION Spec", "INVARIANTS Retained", "CHECK_DEADLOCK FALSE"],
                     plain=plain(c, LIB_BUF + 1, "hist", aliased=True))
    r = ctx.tlc("MC", "MC.cfg", files={"MC.tla": mc, "MC.cfg": cfg}, name="hist-witness", workers=1, timeout=600, allow_fail=True)
    if r.invariant_violated != ["Retained"]:
        raise Undecided("witness run (Aliased) did not violate exactly Retained: %s\n%s" % (r.invariant_violated, r.out[-2000:]))
    ctx.extra["witness_aliased_scratch"] = "Retained violated (a text that aliases a shared scratch array is lost by the next formatting call)"


HIST_LITS = ["1d", "1.5h", "x", "", "-1d12h", "1h1d", "7d7h7m7s7ms7µs7ns", "0", "106751d23h47m16s854ms775µs807ns", "1s "]


def random_histories(rng, c):
    """Seeded long histories: interleaved styles, repeated values, parses of retained texts in between,
    unrelated parses, drops; 'hoarders' keep very many texts alive; 'pairs' = two live results of all style pairs."""
    prod = cell_product(c["cellsets"])
    prod = [p for p in prod if in_range(p)]
    pool = rng.sample(prod, min(len(prod), 400)) + random_i64(rng, 400) + [dict(cell=x) for x in HCELLS]
    styles = ["compact", "frac"]

    def fmt(v, sty=None):
        return dict(dict(o="fmt", style=sty or rng.choice(styles)), **v)

    out = []
    for _ in range(c["hist_mixed"]):
        ops, held, used = [], 0, []
        cap = rng.choice([1, 2, 3, 4, 6, 8, 12, 16])
        for _ in range(rng.randint(*c["hist_len"])):
            r = rng.random()
            if held > cap or (held and r < 0.08):
                ops.append(dict(o="drop", j=rng.randint(1, held)))
                held -= 1
            elif r < 0.60 or not held:
                v = rng.choice(used) if used and rng.random() < 0.3 else rng.choice(pool)
                used.append(v)
                ops.append(fmt(v))
                held += 1          # (cells outside int64 are not formatted by the executor; none is in the pool)
            elif r < 0.90:
                ops.append(dict(o="parse", j=rng.randint(1, held)))
            else:
                ops.append(dict(o="lit", b=list(rng.choice(HIST_LITS).encode("utf-8"))))
        out.append(ops)
    n_hoard, size = c["hist_hoard"]
    for _ in range(n_hoard):
        vals = [rng.choice(pool) for _ in range(size // 2)]
        vals += [rng.choice(vals) for _ in range(size - len(vals))]          # repeated values
        rng.shuffle(vals)
        out.append([fmt(v) for v in vals] + [dict(o="parse", j=j) for j in rng.sample(range(1, size + 1), 6)])
    for _ in range(c["hist_pairs"]):
        a, b = rng.choice(pool), rng.choice(pool)
        if rng.random() < 0.2:
            b = a
        out.append([fmt(a), fmt(b), dict(o="parse", j=1), dict(o="parse", j=2), fmt(a), dict(o="parse", j=rng.randint(1, 3))])
    return out


def in_range(v):
    if "i64" in v:
        return True
    cl = v["cell"]
    mag = ((((cl["d"] * 24 + cl["h"]) * 60 + cl["m"]) * 60 + cl["s"]) * 10**9 + cl["ms"] * 10**6 + cl["us"] * 1000 + cl["ns"])
    return (mag <= MAXI or (cl["neg"] and mag == -MINI)) and not (cl["neg"] and mag == 0)


def hist_chunks(rows, budget):
    """Whole histories per chunk; cost of a record = 1 + retained texts looked at."""
    chunks, cur, cost = [], [], 0
    for r in rows:
        if r["k"] == 1 and cost >= budget:
            chunks.append(cur)
            cur, cost = [], 0
        cur.append(r)
        cost += 1 + len(r["held"])
    if cur:
        chunks.append(cur)
    return chunks


def validate_hist(ctx, c, rows, name, budget, parallel=5):
    """TLC judges recorded histories; returns [(row, bad record)]."""
    parts = hist_chunks(rows, budget)
    found = []
    for g in range(0, len(parts), parallel):
        grp = list(range(g, min(g + parallel, len(parts))))
        rs = par(*[(lambda j=j: validate(ctx, c, parts[j], "%s-%d" % (name, j), WITNESS_CELLS)) for j in grp])
        for j, (bad, _, _) in zip(grp, rs):
            found += [(parts[j][b["line"] - 1], b) for b in bad]
    return found


def describe_hist(row):
    cl, rt = row["call"], row["ret"]
    if cl["o"] == "fmt":
        call = "SmartDurationStringEx(%s ns, frac=%s) %s" % (cl["i64"], cl["style"] == "frac",
                                                             "PANIC " + rt["pmsg"] if rt["panic"] else "returned %r" % rt["text"])
    elif cl["o"] == "parse":
        call = "ParseDuration(retained text #%d) = %s" % (cl["j"], "PANIC " + rt["pmsg"] if rt["panic"] else json.dumps(rt["res"]))
    elif cl["o"] == "lit":
        call = "ParseDuration(%r) = %s" % (text_of(cl["b"]), "PANIC " + rt["pmsg"] if rt["panic"] else json.dumps(rt["res"]))
    else:
        call = "the caller drops retained text #%d" % cl["j"]
    return "call %d of the history: %s; retained texts as the caller sees them now: %s" % (
        row["k"], call, json.dumps([[x["text"], x["back"]] for x in row["held"]], ensure_ascii=False)[:700])


def report_hist(ctx, found, hists, h0, variant, g=0, race=False):
    seen = set()
    for row, b in found:
        if row["h"] in seen and not b["key"].startswith("spec:"):
            continue               # one finding per history: later records of a broken history are consequences
        seen.add(row["h"])
        if b["key"].startswith("spec:"):
            raise Undecided("the specification disagrees with the harness on a history record (%s): %s; expected %s" % (
                b["key"], json.dumps(row, ensure_ascii=False)[:800], b["expected"][:800]))
        key = b["key"] + (":concurrent" if variant != "sequential" else "")
        finding(ctx, key, "%s history: %s ; specification: %s" % (variant, describe_hist(row), b["expected"][:700]),
                dict(kind="hist", history=hists[row["h"] - h0], goroutines=g, race=race))


def hist_input(ctx, hists, name, h0=1):
    ip = os.path.join(ctx.scratch, name + ".in.ndjson")
    write_ndjson(ip, [dict(h=h0 + i, ops=ops) for i, ops in enumerate(hists)])
    return ip


def by_history(rows):
    out = {}
    for r in rows:
        out.setdefault(r["h"], []).append(r)
    return out


def run_sequential(ctx, c, binp, hists, name):
    ip = hist_input(ctx, hists, name)
    rows, dead = run_test(ctx, binp, "hist", ip, name)
    if dead:
        k = int.from_bytes(dead["marker"][:8], "little") if len(dead["marker"]) >= 8 else 0
        if not k:
            raise Undecided("hist executor died outside a call: " + dead["tail"])
        for ops in hists:
            if k <= len(ops):
                died(ctx, "history, call %d (%s)" % (k, json.dumps(ops[k - 1])), dead, dict(kind="hist", history=ops, goroutines=0, race=False),
                     "hist:crash")
                return None, ip
            k -= len(ops)
        raise Undecided("hist executor died after the last call: " + dead["tail"])
    if len(rows) != sum(len(h) for h in hists):
        raise Undecided("hist executor returned %d records for %d calls" % (len(rows), sum(len(h) for h in hists)))
    return rows, ip


def run_concurrent(ctx, c, binp, ip, hists, seq_rows, name, race=False):
    """The same histories, several goroutines at once.  Returns number of histories compared."""
    g = c["goroutines"]
    rows, dead = run_test(ctx, binp, "conc", ip, name, env_extra=dict(C20_G=str(g)))
    variant = "concurrent (%d goroutines%s)" % (g, ", -race build" if race else "")
    if dead:
        racy = "DATA RACE" in dead["out"]
        if racy and re.search(r"internal/times\.(?!c20|TestC20)\w", dead["out"]):      # a frame of the library, not of the injected test
            at = dead["out"].find("WARNING: DATA RACE")
            finding(ctx, "hist:race", "the race detector reports a data race inside the duration helpers when %d goroutines "
                    "format/parse their own values: %s" % (g, dead["out"][at:at + 1500]),
                    dict(kind="hist", history=hists[-1], goroutines=g, race=True))
        if not dead["complete"]:
            if racy:
                return 0
            died(ctx, variant, dead, dict(kind="hist", history=hists[-1], goroutines=g, race=race), "hist:crash:concurrent")
            return 0
        if not racy and dead["rc"] != 0:
            raise Undecided("%s run failed: %s" % (variant, dead["tail"]))
    if len(rows) != len(seq_rows):
        raise Undecided("%s run returned %d records, the sequential one %d" % (variant, len(rows), len(seq_rows)))
    seq, con = by_history(seq_rows), by_history(rows)
    differ = [h for h in seq if con.get(h) != seq[h]]
    if differ:
        # the specification judges every history that did not come out as in the sequential run
        rerun = [r for h in differ[:400] for r in con[h]]
        found = validate_hist(ctx, c, rerun, name + "-judge", c["hist_chunk"])
        report_hist(ctx, found, hists, 1, variant, g, race)
        bump(ctx, **{name + "_histories_differing_from_sequential": len(differ),
                     name + "_differing_records_rejected_by_spec": len(found)})
    return len(seq)


def step_hist(ctx, c, binp, race_bin, tree, rng):
    rnd = [h for h in random_histories(rng, c) if all(o["o"] != "fmt" or in_range(o) for o in h)]
    hists = tree + rnd
    rows, ip = run_sequential(ctx, c, binp, hists, "hist")
    if rows is None:
        return
    found = validate_hist(ctx, c, rows, "hist", c["hist_chunk"])
    report_hist(ctx, found, hists, 1, "sequential")
    n_conc = run_concurrent(ctx, c, binp, ip, hists, rows, "conc")
    n_race = 0
    if race_bin:
        # a slice of the tree + all random histories (the detector is slow)
        sub = tree[::max(1, len(tree) // 1500)] + rnd
        rows2, ip2 = run_sequential(ctx, c, binp, sub, "hist-r")
        if rows2 is not None:
            n_race = run_concurrent(ctx, c, race_bin, ip2, sub, rows2, "conc-race", race=True)
    live2 = set()
    for h in hists:
        held = mx = 0
        for o in h:
            held += 1 if o["o"] == "fmt" else -1 if o["o"] == "drop" else 0
            mx = max(mx, held)
        if mx >= 2:
            live2.add(json.dumps(h, sort_keys=True))
    looks = sum(len(r["held"]) for r in rows)
    bump(ctx, traces=len(hists) + n_conc + n_race, evaluations=len(rows) + looks, nontrivial=len(live2),
         hist_tree_histories=len(tree), hist_random_histories=len(rnd), hist_calls=len(rows),
         hist_retained_text_observations=looks, hist_max_live_texts=max([len(r["held"]) for r in rows] or [0]),
         hist_concurrent_histories=n_conc, hist_goroutines=c["goroutines"],
         hist_race_build="%d histories, %d goroutines" % (n_race, c["goroutines"]) if race_bin else "not available (go test -c -race failed)")
    ctx.sample(dict(history=[dict(call=r["call"]["o"], arg=r["call"]["i64"] or r["call"]["j"], style=r["call"]["style"],
                                  retained=[x["text"] for x in r["held"]]) for r in rows[-6:]]))



# ------------------------------------------------------------------ the environment dimension
ENV_WITNESS_CELLS = dict(d=[0], h=[0], m=[0], s=[0, 1], ms=[0], us=[0, 1, 775], ns=[0, 1, 808])


def env_witness(ctx, c):
    """The micro sign spelled by locale: the model must lose EnvFree and RoundTrip (non-vacuity of the env dimension)."""
    def one(inv):
        mc, cfg = gen_mc("MC", "Duration", consts(c, ENV_WITNESS_CELLS), ["SPECIFICATION Spec", "INVARIANTS " + inv, "CHECK_DEADLOCK FALSE"],
                         plain=plain(c, LIB_BUF + 1, "fmt", locale_micro=True))
        r = ctx.tlc("MC", "MC.cfg", files={"MC.tla": mc, "MC.cfg": cfg}, name="env-witness-" + inv, workers=1, timeout=600,
                    allow_fail=True, heap="2g")
        if r.invariant_violated != [inv]:
            raise Undecided("witness run (LocaleMicro) did not violate exactly %s: %s\n%s" % (inv, r.invariant_violated, r.out[-2000:]))
    par(lambda: one("EnvFree"), lambda: one("RoundTrip"))
    # ... and without the switch the same small space is clean in every environment
    mc_fmt(ctx, c, LIB_BUF + 1, cellsets=ENV_WITNESS_CELLS, name="env-ideal", workers=1)
    ctx.extra["witness_locale_micro"] = ("EnvFree and RoundTrip violated (micro sign spelled 'u' in the non-UTF-8 environments %s while two "
                                         "bytes stay reserved below a second)" % sorted(set(NO_UTF8) & set(c.get("envs", ENVS))))


def env_inputs(c, rng):
    """Cells run in every environment: everything below one second of the cell space (all ms/us/ns boundary
    combinations, both signs), the boundary values of every unit and of int64, seeded random values."""
    cs = dict(c["cellsets"], d=[0], h=[0], m=[0], s=[0])
    sub = [p for p in cell_product(cs) if in_range(p)]
    nb = len(random_i64(rng, 0))                     # the fixed boundary values come first
    return sub + [dict(cell=x) for x in HCELLS] + random_i64(rng, nb + c["env_rand"])


def step_env(ctx, c, binp, rng):
    names = [n for n in c.get("envs", ENVS) if n != "unset"]
    inputs = env_inputs(c, rng)
    ip = os.path.join(ctx.scratch, "env.fmt.in.ndjson")
    write_ndjson(ip, inputs)
    strs = random_parse_strings(rng, len(BOUNDARY_STRINGS) + c["env_parse"])
    pin = [dict(b=sym_bytes(s_, rng)) for s_ in strs]
    pp = os.path.join(ctx.scratch, "env.parse.in.ndjson")
    write_ndjson(pp, pin)

    def one(n):
        return run_test(ctx, binp, "fmt", ip, "envfmt-" + n, envname=n), run_test(ctx, binp, "parse", pp, "envparse-" + n, envname=n)
    res = par(*[(lambda n=n: one(n)) for n in ["unset"] + names])
    frows, prows = [], []
    texts = {}
    for n, ((fr, fdead), (pr, pdead)) in zip(["unset"] + names, res):
        for rows_, dead, ins, kind, stride in ((fr, fdead, inputs, "fmt", 2), (pr, pdead, pin, "parse", 1)):
            if dead:
                k = int.from_bytes(dead["marker"][:8], "little") if len(dead["marker"]) >= 8 else 0
                if not k:
                    raise Undecided("%s executor died outside a cell in environment %s: %s" % (kind, n, dead["tail"]))
                inp = ins[(k - 1) // stride]
                died(ctx, "in process environment %s %s: %s(%s)" % (n, json.dumps(ENVS[n]), kind, json.dumps(inp)[:300]), dead,
                     dict(kind=kind, env=n, **(dict(input=inp, style=["compact", "frac"][(k - 1) % 2]) if kind == "fmt" else dict(b=inp["b"]))),
                     kind + ":crash")
                return
            if len(rows_) != stride * len(ins):
                raise Undecided("%s executor returned %d records for %d inputs in environment %s" % (kind, len(rows_), len(ins), n))
        for r in fr:
            texts.setdefault((r["i64"], r["style"]), set()).add(r.get("text"))
        if n != "unset":          # (the environment "unset" is what every other step runs in; here it is the reference)
            frows += fr
            prows += pr
    bad, _, cov = validate_chunks(ctx, c, frows, "env-fmt", c["chunk"], cellsets=WITNESS_CELLS)
    if set(cov["envs"]) != set(names):
        raise Undecided("environments not covered by the replay: %s of %s" % (cov["envs"], names))
    report_bad(ctx, frows, bad, inputs, "env")
    badp, ood, _ = validate_chunks(ctx, c, prows, "env-parse", c["chunk"], cellsets=WITNESS_CELLS)
    report_bad(ctx, prows, badp, pin, "env")
    for ln in ood:                # outside the model's arithmetic: the concrete comparison decides, as in step_parse
        r = prows[ln - 1]
        if "d" not in r["syms"] and (r["panic"] or r["lib"] != r["std"]):
            finding(ctx, parse_key("panic" if r["panic"] else "value", False) + ":big",
                    "in process environment %s: ParseDuration(%r) = %s but time.ParseDuration = %s" % (
                        r["env"], text_of(r["b"]), json.dumps(r["lib"]), json.dumps(r["std"])),
                    dict(kind="concrete", item=["std", r["b"]], env=r["env"]))
    live = [r for r in frows if not r["oor"]]
    differ = sorted(k for k, v in texts.items() if len(v) > 1)
    bump(ctx, traces=len(live) + len(prows), evaluations=2 * len(live) + len(prows),
         env_names={n: ENVS[n] for n in ["unset"] + names}, env_fmt_cells_per_environment=len(inputs) * 2,
         env_sub_second_records=sum(1 for r in live if all(r["cell"][k] == 0 for k in "dhms")),
         env_parse_strings_per_environment=len(pin), env_fmt_records=len(live), env_parse_records=len(prows),
         env_texts_differing_between_environments=len(differ))
    if differ:
        # not forbidden by the statement as long as every text reads back (judged above); shown in the evidence
        ctx.sample(dict(text_depends_on_environment=[dict(ns=k[0], style=k[1], texts=sorted(map(str, texts[k]))) for k in differ[:4]]))


def witness(ctx, c):
    """With the library's array size the model must overrun - and only in the class the known finding names."""
    r = mc_fmt(ctx, c, LIB_BUF, cellsets=WITNESS_CELLS, name="fmt-witness", workers=2, allow_fail=True)
    if r.invariant_violated != ["InBuffer"]:
        raise Undecided("witness run (BufLen=%d) did not violate exactly InBuffer: %s\n%s" % (LIB_BUF, r.invariant_violated, r.out[-2000:]))
    ctx.extra["witness_buflen_%d" % LIB_BUF] = "InBuffer violated (as the model predicts for the 33-byte texts)"


def run(ctx, replay):
    c = config(ctx.quick())
    if replay:
        return do_replay(ctx, c, replay)
    rng = random.Random(ctx.seed * 104729 + 20)
    (binp, race_bin), rf, _, (rp, graph), (rh, tree), _, _ = par(
        lambda: (build_test(ctx), build_test(ctx, race=True)),
        lambda: mc_fmt(ctx, c, LIB_BUF + 1, workers=6),
        lambda: witness(ctx, c),
        lambda: mc_parse(ctx, c, workers=6),
        lambda: mc_hist(ctx, c),
        lambda: hist_witness(ctx, c),
        lambda: env_witness(ctx, c))
    for r in (rf, rp, rh):        # exhaustive runs whose invariants held on the model
        ctx.states += r.distinct
        ctx.transitions += r.generated
    r1, r2, r3, r4 = [random.Random(rng.random()) for _ in range(4)]      # drawn here: the steps run concurrently
    par(lambda: step_walk(ctx, c, binp, graph),
        lambda: step_fmt(ctx, c, binp, r1),
        lambda: step_parse(ctx, c, binp, r2),
        lambda: step_hist(ctx, c, binp, race_bin, tree, r3),
        lambda: step_env(ctx, c, binp, r4))
    ctx.assumptions += [
        "float64 rounding of fractions and the 64-bit overflow thresholds are outside TLC's arithmetic: inside the "
        "model's domain (<=9 integer digits, <=9 fraction digits) the exact floor is used and every record is also "
        "checked against time.ParseDuration; outside it only the concrete comparison with time.ParseDuration decides",
        "bytes other than the duration alphabet are one class 'x', concretised per occurrence from a fixed list",
        "the scratch array size %d of dur.go is a constant of the check (witness run)" % LIB_BUF,
        "process environment: every run is made with the variables %s removed except the ones the named environment sets "
        "(the injected test reports what it saw and the check compares); walk / fmt / parse / hist steps run in 'unset', the "
        "env step repeats the sub-second cells, boundary values, seeded values and strings in every other environment; "
        "a text that differs between environments but reads back is not a violation (counted in the evidence)" % ", ".join(ENV_VARS),
        "histories: the caller's view of a retained text is taken right after every call of the same goroutine; "
        "concurrent runs are judged per goroutine (the model has no shared state), scheduling is the Go runtime's",
    ]
    return ctx.finish(rule="fmt: every cell of the specification's boundary product x {compact, frac} + seeded random int64 "
                           "values; env: all cells below one second, boundary and seeded values x both styles and boundary + seeded "
                           "strings again in every other process environment of ENVS (locale variables, TZ); parse: every string <= MaxLen over the alphabet (paths of the TLC graph) + boundary and "
                           "seeded random grammar strings; histories: every maximal history of the TLC "
                           "tree (<= MaxCalls calls over HCells x styles, parse/drop of retained texts) + seeded random long "
                           "histories, sequential and concurrent; non-trivial = distinct non-zero formatted values, distinct "
                           "strings the specification accepts and distinct histories with >= 2 texts alive at once",
                      exhaustive=True)


def do_replay(ctx, c, path):
    with open(path) as fh:
        rp = json.load(fh)["replay"]
    binp = build_test(ctx)
    if rp["kind"] == "fmt":
        ip = os.path.join(ctx.scratch, "r.in.ndjson")
        write_ndjson(ip, [rp["input"]])
        rows, dead = run_test(ctx, binp, "fmt", ip, "r", envname=rp.get("env", "unset"))
        if dead:
            died(ctx, "SmartDurationStringEx(%s)" % json.dumps(rp["input"]), dead, rp, "fmt:crash")
        else:
            rows = [r for r in rows if r["style"] == rp.get("style", r["style"])]
            bad, _, _ = validate(ctx, c, rows, "replay", cellsets=WITNESS_CELLS)
            for r in rows:
                r["k"] = 1
            report_bad(ctx, rows, bad, [rp["input"]], "replay")
    elif rp["kind"] == "parse":
        ip = os.path.join(ctx.scratch, "r.in.ndjson")
        write_ndjson(ip, [dict(b=rp["b"])])
        rows, dead = run_test(ctx, binp, "parse", ip, "r", envname=rp.get("env", "unset"))
        if dead:
            died(ctx, "ParseDuration(%r)" % text_of(rp["b"]), dead, rp, "parse:crash")
        else:
            bad, _, _ = validate(ctx, c, rows, "replay", cellsets=WITNESS_CELLS)
            report_bad(ctx, rows, bad, None, "replay")
    elif rp["kind"] == "concrete":
        it = rp["item"]
        flat = [dict(b=it[1])] + ([dict(b=it[2])] if it[0] == "day" else [])
        ip = os.path.join(ctx.scratch, "r.in.ndjson")
        write_ndjson(ip, flat)
        rows, dead = run_test(ctx, binp, "parse", ip, "r", envname=rp.get("env", "unset"))
        if dead:
            died(ctx, "ParseDuration(%r)" % text_of(it[1]), dead, rp, "parse:crash")
        else:
            judge_concrete(ctx, [tuple(it)], rows)
    elif rp["kind"] == "hist":
        g = int(rp.get("goroutines") or 0)
        if g:
            c = dict(c, goroutines=g)
        # concurrent: many copies of the history, so that the goroutines really overlap
        hists = [rp["history"]] * (max(4 * g, min(250 * g, 40000 // max(1, len(rp["history"])))) if g else 1)
        rows, ip = run_sequential(ctx, c, binp, hists, "r")
        if rows is not None:
            report_hist(ctx, validate_hist(ctx, c, rows, "replay", c["hist_chunk"]), hists, 1, "sequential")
            if g:
                rb = build_test(ctx, race=True) if rp.get("race") else binp
                if rb is None:
                    raise Undecided("no -race build available for this replay")
                run_concurrent(ctx, c, rb, ip, hists, rows, "r-conc", race=bool(rp.get("race")))
    else:
        raise Undecided("unknown replay kind %r" % rp.get("kind"))
    ctx.traces += 1
    ctx.evaluations += 1
    return ctx.finish(rule="replay of one recorded cell", exhaustive=False)
