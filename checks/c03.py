"""C03: severity routing and writer-set configuration follow the documented model."""
import corelib

CUSTOMS = [dict(v=13, title="NOTICE13", treat=4, err=False), dict(v=14, title="SWELL14", treat=2, err=True),
           dict(v=-21, title="NEGERR", treat=4, err=True), dict(v=300, title="BIGERR", treat=-1, err=True),
           dict(v=70, title="BIGNORM", treat=2, err=False), dict(v=64, title="SIXTYFOUR", treat=-1, err=True)]
TREAT = {9: 4, 10: 4, 11: 2, 13: 4, 14: 2, -21: 4, 70: 2}
ERRDEV = [0, 1, 2, 3, 11, 14, -21, 300, 64]
# probe severities: normal, error class, warn, always, off, custom normal, custom error-device, fail, debug,
# custom levels with negative / large values with and without the error device, an unregistered value
PROBES = [4, 2, 3, 8, 7, 13, 14, 11, 5, -21, 300, 70, 64, 99]
OBS = ["dest"]
WANTS = [3, 4, 7, 8, 49]   # writer ids w with (w-1)%4 in {2,3} ask to be told the severity (harness/rec.go); 49 is such a
                           # writer wrapped by the application with slog.NewLogWriter


OPT = lambda k, a, b=0: dict(k=k, a=a, b=b)
OPT_LISTS = [[], [OPT("Writer", 1), OPT("AddWriter", 3)], [OPT("ErrorWriter", 4), OPT("AddLevelWriter", 3, 4)],
             [OPT("AddWriter", 1), OPT("ResetWriters", 0), OPT("AddErrorWriter", 4)],
             [OPT("AddLevelWriter", 3, 4), OPT("RemoveLevelWriter", 3, 4), OPT("AddLevelWriter", 1, 4)],
             [OPT("AddLevelWriter", 3, 4), OPT("ResetLevelWriter", 0, 4)],
             [OPT("AddLevelWriter", 3, 4), OPT("ResetLevelWriters", 0), OPT("AddWriter", 3)],
             # writers for two severities, then the reset of ONE of them as an option
             [OPT("AddLevelWriter", 3, 4), OPT("AddLevelWriter", 1, 2), OPT("ResetLevelWriter", 0, 4)]]


def base(quick):
    return dict(init_level=5, names=[], bool_lists=[[]], layouts=[""], opt_lists=OPT_LISTS, probe_sevs=PROBES,
                customs=CUSTOMS, treat=TREAT, errdev=ERRDEV, wants_level=WANTS, max_list=2)


def config(quick):
    """One logger, every writer operation as a method: the complete graph is replayed."""
    # writer 41 is a real *os.File (what an application's log file or pipe is)
    if quick:
        ws_n, ws_e, lw = [1, 3, 41], [4, 49], [(3, 4)]
    else:
        ws_n, ws_e, lw = [1, 3, 41], [2, 4, 49], [(1, 4), (4, 4), (3, 14)]
    wl = sorted(set(v for _, v in lw))
    sa = {
        "Writer": [(w, 0) for w in ws_n + [0]], "AddWriter": [(w, 0) for w in ws_n + [0]], "RemoveWriter": [(w, 0) for w in ws_n + [0]],
        "ErrorWriter": [(w, 0) for w in ws_e + [0]], "AddErrorWriter": [(w, 0) for w in ws_e],
        "RemoveErrorWriter": [(w, 0) for w in ws_e + [0]],
        "AddLevelWriter": lw + [(0, wl[0])], "RemoveLevelWriter": lw,
        "ResetLevelWriter": [(0, v) for v in wl], "ResetLevelWriters": [(0, 0)], "ResetWriters": [(0, 0)],
    }
    c = base(quick)
    c.update(max_loggers=1, setter_args=sa, acts=["Set"], wlevels=wl)
    return c


def config_uncmp(quick):
    """Destinations whose Go type cannot be compared with == (a struct value holding a slice; writer ids 37, 38):
    set and add work as for any writer, a remove call that names one changes nothing and must not panic.
    The default destinations are members of the lists like any other: RemoveWriter(os.Stdout) /
    RemoveErrorWriter(os.Stderr) (ids -1 / -2) delete them."""
    sa = {
        "Writer": [(1, 0), (37, 0)], "AddWriter": [(37, 0), (38, 0)], "RemoveWriter": [(1, 0), (37, 0), (38, 0), (-1, 0)],
        "ErrorWriter": [(37, 0)], "AddErrorWriter": [(4, 0)], "RemoveErrorWriter": [(37, 0), (4, 0), (-2, 0)],
        "AddLevelWriter": [(37, 4)], "RemoveLevelWriter": [(37, 4)], "ResetWriters": [(0, 0)],
    }
    c = base(quick)
    c.update(max_loggers=1, setter_args=sa, acts=["Set"], wlevels=[4], opt_lists=[[]])
    return c


def config_new(quick):
    """The same operations as New(...) options (and With*) creating children of a configured parent."""
    c = base(quick)
    c.update(max_loggers=3, setter_args={"Writer": [(1, 0)], "ErrorWriter": [(4, 0)]}, acts=["New", "With"], wlevels=[4, 2])
    return c


def config_reg(quick):
    """The level registry is part of the routing state: levels are registered with / without the error device
    (or refused) in the middle of a history, AFTER records of that severity were routed already."""
    regs = [dict(v=20, e=True), dict(v=20), dict(v=21, e=True, clash=True), dict(v=21, t=2), dict(v=-9, e=True, t=4)]
    return dict(init_level=5, names=[], bool_lists=[[]], layouts=[""], opt_lists=[[]], probe_sevs=[4, 2, 20, 21, -9, 17],
                customs=[], reg_calls=regs, wants_level=WANTS, max_list=1, max_loggers=1,
                setter_args={"Writer": [(1, 0)], "ErrorWriter": [(4, 0)]} if quick else
                {"Writer": [(1, 0)], "ErrorWriter": [(4, 0)], "AddLevelWriter": [(3, 20)], "ResetWriters": [(0, 0)]},
                acts=["Set", "Register"], wlevels=[] if quick else [20])


def rand_config(c):
    r = dict(c)
    ws = [1, 2, 3, 4, 5, 8, 0, 41, 42, 49, 50, 37, 38]
    wl = [4, 14, 2, 8]
    r["wlevels"] = wl
    r["setter_args"] = {
        "Writer": [(w, 0) for w in ws], "AddWriter": [(w, 0) for w in ws], "RemoveWriter": [(w, 0) for w in ws],
        "ErrorWriter": [(w, 0) for w in ws], "AddErrorWriter": [(w, 0) for w in ws], "RemoveErrorWriter": [(w, 0) for w in ws],
        "AddLevelWriter": [(w, v) for w in ws for v in wl], "RemoveLevelWriter": [(w, v) for w in ws for v in wl],
        "ResetLevelWriter": [(0, v) for v in wl], "ResetLevelWriters": [(0, 0)], "ResetWriters": [(0, 0)],
        "Level": [(4, 0), (7, 0)],
    }
    r["acts"] = ["Set", "New", "With", "NewDetached"]
    r["max_loggers"] = 2
    return r


def explain(ev, b):
    """Signature: which writer operation was the last call, on which kind of writer."""
    kinds = {0: "plain", 1: "lw", 2: "ls", 3: "pls"}
    k = ev["k"] if ev["op"] in ("Set", "With") else ev["op"]
    wk = "uncomparable" if 37 <= ev["a"] <= 40 and "Writer" in k else "nlw" if ev["a"] >= 49 and "Writer" in k else "file" if ev["a"] >= 41 and "Writer" in k else kinds[(ev["a"] - 1) % 4] if ev["a"] > 0 and ("Writer" in k) and not k.startswith("Reset") else "-"
    notes = []
    for li, o in enumerate(ev.get("obs", []), 1):
        for d in o.get("dest", []):
            told = [e for e in d["evs"] if e["k"] == "s"]
            wrote = [e["w"] for e in d["evs"] if e["k"] == "w"]
            notes.append("logger %d sev %d -> writes %s notified %s" % (li, d["r"], wrote, [(e["w"], e.get("r", 0)) for e in told]))
    return [("%s:%s" % (k, wk), "; ".join(notes)[:700] + " ; model expected " + b["expected"][:700])]


def run(ctx, replay):
    c = config(ctx.quick())
    rc = rand_config(c)
    if replay:
        return corelib.replay_core(ctx, replay, rc, OBS)
    jobs = []          # the graphs are independent: they run side by side
    jobs.append(lambda: corelib.run_core(ctx, c, invariants=["RouteOK", "TreeOK"], properties=["Isolation"], obs=OBS,
                     rand_count=40 if ctx.quick() else 500, rand_depth=25 if ctx.quick() else 40,
                     rand_loggers=4 if ctx.quick() else 8, rand_cfg=rc, key_fn=explain, tag="set"))
    jobs.append(lambda: corelib.run_core(ctx, config_new(ctx.quick()), invariants=["RouteOK", "TreeOK"], properties=["Isolation"], obs=OBS,
                     rand_count=0, rand_depth=0, rand_loggers=3, key_fn=explain, tag="new"))
    jobs.append(lambda: corelib.run_core(ctx, config_reg(ctx.quick()), invariants=["RouteOK", "TreeOK"], properties=["Isolation", "RegistryLocal"], obs=OBS,
                     rand_count=10 if ctx.quick() else 200, rand_depth=8 if ctx.quick() else 14, rand_loggers=1, key_fn=explain, tag="reg"))
    jobs.append(lambda: corelib.run_core(ctx, config_uncmp(ctx.quick()), invariants=["RouteOK", "TreeOK"], properties=["Isolation"], obs=OBS,
                     rand_count=0, rand_depth=0, rand_loggers=1, key_fn=explain, tag="uncmp", alt_env=False))
    corelib.run_jobs(jobs)
    ctx.assumptions += ["destinations are compared as bags: the order of Write calls across destinations is not part of the property",
                        "removal of a writer that is in the list twice may remove one or all occurrences (statement silent)",
                        "fd 1/2 of the worker process are files: the stdout/stderr fallback is observed for real"]
    return ctx.finish(rule="every transition of the exhaustive MC graph (all set/add/remove/reset writer operations as methods "
                           "and New options over 2-4 writers of four kinds) executed; after each call one probe record per "
                           "severity class (9) on every logger, per-writer Write/SetLevel events compared by TLC with Dest() "
                           "and NotifyOK; + seeded random histories over 6 writers / 4 level classes",
                      exhaustive=True)
