"""C06: see checks/encoderlib.py (family "encoder": spec/Encoder.tla, spec/EncoderTrace.tla, harness/fam_encoder*.go)."""
import encoderlib


def run(ctx, replay):
    return encoderlib.run_format(ctx, "color", replay)
