"""C19: the read/write interface of slog.PrintCtx is observationally equal to bytes.Buffer.

Pipeline (spec/Buffer.tla is the oracle, see its header):
  1. TLC explores the exhaustive model (every listed call x every argument of the constant sets
     from every state) with the invariants of Buffer.tla and dumps the labelled state graph; the
     UTF-8 tables are cross-checked as ASSUMEs.  A second, larger configuration is model-checked
     without dump in the thorough tier.
  2. a cover of that graph (every transition at least once) becomes scripted behaviours; seeded
     random drivers (sizes around the small-buffer / MinRead / slide / reallocate thresholds, short
     and failing writers, failing and negative readers) add long histories.
  3. the Go worker executes everything on a real PrintCtx and, call for call, on bytes.Buffer and
     records one log per implementation (+ a lock-step comparison as a cross-check).
  4. TLC validates the PrintCtx log against BufferTrace (same operators as the model): a rejected
     line is a finding.  The bytes.Buffer log is validated against the same specification: a
     rejection there is a specification bug -> undecided (exit 2), never a violation.

Ownership / aliasing of byte slices is part of the model (variable `held` of Buffer.tla): the worker
keeps the very slices and strings the calls return (and the slices it passed to Write/WriteString),
logs their current contents after every step and stores through them (Poke / Fill / scr); TLC
decides which of them must still be intact (owned copies for ever, Bytes()/Next() aliases until the
next modifying call).  The exhaustive graph contains the caller's stores as Poke edges.

Collaborators (Buffer.tla, COLLABORATORS): what the writer of WriteTo / the reader of ReadFrom receive
(number and lengths of the calls) is logged and compared; collaborators may call methods of the buffer
they serve from inside Write / Read (nested calls: logged inside the line of the outer call, each with
its own results and the capacity inputs of the window model).  Drivers: the graph actions WriteToRe /
ReadFromRe (nested scripts = constant Nests), collab_behaviours() (grid of nested calls x constructors x
orders x answers; plans that fail / short-write / answer (0, nil) on the k-th call; contents of 65535 ..
200000 bytes) and the random profile "re".  A line the model marks undefined for bytes.Buffer ends the
checking of its trace without a verdict (SKIPPED).

Records (Buffer.tla, RECYCLING): the encoder a marshaller is handed is a pooled object.  Behaviours with the
constructor "marshal" run inside a marshaller the real library calls while it formats a record; the step
"Recycle" ends that record and logs the next one through the same logger, the calls that follow run on the
encoder handed to the marshaller of the new record.  The model's outcome of the step is New(prefix of the new
record): compared are what the marshaller sees on entry (Len / String / Bytes, a panic of those, the slices
the caller still owns) and, through the calls that follow, the hidden state (last read, read point).
Drivers: the graph action Recycle (every (buffer state, Recycle) transition + identification probes, each as
its own two-record history: Reset; Write(state's data); path; Recycle; probe), recycle_behaviours() (what the
first record's marshaller did x length of the next record's message x probes, also over three records) and
the random drivers (70 % of the "marshal" traces span 2..4 records).  The run is undecided if the pool did
not hand the same object back often enough.
"""
import bisect
import collections
import filecmp
import json
import os
import random
import re
import sys
import threading
import time

from vlib import SPEC, Undecided
from tlagen import gen_mc, Raw

A, NL, C3, A9, E2, X82, AC, FF = 97, 10, 0xC3, 0xA9, 0xE2, 0x82, 0xAC, 0xFF

DEC_QUICK = [0, 0x7F, 0x80, 0x8F, 0x90, 0x9F, 0xA0, 0xBF, 0xC1, 0xC2, 0xDF, 0xE0, 0xED, 0xEF, 0xF0, 0xF4, 0xF5]
DEC_FULL = sorted(set(DEC_QUICK + [0xC0, 0xE1, 0xEC, 0xEE, 0xF1, 0xF3, 0xFF, 0x41, 0xA9]))


_T0 = time.time()


def lap(what):
    if os.environ.get("VERIF_C19_TIMING"):
        t = os.times()
        sys.stderr.write("[c19 %6.1fs own-cpu %6.1fs children-cpu %6.1fs] %s\n" % (
            time.time() - _T0, t.user + t.system, t.children_user + t.children_system, what))


REC_LENS = [0, 1, 7, 40, 150]       # lengths of the messages of follow-up records


def rune_space(quick):
    if quick:
        return Raw("(-2..2304) \\cup (55290..57350) \\cup (65530..65540) \\cup (1114100..1114115)")
    return Raw("-2..1114115")       # every rune, plus the first invalid ones on both sides


def nop(op, n=0, b=()):
    """A call a collaborator makes on the buffer from inside its Read / Write (a record of the
    constant Nests; avail/cap/cap2 are the capacity inputs of the window model: everything fits)."""
    return dict(op=op, n=n, b=list(b), avail=512, cap=0, cap2=0)


NESTS_QUICK = [
    [nop("WriteByte", A)],
    [nop("ReadByte")],
    [nop("ReadRune")],
    [nop("Reset")],
    [nop("Truncate", 1)],
    [nop("ReadByte"), nop("UnreadByte")],
    [nop("Len"), nop("Bytes"), nop("String"), nop("Grow", 0)],
    [nop("WriteByte", NL), nop("ReadByte")],
    [nop("ReadBytes", NL)],
]
NESTS_FULL = NESTS_QUICK + [
    [nop("Next", 1), nop("Write", b=[C3])],
    [nop("ReadRune"), nop("UnreadRune")],
    [nop("WriteRune", 0xE9)],
    [nop("Truncate", 2), nop("WriteByte", NL)],
    [nop("Read", 2)],
    [nop("ReadString", A), nop("UnreadByte")],
]


def configs(quick):
    """(name, constants, dump?, background?) of the exhaustive runs of this tier."""
    small = dict(
        Payloads=[[], [A], [NL], [C3, A9], [C3], [A9], [A, NL]],
        ByteArgs={A, NL, C3, A9, 0x80},
        Runes={A, 0xE9, -1, 0x20AC},
        Counts=Raw("-1..4"), MaxLen=3, Inits={()},
        RuneSpace=rune_space(quick), DecBytes=set(DEC_QUICK if quick else DEC_FULL),
        Hold=1, Retain={"Bytes", "Next", "ReadBytes", "ReadString"}, PokeVals={A9},
        Nests=NESTS_FULL[:12], RePay={4}, ReFins={"err"}, Recs={2, 4})
    if quick:
        tiny = dict(small)
        tiny.update(Payloads=[[], [A], [NL], [C3, A9], [C3]], ByteArgs={A, NL, C3}, Runes={A, 0xE9, -1},
                    Counts=Raw("-1..3"), Nests=NESTS_QUICK, RePay={4}, ReFins={"err"})
        return [("tiny", tiny, True, False)]
    off = dict(RuneSpace=Raw("{}"), DecBytes=set())      # the UTF-8 ASSUMEs are checked once, in "small"
    medium = dict(small)
    medium.update(off, Nests=[NESTS_QUICK[0], NESTS_QUICK[2]], RePay={4}, Recs={4}, Payloads=small["Payloads"] + [[E2, X82, AC]], Runes={A, 0xE9, -1, 0x20AC, 0x1F600},
                  Counts=Raw("-1..5"), MaxLen=4)
    large = dict(medium)
    large.update(Payloads=medium["Payloads"] + [[E2, X82], [FF]], ByteArgs={A, NL, C3, A9, AC},
                 Runes={A, 0xE9, -1, 0x20AC, 0x1F600, 0xD800})
    # longer contents (5 bytes: a 4-byte rune and one more; counts up to 6) over a smaller alphabet; the collaborators that
    # call back and the recycling are explored in the configurations above.  (With the alphabet of "large" this one has
    # > 1 M states / > 60 M transitions: 2 CPU-hours.)
    big = dict(large)
    big.update(Payloads=[[], [A], [NL], [C3, A9], [C3], [0xF0, 0x9F, 0x98, 0x80], [0xF0, 0x9F, 0x98]],
               ByteArgs={A, NL, 0xF0}, Runes={A, -1, 0x1F600}, Counts=Raw("-1..6"), MaxLen=5, Nests=[], RePay=set(), ReFins=set(),
               Recs={4})
    # (name, constants, dump and replay?, run in the background while the worker runs and the traces are validated?)
    return [("small", small, True, False), ("medium", medium, True, False), ("large", large, False, True),
            ("big", big, False, True)]


def impl_config(quick, which="own"):
    """Constants of BufferImpl (the storage algorithm run in lock-step with the abstract model).
    "own": with the caller's kept slices (regions of the storage / private copies) and stores, one kept at a time, and
    the writer that calls back (IWriteToRe);  "own2" (thorough tier): two kept slices at a time, no nested scripts (together
    they are 0.9 M states / 89 M transitions: 2 CPU-hours);  "large" (thorough tier): the bigger capacity space without
    kept slices, as they multiply the states."""
    c = dict(Payloads=[[], [A], [C3, A9]], Inits={(), (A,), (C3, A9)}, RuneSpace=set(), DecBytes=set(), Nests=[], RePay=set(), ReFins=set(), Recs=set(),
             SmallBuf=2, MinReadC=2, Retain={"Bytes", "Next", "ReadBytes"}, PokeVals={A9}, Hold=1)
    if which == "own":          # a writer that calls back, on the storage algorithm (IWriteToRe)
        c.update(Nests=[NESTS_QUICK[k] for k in ((0, 1, 2, 3, 5) if quick else (0, 1, 2, 3, 4, 5, 7))], ReFins={"short", "err"})
    if which == "large":
        c.update(ByteArgs={A, C3}, Runes={0xE9, -1}, Counts=Raw("-1..3"), GrowCounts=Raw("-1..4"), MaxLen=3, MaxCap=8,
                 Retain=set(), PokeVals=set(), Hold=0)
    elif quick:
        c.update(ByteArgs={A}, Runes={0xE9}, Counts=Raw("-1..2"), GrowCounts=Raw("-1..3"), MaxLen=2, MaxCap=6)
    else:
        c.update(ByteArgs={A}, Runes={0xE9}, Counts=Raw("-1..2"), GrowCounts=Raw("-1..3"), MaxLen=2, MaxCap=7,
                 Hold=2 if which == "own2" else 1)
    return c


def impl_files(consts):
    c = dict(consts)
    plain = {k: c.pop(k) for k in ("MaxLen", "SmallBuf", "MinReadC", "MaxCap", "Hold")}
    c["Payloads"] = [list(p) for p in c["Payloads"]]
    return gen_mc("MCI", "BufferImpl", c, ["SPECIFICATION ISpec", "VIEW ImplView", "CONSTRAINT CapBound",
                                          "INVARIANTS Agree Rel CapOK HRel HeldOK AliasCoherent"],
                  plain=plain)


def refinement(ctx, quick):
    """TLC: bytes.Buffer's storage algorithm (BufferImpl) refines the capacity-free model, the
    ownership contract included (HRel).  Two witness runs break the abstract model on purpose (Grow
    ignoring the capacity; Bytes() not aliasing the storage) and must be rejected."""
    runs = []
    for which in (["own"] if quick else ["own", "own2", "large"]):
        mci, cfg = impl_files(impl_config(quick, which))
        runs.append(ctx.tlc("MCI", "MCI.cfg", files={"MCI.tla": mci, "MCI.cfg": cfg}, name="buffer-impl-" + which,
                            workers=4 if quick else 6, timeout=2400))
    with open(os.path.join(SPEC, "Buffer.tla")) as fh:
        spec = fh.read()
    broken = spec.replace("ELSE IF k <= avail THEN Ok(s) ", "ELSE IF TRUE THEN Ok(s) ")
    if broken == spec:
        raise Undecided("witness mutation of Buffer.tla did not apply")
    wm, wcfg = impl_files(impl_config(True))
    w = ctx.tlc("MCI", "MCI.cfg", files={"MCI.tla": wm, "MCI.cfg": wcfg, "Buffer.tla": broken}, name="buffer-impl-witness",
                workers=2, timeout=600, allow_fail=True)
    if not (set(w.invariant_violated) & {"Rel", "Agree"}):
        raise Undecided("vacuity: a model whose Grow ignores the capacity still passes the refinement check:\n" + w.out[-2000:])
    # second witness: a model in which Bytes() hands out a copy (a store through it does not reach the buffer)
    broken = spec.replace("CASE h.tag = \"bytes\" -> [s EXCEPT !.data[j] = v]", "CASE h.tag = \"bytes\" -> s")
    if broken == spec:
        raise Undecided("witness mutation (ownership) of Buffer.tla did not apply")
    w = ctx.tlc("MCI", "MCI.cfg", files={"MCI.tla": wm, "MCI.cfg": wcfg, "Buffer.tla": broken}, name="buffer-impl-witness-alias",
                workers=2, timeout=600, allow_fail=True)
    if not (set(w.invariant_violated) & {"Rel", "HRel", "AliasCoherent"}):
        raise Undecided("vacuity: a model whose Bytes() does not alias the storage still passes the refinement check:\n"
                        + w.out[-2000:])
    # third witness: a model in which a nested read's lastRead does not survive the rest of WriteTo
    broken = spec.replace("ELSE LET s2 == Eat(s1, wn, s1.lr)", "ELSE LET s2 == Eat(s1, wn, 0)")
    if broken == spec:
        raise Undecided("witness mutation (re-entrant writer) of Buffer.tla did not apply")
    w = ctx.tlc("MCI", "MCI.cfg", files={"MCI.tla": wm, "MCI.cfg": wcfg, "Buffer.tla": broken}, name="buffer-impl-witness-reenter",
                workers=2, timeout=600, allow_fail=True)
    if not (set(w.invariant_violated) & {"Rel", "Agree"}):
        raise Undecided("vacuity: a model that forgets what a nested read recorded still passes the refinement check:\n" + w.out[-2000:])
    return runs


INVARIANTS = "TypeOK PrevShape RuneAgain UnreadLaws Conservation DelimLaw EofLaw ResetLaw HeldOK AliasCoherent OwnLaw ReLaws RecycleLaw"


def mc_files(consts, dump):
    c = dict(consts)
    maxlen = c.pop("MaxLen")
    hold = c.pop("Hold")
    c["Payloads"] = [list(p) for p in c["Payloads"]]
    c["Inits"] = set(tuple(x) for x in c["Inits"])
    lines = ["INIT Init", "NEXT Next", "VIEW View", "INVARIANTS " + INVARIANTS]
    if dump:
        lines.append("ALIAS DumpAlias")
    return gen_mc("MC", "Buffer", c, lines, plain=dict(MaxLen=maxlen, Hold=hold))


# ---------------------------------------------------------------------------- graph

_node = re.compile(r'^(-?\d+) \[label="j = \\"(.*?)\\""(,style = filled)?')
_edge = re.compile(r'^(-?\d+) -> (-?\d+) \[label="(.*?)",color=')


def _seq(txt):
    return [int(x) for x in re.findall(r"-?\d+", txt)]


def parse_graph(path):
    nodes, edges, seen = {}, [], set()
    with open(path) as fh:
        for line in fh:
            m = _edge.match(line)
            if m:
                e = (m.group(1), m.group(3).replace('\\"', '"'), m.group(2))
                if e not in seen:
                    seen.add(e)
                    edges.append(e)
                continue
            m = _node.match(line)
            if m:
                d, lr, prev, tags, lens = m.group(2).split("|")
                tags = _seq(tags)          # 1 own, 2 str, 3 bytes (alias), 4 next (alias)
                nodes[m.group(1)] = dict(data=_seq(d), lr=int(lr), prev=_seq(prev), held=len(tags), tags=tags,
                                         lens=_seq(lens))
    if not nodes or not edges:
        raise Undecided("empty state graph dump")
    return nodes, edges


def label_to_op(label, consts, rng):
    m = re.match(r"^(\w+?)_?(?:\((.*)\))?$", label)
    if not m:
        raise Undecided("cannot parse action label %r" % label)
    name, rest = m.group(1), m.group(2)
    args = [a.strip() for a in rest.split(",")] if rest else []
    val = lambda a: int(a) if re.match(r"^-?\d+$", a) else json.loads(a)
    args = [val(a) for a in args]
    pl = consts["Payloads"]
    keep = name in consts["Retain"]          # the caller of the exhaustive model keeps these results
    if name in ("Write", "WriteString"):
        return dict(op=name, b=list(pl[args[0] - 1]), keep=keep)
    if name in ("WriteByte", "WriteRune", "Read", "Next", "ReadBytes", "ReadString", "Truncate"):
        return dict(op=name, n=args[0], keep=keep)
    if name in ("ReadByte", "ReadRune", "UnreadByte", "UnreadRune", "Reset", "Len", "Bytes", "String"):
        return dict(op=name, keep=keep)
    if name == "Recycle":       # the next record; its message is as long as it likes (the model's prefix is a stand-in)
        return dict(op="Recycle", n=rng.choice(REC_LENS))
    if name == "Poke":          # j = -1: the last byte of the slice (resolved by the worker)
        return dict(op="Poke", h=args[0], j=1 if args[1] == "first" else -1, n=args[2])
    if name == "Grow":
        kind = args[0]
        if kind == "nofit" and rng.random() < 0.5:
            kind = "nofitbig"        # beyond the small-buffer size as well
        return dict(op="Grow", kind=kind)
    if name == "ReadFrom":
        b = list(pl[args[0] - 1])
        fin = args[1]
        if fin in ("eof", "err") and b and rng.random() < 0.4:
            fin += "data"
        chunks = []
        if len(b) > 1 and rng.random() < 0.5:
            chunks = [rng.randint(0, len(b) - 1)]
        return dict(op="ReadFrom", b=b, pfin=fin, chunks=chunks)
    if name == "WriteTo":
        return dict(op="WriteTo", wa=args[0], fin=args[1])
    wnest = lambda j: [dict(op=e["op"], n=e["n"], b=list(e["b"])) for e in consts["Nests"][j - 1]]
    if name == "WriteToRe":        # the writer runs the script Nests[j] on the buffer from inside its Write
        return dict(op="WriteTo", calls=[dict(fin=args[2], wa=args[1], nest=wnest(args[0]))])
    if name == "ReadFromRe":       # the reader stores the payload before / after running Nests[j], and ends
        return dict(op="ReadFrom", calls=[dict(c=list(pl[args[0] - 1]), fin=args[1], order=args[3], nest=wnest(args[2]))])
    raise Undecided("unknown action label %r" % label)


def probes_for(state, delim):
    """State identification (the W set of FSM conformance testing).  data is shown by every
    observation, but lr and prev are hidden; these call sequences make them visible:
      UnreadByte            fails iff lr = 0, otherwise shows the last byte in front of the read point
      UnreadRune            fails iff lr <= 0, otherwise puts back the rune kept in prev (if still there)
      ReadBytes;UnreadByte  on an empty buffer with lr = 0: shows the byte in front of the read point"""
    if state["lr"] != 0:
        return [["UnreadByte"], ["UnreadRune"]]
    if state["data"]:
        return [["UnreadByte"]]
    return [["UnreadByte"], ["ReadBytes(%d)" % delim, "UnreadByte"]]


OBSERVERS = ("Len_", "Bytes_", "String_")


def edge_class(nodes, edge, owned):
    """The state of the exhaustive model is (buffer state) x (what the caller keeps).  What a CALL
    does to the buffer does not depend on the second component, so transitions are covered per
    class: (buffer state, call) - with owned=True additionally split by "the caller holds an owned
    result while the call runs" (it must survive the call).  The caller's own stores (Poke) and the
    observers (the only calls an alias survives) are covered for every combination of kept slices."""
    s, lbl, _ = edge
    v = nodes[s]
    name = lbl.split("(")[0]
    if name == "Poke" or (name in OBSERVERS and any(t in (3, 4) for t in v["tags"])):
        pool = (tuple(v["tags"]), tuple(v["lens"]))
    elif owned:
        pool = any(t in (1, 2) for t in v["tags"])
    else:
        pool = None
    return (tuple(v["data"]), v["lr"], tuple(v["prev"]), lbl, pool)


def cover(nodes, edges, max_len, delim, owned):
    """Walks that together execute, for every class of transitions s -a-> s2 of the graph (see
    edge_class), the call a in state s followed by each identification probe of s2 (so that not
    only the visible result of a but also the hidden part of the state it leads to is compared).
    A walk may start in any state a constructor can produce (lr = 0, nothing in front of the read
    point, nothing kept yet): New(data).  Returns (walks, number of items, classes, classes covered)."""
    out = collections.defaultdict(list)
    by_label = {}
    for i, (s, lbl, d) in enumerate(edges):
        out[s].append(i)
        by_label[(s, lbl)] = i
    startable = [n for n, v in nodes.items() if v["lr"] == 0 and not v["prev"] and not v["held"]]
    reach = {n: (n, []) for n in startable}      # shortest path from some startable state
    q = collections.deque(startable)
    is_rec = [e[1].startswith("Recycle") for e in edges]    # executed through the real library's pool: the state of
    while q:                                                 # the graph is left there (the real prefix is longer), so
        u = q.popleft()                                      # such an edge + its probe ends a walk
        for ei in out[u]:
            if is_rec[ei]:
                continue
            v = edges[ei][2]
            if v not in reach:
                reach[v] = (reach[u][0], reach[u][1] + [ei])
                q.append(v)
    missing = [n for n in nodes if n not in reach]
    if missing:
        raise Undecided("%d states not reachable from a constructible state" % len(missing))
    # items: (edge, probe) -> list of edge indexes to walk, and the state it ends in
    todo = {n: collections.deque() for n in nodes}
    cls_id = {}
    probe_cache = {}
    wanted = set()                              # (class, probe): one representative each is executed
    for i, e in enumerate(edges):
        s, lbl, d = e
        cid = cls_id.setdefault(edge_class(nodes, e, owned), len(cls_id))
        pk = (nodes[d]["lr"] != 0, bool(nodes[d]["data"]))
        if pk not in probe_cache:
            probe_cache[pk] = probes_for(nodes[d], delim)
        for pi, probe in enumerate(probe_cache[pk]):
            seq, cur = [i], d
            for pl in probe:
                ei = by_label.get((cur, pl))
                if ei is None:
                    raise Undecided("probe %s not available in state %s" % (pl, nodes[cur]))
                seq.append(ei)
                cur = edges[ei][2]
            key = (cid, pi)
            wanted.add(key)
            todo[s].append((seq, cur, key))
    n_items = len(wanted)
    executed = set()

    def purge(n):
        q = todo[n]
        while q and q[0][2] in executed:
            q.popleft()
        return bool(q)

    def take(n):
        """next item of node n that is still needed (None if none)"""
        q = todo[n]
        while q:
            seq, nxt, key = q.popleft()
            if key in executed:
                continue
            executed.add(key)
            return seq, nxt
        return None

    pending = collections.OrderedDict((n, True) for n in nodes if todo[n])
    behaviours = []

    def nearby(cur):
        for ei in out[cur]:
            if not is_rec[ei] and purge(edges[ei][2]):
                return [ei]
        return None

    while pending:
        target = next(iter(pending))
        if not purge(target):
            pending.pop(target)
            continue
        start, path = reach[target]
        walk = list(path)
        cur = target
        while len(walk) < max_len:
            item = take(cur)
            if item is not None:
                seq, nxt = item
                walk.extend(seq)
                cur = nxt
                if is_rec[seq[0]]:
                    break
                continue
            pending.pop(cur, None)
            p = nearby(cur)
            if p is None:
                break
            walk.extend(p)
            cur = edges[p[-1]][2]
        behaviours.append((start, walk))
    return behaviours, n_items, len(cls_id), len(set(k for k, _ in executed))


def grow_sweep(nodes, edges, delim):
    """Grow is the one call whose outcome depends on the storage (capacity, nil slice) while it
    keeps lastRead.  Every Grow transition + identification probe is therefore executed again
    from each kind of constructor, reached by the shortest path, so that the first growth of a
    fresh buffer of every kind is covered.  Returns [(start, [edge indexes], how, cap_extra)]."""
    out = collections.defaultdict(list)
    by_label = {}
    for i, (s, lbl, d) in enumerate(edges):
        out[s].append(i)
        by_label[(s, lbl)] = i
    startable = [n for n, v in nodes.items() if v["lr"] == 0 and not v["prev"] and not v["held"]]
    reach = {n: (n, []) for n in startable}
    q = collections.deque(startable)
    while q:
        u = q.popleft()
        for ei in out[u]:
            lbl = edges[ei][1]
            if lbl.startswith(("Grow", "Write", "ReadFrom")):
                continue            # the access path must not grow the storage itself
            v = edges[ei][2]
            if v not in reach:
                reach[v] = (reach[u][0], reach[u][1] + [ei])
                q.append(v)
    res = []
    seen = set()
    for i, (s, lbl, d) in enumerate(edges):
        if not lbl.startswith("Grow") or s not in reach:
            continue
        cls = edge_class(nodes, edges[i], False)
        if cls in seen:
            continue
        seen.add(cls)
        start, path = reach[s]
        for probe in probes_for(nodes[d], delim):
            seq, cur = path + [i], d
            for pl in probe:
                ei = by_label[(cur, pl)]
                seq.append(ei)
                cur = edges[ei][2]
            for how, extra in (("bytes", 0), ("string", 0), ("cap", 0), ("cap", 1), ("cap", 64), ("cap", 1024)):
                res.append((start, seq, how, extra))
    return res


def vacuity_gate(nodes, edges):
    """The corners the model is about must be present in the graph TLC explored (else the
    exhaustive run proves nothing about them): undecided if one is missing."""
    by = collections.defaultdict(list)
    for s, lbl, d in edges:
        by[lbl.split("(")[0]].append((nodes[s], nodes[d]))
    checks = {
        "zero-length ReadBytes records a read": any(not a["data"] and b["lr"] == -1 for a, b in by["ReadBytes"]),
        "UnreadByte steps back after a zero-length read": any(
            not a["data"] and a["lr"] == -1 and a["prev"] and b["data"] == a["prev"][-1:] for a, b in by["UnreadByte"]),
        "UnreadByte without a byte in front of the read point": any(
            a["lr"] != 0 and not a["prev"] and a["data"] == b["data"] for a, b in by["UnreadByte"]),
        "Grow keeps lastRead": any(a["lr"] > 0 and b["lr"] == a["lr"] and b["prev"] for a, b in by["Grow"]),
        "Grow moves the data after ReadRune": any(a["lr"] > 0 and a["prev"] and b["lr"] == a["lr"] and not b["prev"] for a, b in by["Grow"]),
        "UnreadRune after Grow moved the data": any(a["lr"] > 0 and not a["prev"] and a["data"] == b["data"] for a, b in by["UnreadRune"]),
        "UnreadRune puts a multi-byte rune back": any(a["lr"] > 1 and b["data"] == a["prev"] + a["data"] for a, b in by["UnreadRune"]),
        "ReadRune of invalid UTF-8 consumes one byte": any(
            a["data"] and a["data"][0] >= 128 and b["lr"] == 1 for a, b in by["ReadRune"]),
        "Truncate(n>0) invalidates lastRead": any(a["lr"] != 0 and b["lr"] == 0 and a["data"] and b["data"] for a, b in by["Truncate"]),
        "WriteTo consumes without reset": any(a["data"] and not b["data"] and b["prev"] for a, b in by["WriteTo"]),
        "Next(0) invalidates lastRead": any(a["lr"] != 0 and b["lr"] == 0 and a["data"] == b["data"] for a, b in by["Next_"]),
        "Read on empty resets": any(not a["data"] and a["prev"] and not b["prev"] for a, b in by["Read"]),
        "a store through Bytes() changes the contents": any(a["data"] != b["data"] for a, b in by["Poke"]),
        "a store through Next() changes what UnreadByte steps back over": any(
            a["data"] == b["data"] and a["prev"] != b["prev"] for a, b in by["Poke"]),
        "a store through an owned copy changes nothing in the buffer": any(
            a["data"] == b["data"] and a["prev"] == b["prev"] and a["lr"] == b["lr"] for a, b in by["Poke"]),
        "a modifying call ends the window of a kept alias": any(b["held"] < a["held"] for a, b in by["UnreadByte"]),
        "Recycle after a read (read point advanced, last read recorded)": any(a["lr"] != 0 and a["prev"] for a, b in by["Recycle"]),
        "Recycle after Grow moved the data (last read recorded, read point at the start)": any(
            a["lr"] != 0 and not a["prev"] and a["data"] for a, b in by["Recycle"]),
        "Recycle of a drained encoder": any(not a["data"] and a["prev"] and b["data"] and not b["prev"] and b["lr"] == 0 for a, b in by["Recycle"]),
        "an owned result outlives Recycle, an alias does not": any(1 in a["tags"] and 1 in b["tags"] for a, b in by["Recycle"]) and any(
            (3 in a["tags"] or 4 in a["tags"]) and not b["tags"] for a, b in by["Recycle"]),
        "a kept result outlives a reset of the storage": any(
            a["held"] and b["held"] and not a["data"] and a["prev"] and not b["prev"] for a, b in by["Read"]),
    }
    missing = [k for k, ok in checks.items() if not ok]
    if missing:
        raise Undecided("vacuous exhaustive run, corner states missing from the graph: %s" % missing)
    return sorted(checks)


# ---------------------------------------------------------------------------- trace validation

def trace_consts(trace_name):
    return dict(Payloads=[[]], ByteArgs=set(), Runes=set(), Counts=set(), Inits={()}, RuneSpace=set(),
                DecBytes=set(), Retain=set(), PokeVals=set(), Nests=[], RePay=set(), ReFins=set(), Recs=set(), TraceFile=trace_name)


def split_trace(path, parts, scratch, tag):
    """Split an ndjson trace at "New" lines into <= parts files of similar size.  Returns
    [(file, first_line_number)]."""
    with open(path, "rb") as fh:
        lines = fh.readlines()
    total = sum(len(l) for l in lines)
    if not lines:
        return []
    target = max(total // max(parts, 1), 1)
    res, cur, size, first = [], [], 0, 1
    for idx, l in enumerate(lines):
        if cur and size >= target and l.startswith(b'{"op":"New"') and len(res) < parts - 1:
            res.append((cur, first))
            cur, size, first = [], 0, idx + 1
        cur.append(l)
        size += len(l)
    res.append((cur, first))
    files = []
    for k, (ls, first) in enumerate(res):
        p = os.path.join(scratch, "%s-%d.ndjson" % (tag, k))
        with open(p, "wb") as fh:
            fh.writelines(ls)
        files.append((p, first, len(ls)))
    return files


def validate(ctx, path, tag, parts):
    """TLC-validate one trace file (split for parallelism).  Returns a list of
    dict(line=<1-based line in path>, expected=<model's outcome as JSON text>)."""
    files = split_trace(path, parts, ctx.scratch, tag)
    mct, cfg = gen_mc("MCT", "BufferTrace", trace_consts("trace.ndjson"),
                      ["SPECIFICATION TSpec", "INVARIANTS Done TTypeOK TPrevShape TRuneAgain THeld", "CHECK_DEADLOCK FALSE"],
                      plain=dict(MaxLen=0, Hold=0))
    results, errors, skips = {}, [], {}

    def one(k, fpath, first):
        try:
            r = ctx.tlc("MCT", "MCT.cfg", files={"MCT.tla": mct, "MCT.cfg": cfg}, copy={fpath: "trace.ndjson"},
                        workers=1, name="%s-%d" % (tag, k), timeout=2400, heap="4g", allow_fail=True)
            if r.invariant_violated:
                raise Undecided("trace run %s: model invariant %s violated on a recorded behaviour:\n%s" % (
                    tag, r.invariant_violated, r.out[-3000:]))
            if not r.ok:
                raise Undecided("trace validation run %s failed:\n%s" % (tag, r.out[-5000:]))
            res = r.prints("bad")
            if len(res) != 1:
                raise Undecided("trace validation %s did not reach the end of the log:\n%s" % (tag, r.out[-3000:]))
            results[k] = [dict(line=b["line"] + first - 1, expected=b["expected"]) for b in res[0]]
            sk = r.prints("skip")
            skips[k] = [ln + first - 1 for ln in (sk[0] if sk else [])]
        except Exception as ex:  # noqa: BLE001 - re-raised in the main thread
            errors.append(ex)

    sem = threading.Semaphore(int(os.environ.get("VERIF_C19_PAR", "6")))

    def guarded(*a):
        with sem:
            one(*a)

    threads = [threading.Thread(target=guarded, args=(k, f, first)) for k, (f, first, _) in enumerate(files)]
    for t in threads:
        t.start()
    for t in threads:
        t.join()
    if errors:
        raise errors[0] if isinstance(errors[0], Undecided) else Undecided("trace validation: %r" % errors[0])
    bad = []
    for k in sorted(results):
        bad.extend(results[k])
    SKIPPED[tag] = sorted(x for k in skips for x in skips[k])
    return sorted(bad, key=lambda b: b["line"])


SKIPPED = {}       # validation tag -> lines the model declared outside bytes.Buffer's defined behaviour


_len_re = re.compile(r'"len":(\d+)')
_len_wb = re.compile(r'"wl":\[([\d,]*)\]')
OP_ARG_FIELDS = ("op", "n", "b", "pb", "fin", "pfin", "chunks", "wa", "keep", "h", "j", "obs")


def event_to_op(ev):
    op = {k: ev[k] for k in OP_ARG_FIELDS if k in ev}
    if ev["op"] == "ReadFrom" and "pb" in ev:
        op["b"] = ev["pb"]
        del op["pb"]
    if ev["op"] == "ReadFrom":
        op.pop("fin", None)
    if ev["op"] == "Recycle":
        op.pop("b", None)       # (the record's prefix: computed by the worker from the message length n)
    if "plan" in ev:            # a collaborator with a plan per call (nested calls included), sizes as executed
        op["calls"] = json.loads(ev["plan"])
    op["fixed"] = True
    return op


def behaviour_upto(rows, line):
    """The behaviour (constructor + calls) that ends with 1-based line `line` of the log."""
    i = line - 1
    start = i
    while rows[start]["op"] != "New":
        start -= 1
    nw = rows[start]
    return dict(new=dict(op="New", how=nw.get("how", "bytes"), cap=nw.get("cap", 0), b=nw.get("nb", nw["b"]),
                         hold=nw.get("hold", 0)),
                obs="every", ops=[event_to_op(r) for r in rows[start + 1:i + 1]]), i - start


def _short(b):
    return b if len(b) <= 48 else b[:24] + [-1] + b[-24:]


def retained_diff(ev, exp):
    """Tag of the first kept slice whose logged contents differ from the model's `held` (or None)."""
    if "hv" not in ev or "held" not in exp:
        return None
    held = exp["held"]
    if len(held) != len(ev["hv"]):
        return "count"
    for h, v in zip(held, ev["hv"]):
        if _short(v) != h["val"]:
            return h["tag"]
    return None


def nested_events(ev):
    if ev["op"] == "ReadFrom" and "calls" in ev:
        return [n for c in ev["calls"] for n in c["nest"]]
    if ev["op"] == "WriteTo" and "nest" in ev:
        return ev["nest"]
    return []


def diff_field(ev, exp):
    if ev["op"] == "WriteTo" and "wl" in ev and "wl" in exp and ev["wl"] != exp["wl"]:
        return "writes-received"            # how the data reached the writer: number and sizes of its Write calls
    if ev["op"] == "ReadFrom" and (ev.get("after", 0) != 0 or ("planned" in ev and len(ev["calls"]) != ev["planned"])):
        return "reads-made"
    if ev["op"] == "ReadFrom" and min([c["pl"] for c in ev.get("calls", [])] + ev.get("pl", []) + [ev.get("minp", 512)]) < 512:
        return "read-size"
    for ne, no in zip(nested_events(ev), exp.get("nest", [])):
        for f in ("pan", "err", "rn", "rm", "rb", "len"):
            if f in ne and ne.get("pan", "") == "" and ne[f] != no.get(f) and not (f == "rb" and len(ne[f]) > 48):
                return "nested-%s-%s" % (ne["op"], f)
        if ne.get("pan", "") != no.get("pan", ""):
            return "nested-%s-pan" % ne["op"]
    for f in ("pan", "err", "rn", "rm", "rb", "len"):
        if f in ev and f in exp and ev[f] != exp[f]:
            if f in ("rn", "rm", "rb", "err") and ev.get("pan", "") != "":
                continue
            if f == "rb" and len(ev[f]) > 48:
                continue
            return f
    for f in ("s", "bs"):
        if f in ev and (len(ev[f]) > 48 or ev[f] != exp.get("s")):
            return "contents"
    tag = retained_diff(ev, exp)
    if tag:
        return "retained-" + tag
    return "collaborator" if ev["op"] in ("ReadFrom", "WriteTo") else "state"


class Rows:
    """The lines of an ndjson log, parsed on demand (most of them are never looked at again)."""

    def __init__(self, lines):
        self.lines = lines
        self.cache = {}

    def __len__(self):
        return len(self.lines)

    def __getitem__(self, i):
        if isinstance(i, slice):
            return [self[k] for k in range(*i.indices(len(self.lines)))]
        if i < 0:
            i += len(self.lines)
        r = self.cache.get(i)
        if r is None:
            r = self.cache[i] = json.loads(self.lines[i])
        return r

    def is_new(self, i):
        return self.lines[i].startswith('{"op":"New"')

    def starts(self):
        return [i for i in range(len(self.lines)) if self.is_new(i)]


def read_rows(path, lazy=False):
    with open(path) as fh:
        lines = fh.readlines()
    return Rows(lines) if lazy else [json.loads(l) for l in lines]


def report(ctx, rows, bad, lock_rows, source_of, skipped=None):
    # one rejected line per (key, driver) first, so that the first reported findings show every kind of
    # divergence and every driver that met it; then the rest (bounded)
    classes, rest = {}, []
    for b in bad:
        ev = rows[b["line"] - 1]
        try:
            exp = json.loads(b["expected"])
        except Exception:  # noqa: BLE001
            exp = {}
        cls = ("%s:%s" % (ev["op"], diff_field(ev, exp)), ":".join(source_of(b["line"]).split(":")[:2]),
               ev["op"] == "WriteTo" and sum(ev.get("wl", [])) > 65536)
        if cls in classes:
            rest.append(b)
        else:
            classes[cls] = b
    bad = list(classes.values()) + rest[:40]
    for b in bad:
        ev = rows[b["line"] - 1]
        try:
            exp = json.loads(b["expected"])
        except Exception:  # noqa: BLE001
            exp = {}
        beh, upto = behaviour_upto(rows, b["line"])
        key = "%s:%s" % (ev["op"], diff_field(ev, exp))
        obs = {k: v for k, v in ev.items() if k not in ("b", "pb", "wb") or len(v) <= 64}
        what = "PrintCtx, call %d of a behaviour (%s): %s observed %s ; bytes.Buffer model expects %s" % (
            upto, source_of(b["line"]), ev["op"], json.dumps(obs)[:900], b["expected"][:900])
        ctx.finding(key, what, dict(kind="buffer", behaviour=beh, observed=ev, expected=b["expected"]))
    # the lock-step cross-check: direct differences between PrintCtx and bytes.Buffer
    starts = rows.starts() if isinstance(rows, Rows) else [i for i, r in enumerate(rows) if r["op"] == "New"]
    first_bad = {}                               # trace number -> first rejected line
    for b in bad:
        t = bisect.bisect_right(starts, b["line"] - 1)
        first_bad.setdefault(t, b["line"])
    seen = set()
    skip_at = {}                                 # trace number -> first line outside the defined behaviour
    for ln in (skipped or []):
        skip_at.setdefault(bisect.bisect_right(starts, ln - 1), ln)
    for lr in lock_rows:
        t = lr["trace"]
        if t in seen or t - 1 >= len(starts):
            continue
        if t in skip_at and skip_at[t] <= starts[t - 1] + 1 + lr["step"] + 1:
            continue  # bytes.Buffer leaves the rest of this trace undefined: nothing to compare
        seen.add(t)
        line = starts[t - 1] + 1 + lr["step"] + 1
        if t in first_bad and first_bad[t] <= line:
            continue  # already reported through the specification
        beh, upto = behaviour_upto(rows, line)
        ctx.finding("lockstep:%s" % lr["op"],
                    "PrintCtx and bytes.Buffer differ in lock-step at call %d (%s): %s" % (upto, lr["op"], json.dumps(lr)[:1200]),
                    dict(kind="buffer", behaviour=beh, lockstep=lr))


# ---------------------------------------------------------------------------- scripted collaborators

BIG_SIZES = [65535, 65536, 65537, 70000, 200000]


def pattern(n, salt=0):
    return [97 + (i * 7 + i // 23 + salt) % 26 for i in range(n)]


def collab_behaviours(rng, quick):
    """Behaviours that exercise the collaborators (Buffer.tla, COLLABORATORS): (a) readers / writers that
    call methods of the same buffer from inside Read / Write - every kind of nested call, sized to fit
    / not to fit the spare capacity (resolved by the worker against Available()), before and after the
    reader stores its bytes, from every constructor kind and with the read point at / not at the start
    of the storage; (b) what the collaborators receive - plans that fail, short-write or answer
    (0, nil) on their k-th call, and contents around and far above 64 KiB.  Returns [(group, behaviour)]."""
    out = []
    W = lambda kind, op="WriteString": dict(op=op, kind=kind)
    nests = [
        ("write-realloc", [W("nofitbig")]), ("write-nofit", [W("nofit", "Write")]), ("write-fit", [W("fit", "Write")]),
        ("write-fill", [W("fill")]), ("grow-nofit", [dict(op="Grow", kind="nofit")]), ("grow-realloc", [dict(op="Grow", kind="big")]),
        ("grow-fit", [dict(op="Grow", kind="fit")]), ("reset", [dict(op="Reset")]), ("truncate", [dict(op="Truncate", kind="lenm1")]),
        ("truncate-half-write", [dict(op="Truncate", kind="half"), W("fit")]), ("readbyte", [dict(op="ReadByte")]),
        ("readrune", [dict(op="ReadRune")]), ("next-half", [dict(op="Next", kind="half")]), ("read-all", [dict(op="Read", kind="len")]),
        ("readbytes", [dict(op="ReadBytes", n=NL)]), ("writebyte", [dict(op="WriteByte", n=A)]), ("writerune", [dict(op="WriteRune", n=0x20AC)]),
        ("observe", [dict(op="Len"), dict(op="Bytes"), dict(op="String")]), ("read-unread", [dict(op="ReadByte"), dict(op="UnreadByte")]),
        ("realloc-then-read", [W("nofitbig"), dict(op="ReadByte")]), ("two-reallocs", [W("nofit"), W("nofitbig", "Write")]),
        ("read-then-realloc", [dict(op="ReadRune"), W("nofitbig")]), ("drain-then-write", [dict(op="Read", kind="len"), W("fit")]),
    ]
    ctors = [dict(how="zero", b=[]), dict(how="string", b=[A, 98, 99]), dict(how="bytes", b=[C3, A9, NL, A, 98]),
             dict(how="cap", b=pattern(100), cap=100), dict(how="cap", b=pattern(40), cap=2048), dict(how="marshal", b=[A, 98])]
    probes = [[dict(op="UnreadByte")], [dict(op="UnreadRune")], [dict(op="ReadByte"), dict(op="UnreadByte")],
              [dict(op="ReadBytes", n=NL)], [dict(op="Grow", kind="nofit"), dict(op="String")],
              [dict(op="ReadString", n=NL), dict(op="UnreadByte"), dict(op="String")]]
    fresh = lambda ops: json.loads(json.dumps(ops))          # the worker resolves sizes in place: no sharing

    def beh(group, ctor, pre, op, post):
        new = dict(op="New", how=ctor["how"], b=list(ctor["b"]), cap=ctor.get("cap", 0), hold=0)
        out.append((group, dict(new=new, obs="every", ops=fresh(pre + [op] + post))))

    # (a) re-entrant readers and writers
    pres = [[], [dict(op="ReadByte")], [dict(op="WriteString", b=pattern(30, 3)), dict(op="Next", n=7)]]
    for name, nest in nests:
        for ci, ctor in enumerate(ctors):
            if quick and (ci + len(name)) % 2 and name not in ("write-realloc", "grow-realloc", "reset"):
                continue
            for pre in (pres if not quick else [pres[rng.randrange(len(pres))], pres[0]]):
                if pre and not ctor["b"] and pre[0]["op"] == "ReadByte":
                    continue
                for order in ("pre", "post"):
                    for c, fin in (([104, 101, 108, 108, 111], "eof"), ([104, 105], "more"), ([], "err")):
                        calls = [dict(c=c, fin=fin, order=order, nest=nest)]
                        if fin == "more":
                            calls += [dict(c=[], fin="more"), dict(c=[33], fin="eof", order="pre")]
                        beh("reenter:ReadFrom:" + name, ctor, pre, dict(op="ReadFrom", calls=calls), rng.choice(probes))
                for fin, wa in (("ok", 0), ("short", 1), ("err", 0), ("err", 2), ("zero", 0)):
                    beh("reenter:WriteTo:" + name, ctor, pre, dict(op="WriteTo", calls=[dict(fin=fin, wa=wa, nest=nest)]),
                        rng.choice(probes))
    # (b) what the collaborators receive: plans per call, small contents
    wplans = [[dict(fin="ok")], [dict(fin="ok"), dict(fin="err", wa=0)], [dict(fin="ok"), dict(fin="short", wa=1)],
              [dict(fin="ok"), dict(fin="ok"), dict(fin="err", wa=3)], [dict(fin="short", wa=5), dict(fin="ok")],
              [dict(fin="zero"), dict(fin="ok")], [dict(fin="err", wa=4096), dict(fin="ok")], [dict(fin="over")]]
    for size in (0, 1, 63, 64, 65, 511, 512, 513, 4096, 4097):
        for skip in (0, 1):
            for plan in wplans:
                beh("received:WriteTo:small", dict(how="zero", b=[]), [dict(op="Write", b=pattern(size, size)), dict(op="Next", n=skip)],
                    dict(op="WriteTo", calls=plan), [dict(op="UnreadByte"), dict(op="Len")])
    for k in (1, 2, 3, 5):
        for kind in ("zero", "err", "neg", "eof"):
            for ctor in ctors[:4]:
                calls = [dict(c=pattern(rng.choice([1, 7, 300, 512]), j), fin="more") for j in range(k - 1)]
                calls.append(dict(c=[], fin="more") if kind == "zero" else dict(c=pattern(rng.choice([0, 3]), k), fin=kind))
                if kind == "zero":
                    calls += [dict(c=pattern(5, 1), fin="more"), dict(c=[], fin="more"), dict(c=[], fin=rng.choice(["eof", "err"]))]
                beh("received:ReadFrom:plan", ctor, [], dict(op="ReadFrom", calls=calls), [dict(op="Len"), dict(op="ReadByte")])
    # (b) contents around and above 64 KiB
    sizes = BIG_SIZES
    bigplans = [[dict(fin="ok")], [dict(fin="ok"), dict(fin="err", wa=0)], [dict(fin="ok"), dict(fin="short", wa=10)],
                [dict(fin="err", wa=65536)], [dict(fin="short", wa=65535)], [dict(fin="ok"), dict(fin="ok"), dict(fin="err", wa=1)],
                [dict(fin="zero")], [dict(fin="ok", nest=[dict(op="Len"), dict(op="ReadByte")])]]
    for si, size in enumerate(sizes):
        for skip in (0, 1, 100):
            plans = bigplans if not quick else [bigplans[1], bigplans[(si + skip) % len(bigplans)]]
            if size == 200000:              # (log volume: every byte the writer sees is compared by TLC)
                plans = (plans[:1] if skip == 0 else []) if quick else (bigplans[:4] if skip == 0 else [bigplans[1]])
            for plan in plans:
                new = dict(op="New", how=rng.choice(["zero", "cap"]), b=[], cap=rng.choice([0, 64, 70000]), hold=0)
                ops = [dict(op="Write", pat=[size, skip]), dict(op="Next", n=skip), dict(op="WriteTo", calls=fresh(plan), obs="full"),
                       dict(op="Len"), dict(op="ReadByte")]
                out.append(("received:WriteTo:big", dict(new=new, obs="sparse", ops=ops)))
    for si, size in enumerate(sizes if not quick else sizes[1:4]):
        for chunks, pfin in (([], "eof"), ([512] * 3, "eofdata"), ([65536], "err"), ([1, 65535], "errdata")):
            if quick and (si + len(chunks)) % 2:
                continue
            new = dict(op="New", how=rng.choice(["zero", "string", "cap"]), b=[A, 98], cap=rng.choice([2, 600, 66000]), hold=0)
            ops = [dict(op="ReadFrom", pat=[size, 5], pfin=pfin, chunks=chunks, obs="full"),
                   dict(op="WriteTo", calls=[dict(fin="ok"), dict(fin="err", wa=0)], obs="full"), dict(op="Len")]
            out.append(("received:ReadFrom:big", dict(new=new, obs="sparse", ops=ops)))
    return out


def recycle_behaviours(rng, quick):
    """Histories over several records of one logger (Buffer.tla, RECYCLING): what the marshaller of the first
    record did to the encoder (reads of every kind, drained / half read / unread again / slid by Grow /
    reallocated / truncated / handed to a writer / nothing) x the length of the next record's message
    (shorter and longer than what was consumed) x what the marshaller of the next record does first
    (identification probes, observers, reads, a write), + the same with a passive record in between and
    with the first record's results still kept by the caller.  Returns [(group, behaviour)]."""
    out = []
    K = lambda op, kind, **kw: dict(op=op, kind=kind, **kw)
    firsts = [
        ("nothing", []), ("drain-next", [K("Next", "len")]), ("drain-write", [K("Next", "len"), dict(op="WriteString", b=[34, 100, 34])]),
        ("next-half", [K("Next", "half")]), ("next-one", [K("Next", "one")]), ("read-all", [K("Read", "len")]), ("readbyte", [dict(op="ReadByte")]),
        ("readrune", [dict(op="ReadRune")]), ("readbytes", [dict(op="ReadBytes", n=58)]), ("readstring", [dict(op="ReadString", n=44)]),
        ("readstring-all", [dict(op="ReadString", n=0)]), ("read-unread", [dict(op="ReadByte"), dict(op="UnreadByte")]),
        ("rune-unread", [dict(op="ReadRune"), dict(op="UnreadRune")]), ("read-slide", [dict(op="ReadByte"), dict(op="Grow", kind="nofit")]),
        ("rune-slide", [dict(op="ReadRune"), dict(op="Grow", kind="nofit")]), ("half-realloc", [K("Next", "half"), dict(op="Grow", kind="nofitbig")]),
        ("read-to-eof", [K("Next", "lenm1"), dict(op="ReadByte"), dict(op="ReadByte")]), ("truncate-half", [K("Truncate", "half")]),
        ("half-truncate", [K("Next", "half"), K("Truncate", "one")]), ("reset-write-read", [dict(op="Reset"), dict(op="Write", b=[A, 98, 99]), dict(op="ReadByte")]),
        ("writeto-short", [dict(op="WriteTo", fin="short", wa=9)]), ("writeto-err", [dict(op="WriteTo", fin="err", wa=30)]),
        ("writeto-all", [dict(op="WriteTo", fin="ok")]), ("readfrom-then-read", [dict(op="ReadFrom", b=pattern(600), pfin="eof", chunks=[]), K("Next", "half")]),
        ("big-write-drain", [dict(op="Write", pat=[3000, 1]), K("Next", "lenm1")]),
    ]
    probes = [[dict(op="UnreadByte")], [dict(op="UnreadRune")], [dict(op="Len"), dict(op="String"), dict(op="Bytes")],
              [dict(op="ReadByte"), dict(op="UnreadByte"), dict(op="UnreadByte")], [dict(op="ReadBytes", n=58), dict(op="String")],
              [dict(op="WriteByte", n=A), dict(op="String")], [K("Next", "len"), dict(op="UnreadByte"), dict(op="Len")],
              [dict(op="WriteTo", fin="ok"), dict(op="Len")], [K("Truncate", "lenm1"), dict(op="String")], [dict(op="ReadRune"), dict(op="UnreadRune"), dict(op="String")]]
    fresh = lambda ops: json.loads(json.dumps(ops))
    msgs = [[], pattern(90, 2)]                              # the first record: short / long message
    for name, first in firsts:
        for mi, msg in enumerate(msgs):
            for n2 in (0, 25, 400):
                if quick and (mi + n2 + len(name)) % 2 and name not in ("drain-next", "read-slide", "nothing"):
                    continue
                for keep in (False, True):
                    ops = fresh(first)
                    if keep:                                 # the caller keeps what the first record's calls handed out
                        for o in ops:
                            if o["op"] in ("Next", "Read", "ReadBytes", "ReadString"):
                                o["keep"] = True
                        if not any(o.get("keep") for o in ops):
                            continue
                    new = dict(op="New", how="marshal", b=list(msg), cap=0, hold=2 if keep else 0)
                    out.append(("recycle:two:" + name, dict(new=new, obs="every",
                                                            ops=ops + [dict(op="Recycle", n=n2)] + fresh(rng.choice(probes)))))
        # a passive record in between (what one record left behind stays until somebody resets it), and a third that reads again
        new = dict(op="New", how="marshal", b=list(msgs[rng.randrange(2)]), cap=0, hold=0)
        out.append(("recycle:three:" + name, dict(new=new, obs="every", ops=fresh(first) + [dict(op="Recycle", n=rng.choice([0, 60]))]
                                                  + fresh(rng.choice([[], [dict(op="Len")], [dict(op="ReadByte")]]))
                                                  + [dict(op="Recycle", n=rng.choice([0, 3, 200]))] + fresh(rng.choice(probes)))))
    return out


def run_script(ctx, script, tag, parts):
    sp = os.path.join(ctx.scratch, tag + "-script.json")
    with open(sp, "w") as fh:
        fh.write(json.dumps(script, separators=(",", ":")))
    prefix = os.path.join(ctx.scratch, tag)
    lap("script written")
    ctx.run_worker(["buffer", sp, prefix], testing=True, timeout=1800)
    lap("worker done")
    pc, bb, lock = prefix + ".pc.ndjson", prefix + ".bb.ndjson", prefix + ".lock.ndjson"
    lap("log size %.1f MB" % (os.path.getsize(pc) / 1e6))
    identical = filecmp.cmp(pc, bb, shallow=False)
    # the reference first: the specification must accept bytes.Buffer itself
    bad_bb = validate(ctx, bb, tag + "-bb", parts)
    if bad_bb:
        rows_bb = read_rows(bb)
        b = bad_bb[0]
        raise Undecided("SPECIFICATION BUG: BufferTrace rejects a trace of bytes.Buffer itself (line %d of %d rejected lines): "
                        "%s ; model expected %s" % (b["line"], len(bad_bb), json.dumps(rows_bb[b["line"] - 1])[:1500], b["expected"][:1500]))
    lap("bytes.Buffer trace validated")
    bad_pc = [] if identical else validate(ctx, pc, tag + "-pc", parts)
    lap("PrintCtx trace validated")
    return pc, bad_pc, read_rows(lock), identical


def run(ctx, replay):
    quick = ctx.quick()
    if replay:
        with open(replay) as fh:
            rp = json.load(fh)["replay"]
        script = dict(seed=ctx.seed, behaviours=[rp["behaviour"]], random=[])
        pc, bad, lock_rows, _ = run_script(ctx, script, "replay", 1)
        rows = read_rows(pc)
        ctx.traces += 1
        ctx.evaluations += len(rows) - 1
        ctx.nontrivial += len(rows) - 1
        report(ctx, rows, bad, lock_rows, lambda line: "replay")
        ctx.sample(dict(replayed=rp["behaviour"]["ops"][:10]))
        return ctx.finish(rule="replay of one recorded behaviour", exhaustive=False)

    rng = random.Random(ctx.seed * 104729 + 19)
    wbox = {}

    def wwork():                                 # build the worker while TLC explores the model
        try:
            ctx.worker()
        except Exception as ex:  # noqa: BLE001 - re-raised after join
            wbox["ex"] = ex
    wth = threading.Thread(target=wwork, daemon=True)
    wth.start()
    # ---- 1. exhaustive model checking (+ dumps)
    behaviours, graph_info, gates = [], [], []
    n_recwalks = 0
    exhaustive = True
    background = []
    bg_jobs = []
    rbox = {}

    def rwork():
        try:
            runs = refinement(ctx, quick)
            rbox["r"] = collections.namedtuple("R", "distinct generated")(sum(r.distinct for r in runs),
                                                                          sum(r.generated for r in runs))
        except Exception as ex:  # noqa: BLE001 - re-raised after join
            rbox["ex"] = ex
    rth = threading.Thread(target=rwork, daemon=True)
    rth.start()
    background.append(("impl-refinement", dict(MaxLen=impl_config(quick)["MaxLen"]), rth, rbox))
    # the largest configurations are only model-checked (no dump): one after the other in one thread, while the graphs of
    # the others are covered, the worker runs and the traces are validated
    for name, consts, dump, bg in configs(quick):
        if bg:
            bg_jobs.append((name, consts) + mc_files(consts, False) + ({},))
    def bgwork():
        for name_, _, mc_, cfg_, box in bg_jobs:
            try:
                box["r"] = ctx.tlc("MC", "MC.cfg", files={"MC.tla": mc_, "MC.cfg": cfg_}, name="buffer-" + name_, workers=8, timeout=2400)
            except Exception as ex:  # noqa: BLE001 - re-raised after join
                box["ex"] = ex
    if bg_jobs:
        bth = threading.Thread(target=bgwork, daemon=True)
        bth.start()
        background.extend((name_, consts_, bth, box) for name_, consts_, _, _, box in bg_jobs)
    for name, consts, dump, bg in configs(quick):
        if bg:
            continue
        mc, cfg = mc_files(consts, dump)
        dot = os.path.join(ctx.scratch, "graph-" + name)
        r = ctx.model_check("MC", "MC.cfg", files={"MC.tla": mc, "MC.cfg": cfg}, name="buffer-" + name,
                            extra=(["-dump", "dot,actionlabels", dot] if dump else []), timeout=1500)
        if r.distinct < 100:
            raise Undecided("exhaustive run %s explored only %d states" % (name, r.distinct))
        info = dict(config=name, states=r.distinct, generated=r.generated, max_len=consts["MaxLen"], dumped=dump)
        lap("model checked " + name)
        if dump:
            nodes, edges = parse_graph(dot + ".dot")
            lap("graph parsed")
            gates = vacuity_gate(nodes, edges)
            walks, n_items, n_classes, n_done = cover(nodes, edges, max_len=400, delim=min(consts["ByteArgs"]),
                                                      owned=(name == "small"))
            covered = set()
            for start, walk in walks:
                covered.update(walk)
                ops = [label_to_op(edges[ei][1], consts, rng) for ei in walk]
                d = nodes[start]["data"]
                if any(o["op"] == "Recycle" for o in ops):
                    # through the library: the encoder of a record, brought to the walk's first state by listed calls
                    behaviours.append(dict(new=dict(op="New", how="marshal", b=[], cap=0, hold=consts["Hold"]), obs="every",
                                           ops=[dict(op="Reset"), dict(op="Write", b=list(d))] + ops))
                    n_recwalks += 1
                    continue
                how = rng.choice(["bytes", "string", "cap", "cap"] if d else ["zero", "bytes", "string", "cap", "cap"])
                behaviours.append(dict(new=dict(op="New", how=how, b=d, cap=rng.choice([0, 1, 2, 4, 8, 64, 1024]),
                                                hold=consts["Hold"]), obs="every", ops=ops))
            if n_done != n_classes:
                raise Undecided("transition cover incomplete: %d of %d classes" % (n_done, n_classes))
            store_edges = [i for i, e in enumerate(edges) if e[1].startswith("Poke")]
            if not store_edges or not set(store_edges) <= covered:
                raise Undecided("the caller's stores are not all covered: %d of %d" % (
                    len(set(store_edges) & covered), len(store_edges)))
            lap("cover computed")
            sweep = grow_sweep(nodes, edges, min(consts["ByteArgs"])) if name in ("tiny", "small") else []
            for start, seq, how, extra in sweep:
                d = nodes[start]["data"]
                if how == "bytes" and not d:
                    how = "zero"
                behaviours.append(dict(new=dict(op="New", how=how, b=d, cap=len(d) + extra, hold=consts["Hold"]), obs="every",
                                       ops=[label_to_op(edges[ei][1], consts, rng) for ei in seq]))
            info["grow_sweep_walks"] = len(sweep)
            info.update(graph_states=len(nodes), graph_edges=len(edges), walks=len(walks), transition_probe_items=n_items,
                        transition_classes=n_classes, edges_executed=len(covered), store_edges=len(store_edges),
                        state_changing_edges=sum(1 for s, _, d in edges if s != d),
                        state_changing_edges_executed=sum(1 for i in covered if edges[i][0] != edges[i][2]))
            ctx.nontrivial += info["state_changing_edges_executed"]
        graph_info.append(info)
    n_graph = len(behaviours)
    # ---- 1b. scripted collaborators: re-entrant readers / writers, plans per call, contents above 64 KiB
    collab = collab_behaviours(rng, quick) + recycle_behaviours(rng, quick)
    behaviours.extend(b for _, b in collab)
    n_scripted = len(behaviours)
    lap("collaborator scripts: %d" % len(collab))
    # ---- 2. seeded random drivers
    if quick:
        rnd = [dict(seed=ctx.seed * 1000 + 1, traces=700, min_len=40, max_len=80, profile="small"),
               dict(seed=ctx.seed * 1000 + 2, traces=50, min_len=60, max_len=120, profile="big"),
               dict(seed=ctx.seed * 1000 + 3, traces=600, min_len=5, max_len=14, profile="re")]
    else:
        rnd = [dict(seed=ctx.seed * 1000 + 1, traces=20000, min_len=40, max_len=100, profile="small"),
               dict(seed=ctx.seed * 1000 + 2, traces=3000, min_len=80, max_len=200, profile="big"),
               dict(seed=ctx.seed * 1000 + 3, traces=5000, min_len=5, max_len=16, profile="re")]
    script = dict(seed=ctx.seed, behaviours=behaviours, random=rnd)
    wth.join()
    if "ex" in wbox:
        raise wbox["ex"] if isinstance(wbox["ex"], Undecided) else Undecided("worker build: %r" % wbox["ex"])
    lap("script ready")
    # ---- 3./4. execute on PrintCtx and bytes.Buffer, validate with TLC
    pc, bad, lock_rows, identical = run_script(ctx, script, "main", 6 if quick else 14)
    for name, consts, th, box in background:
        th.join()
        if "ex" in box:
            raise box["ex"] if isinstance(box["ex"], Undecided) else Undecided("background model check: %r" % box["ex"])
        r = box["r"]
        ctx.states += r.distinct
        ctx.transitions += r.generated
        graph_info.append(dict(config=name, states=r.distinct, generated=r.generated, max_len=consts["MaxLen"], dumped=False))
    rows = read_rows(pc, lazy=True)
    starts = rows.starts()

    def source_of(line):
        k = bisect.bisect_right(starts, line - 1)
        if k <= n_graph:
            return "edge cover of the TLC graph"
        return "scripted collaborators, group %s" % collab[k - n_graph - 1][0] if k <= n_scripted else "seeded random driver"

    report(ctx, rows, bad, lock_rows, source_of, SKIPPED.get("main-bb" if identical else "main-pc", []))
    ctx.traces += len(starts)
    ctx.evaluations += len(rows) - len(starts)
    rand_rows = rows[starts[n_scripted]:] if n_scripted < len(starts) else []
    sigs = set()
    for r_ in rand_rows:
        if r_["op"] != "New":
            sigs.add((r_["op"], r_["pan"], r_.get("err"), min(r_.get("rn", 0), 5), min(abs(r_["n"]), 70),
                      min(len(r_.get("rb", ())), 70)))
    ctx.nontrivial += len(sigs)
    skipped = SKIPPED.get("main-bb" if identical else "main-pc", [])
    skipped_traces = set(bisect.bisect_right(starts, ln - 1) for ln in skipped)
    coll = collections.Counter()
    for l in rows.lines:
        if l.startswith('{"op":"ReadFrom"') or l.startswith('{"op":"WriteTo"'):
            coll["calls"] += 1
            if '"nest":[{' in l:
                coll["with_calls_from_inside"] += 1
                if '"cap":' in l and re.search(r'"cap":(\d+),"cap2":(?!\1,)', l):
                    coll["with_a_reallocation_from_inside"] += 1
            if '"wl":[' in l:
                coll["writers_call_lengths_compared"] += 1
            m = _len_wb.search(l)
            if m and sum(int(x) for x in m.group(1).split(",") if x) > 65536:
                coll["writes_above_64KiB"] += 1
    groups = collections.Counter(g.rsplit(":", 1)[0] for g, _ in collab)
    defined = collections.Counter(collab[k - n_graph - 1][0].rsplit(":", 1)[0] for k in range(n_graph + 1, n_scripted + 1)
                                  if k not in skipped_traces)
    for g in groups:
        if ctx.violations:
            break
        if g.startswith("reenter") and defined[g] * 2 < groups[g]:
            raise Undecided("collaborator scripts of group %s: only %d of %d stay inside what bytes.Buffer defines" % (g, defined[g], groups[g]))
    if not ctx.violations and (coll["with_a_reallocation_from_inside"] < 20 or coll["writes_above_64KiB"] < 5):
        raise Undecided("vacuous collaborator drivers: %s" % dict(coll))
    # records: how often the pool really handed the previous record's encoder to the next record
    rec = collections.Counter()
    k = 0
    for i_, l in enumerate(rows.lines):
        if l.startswith('{"op":"New"'):
            k += 1
        elif l.startswith('{"op":"Recycle"'):
            src = "graph" if k <= n_graph else "scripted" if k <= n_scripted else "random"
            rec["steps"] += 1
            rec["steps_" + src] += 1
            if '"same":true' in l:
                rec["same_object_" + src] += 1
            if '"lpan":""' not in l:
                rec["logging_call_of_the_previous_record_panicked"] += 1
    if not ctx.violations and (rec["steps_graph"] < n_recwalks or rec["same_object_graph"] * 10 < rec["steps_graph"] * 9
                               or rec["same_object_scripted"] * 10 < rec["steps_scripted"] * 9 or rec["same_object_random"] < 20):
        raise Undecided("vacuous record histories (the pool did not hand the encoder of one record to the next): %s" % dict(rec))
    ctx.extra.update(records=dict(graph_walks_through_the_library=n_recwalks, **rec))
    ctx.nontrivial += len(set(g for g, _ in collab))
    ctx.extra.update(collaborators=dict(scripted_behaviours=dict(groups), scripted_behaviours_with_verdict=dict(defined),
                                        lines_outside_the_defined_behaviour_of_bytes_Buffer=len(skipped), **coll))
    ctx.extra.update(graphs=graph_info, graph_behaviours=n_graph, random_traces=len(starts) - n_scripted,
                     trace_events=len(rows), corner_states_present=gates,
                     bytes_buffer_trace="identical to the PrintCtx trace, validated once" if identical
                     else "differs from the PrintCtx trace, both validated",
                     bytes_buffer_events_validated=len(rows), lockstep_mismatches=len(lock_rows),
                     longest_contents=max((int(m.group(1)) for l in rows.lines for m in [_len_re.search(l)] if m), default=0),
                     ownership=dict(
                         steps_with_kept_slices_compared=sum(1 for l in rows.lines if '"hv":[[' in l),
                         kept_results=sum(1 for l in rows.lines if '"keep":true' in l),
                         stores_through_kept_slices=sum(1 for l in rows.lines if l.startswith(('{"op":"Poke"', '{"op":"Fill"'))),
                         write_arguments_overwritten_after_the_call=sum(1 for l in rows.lines if '"scr":true' in l)))
    lap("report done")
    if behaviours:
        ctx.sample(dict(graph_walk=dict(new=behaviours[0]["new"], ops=behaviours[0]["ops"][:8])))
    if rand_rows:
        ctx.sample(dict(random_trace_head=[{k: v for k, v in r_.items() if k in ("op", "n", "err", "pan", "rn", "len")}
                                            for r_ in rand_rows[:10]]))
    ctx.assumptions += [
        "error and panic texts are compared modulo the package prefix (bytes.Buffer / logg/slog.PrintCtx); io.EOF, "
        "io.ErrShortWrite, ErrTooLarge and the injected collaborator error by identity",
        "Grow's only capacity-dependent answer (does lastRead survive with the read point in place) is decided from "
        "Available() observed before the call; counts near MaxInt are logged as 2^30+k",
        "writers never return a negative count, readers never return more than len(p) (undefined for bytes.Buffer too)",
        "contents longer than 96 bytes are compared after every 12th call on average and at the end of a trace; "
        "every byte that leaves the buffer through a read is compared in full",
        "collaborators that call back: the reference is the Go 1.23 source of bytes.Buffer (its documentation is silent); the model's "
        "reading of it is validated against bytes.Buffer on every run; outcomes that depend on storage nobody wrote or leave a negative "
        "Len() are declared undefined and get no verdict; capacity inputs (Available, Cap, read offset) are observed from inside the collaborator",
        "records: what the library has written of a record when it calls the marshaller is predicted from the frame of its JSON "
        "records (head + message + tail), measured at the start of the worker on fresh encoders and cross-checked; sync.Pool is "
        "relied upon to hand the encoder of one record to the next on the same goroutine (recorded per step, too few = undecided)",
        "ownership: the worker keeps the returned slices / strings themselves (results up to 64 bytes, at most `hold` of them, "
        "oldest forgotten first) and logs their current bytes after every step; an alias (Bytes, Next) is dropped - by the "
        "model and by the worker - at the next call of any method other than Len / Bytes / String, so nothing bytes.Buffer "
        "leaves undefined is compared; stores go through owned results and live aliases only",
    ]
    return ctx.finish(rule="every class of transitions of the dumped exhaustive TLC graph(s) - (buffer state, call), and every "
                           "store of the caller through a kept slice and every observer call per combination of kept slices - "
                           "each followed by every identification probe of its target state (and every Grow transition again "
                           "from each constructor kind), executed on PrintCtx and bytes.Buffer with the caller keeping the "
                           "returned slices (non-trivial = executed state-changing transitions) + seeded random histories "
                           "(non-trivial = distinct (call, panic, error, result-size, argument-size) signatures) + scripted "
                           "collaborators (nested calls x constructors x order x answers, plans per call, 64 KiB..200000 byte contents; "
                           "non-trivial = groups) + histories over several records of one logger (Recycle: graph transitions, scripted "
                           "grid, random); all "
                           "validated by TLC against BufferTrace, kept slices included",
                      exhaustive=exhaustive)
