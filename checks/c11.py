"""C11: output format is a per-logger three-state machine; getters and bytes agree."""
import corelib

BOOL_LISTS = [[], [True], [False], [True, False], [False, True]]


def config(quick):
    modes = {"JSONMode": [(i, 0) for i in range(1, 6)], "ColorMode": [(i, 0) for i in range(1, 6)]}
    opt = lambda k, a: dict(k=k, a=a, b=0)
    return dict(
        max_loggers=3 if quick else 4, init_level=5, names=["a"], bool_lists=BOOL_LISTS, layouts=[""],
        opt_lists=[[], [opt("JSONMode", 1)], [opt("JSONMode", 3)], [opt("ColorMode", 1)], [opt("ColorMode", 3)],
                   [opt("JSONMode", 2), opt("ColorMode", 4)], [opt("ColorMode", 2), opt("JSONMode", 5)],
                   [opt("JSONMode", 4)], [opt("ColorMode", 5)]],
        setter_args=modes, acts=["Set", "With", "New"] + ([] if quick else ["NewDetached"]), probe_sevs=[4, 2],
    )


def run(ctx, replay):
    c = config(ctx.quick())
    if replay:
        return corelib.replay_core(ctx, replay, c, ["cfg", "shape", "tree"])
    corelib.run_core(ctx, c, invariants=["OneFormat", "TreeOK"], properties=["Isolation", "TreeMonotone"],
                     obs=["cfg", "shape", "tree"], rand_count=30 if ctx.quick() else 400,
                     rand_depth=25 if ctx.quick() else 40, rand_loggers=8 if ctx.quick() else 14)
    ctx.assumptions += ["probe records are issued with WriteThru (explicit timestamp) and classified by first byte / escape content",
                        "package default writers are redirected to recorders through GetDefaultWriter()"]
    return ctx.finish(rule="every transition of the exhaustive MC graph (3-4 loggers, all mode calls with 0..2 boolean "
                           "arguments, as Set/With/New-option) executed on the library + seeded random histories; "
                           "non-trivial = distinct (op, kind, args, receiver) calls executed",
                      exhaustive=True)
