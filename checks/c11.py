"""C11: output format is a per-logger three-state machine; getters and bytes agree."""
import corelib

BOOL_LISTS = [[], [True], [False], [True, False], [False, True]]


def config(quick):
    modes = {"JSONMode": [(i, 0) for i in range(1, 6)], "ColorMode": [(i, 0) for i in range(1, 6)]}
    opt = lambda k, a: dict(k=k, a=a, b=0)
    return dict(
        max_loggers=3, init_level=5, names=["a"], bool_lists=BOOL_LISTS, layouts=[""],
        opt_lists=[[], [opt("JSONMode", 1)], [opt("JSONMode", 3)], [opt("ColorMode", 1)], [opt("ColorMode", 3)],
                   [opt("JSONMode", 2), opt("ColorMode", 4)], [opt("ColorMode", 2), opt("JSONMode", 5)],
                   [opt("JSONMode", 4)], [opt("ColorMode", 5)]],
        setter_args=modes, acts=["Set", "With", "New"] + ([] if quick else ["NewDetached"]),
        # probe records of every severity class have the logger's shape: built-in, auxiliary, custom levels
        # registered without colours (treated-as / error device or neither), an unregistered value
        probe_sevs=[4, 2, 5, 8, 9, 11, 13, 14, 15, 99],
        customs=[dict(v=13, title="NOTICE13", treat=4, err=False), dict(v=14, title="SWELL14", treat=2, err=True),
                 dict(v=15, title="PLAIN15", treat=-1, err=False)],
        treat={9: 4, 10: 4, 11: 2, 13: 4, 14: 2}, errdev=[0, 1, 2, 3, 11, 14],
    )


def config_handler(quick):
    """A log/slog handler made on a logger configures it ONCE (level, colour, JSON - in that order - and the
    caller flag); records sent through the handler afterwards never re-configure the logger, whatever mode
    calls came in between."""
    c = config(quick)
    c.update(max_loggers=2, acts=["Set", "New", "MkHandler", "HEmit"], opt_lists=[[]],
             # (writer 53 is an *os.File on a regular disk file: where the records go does not decide their format)
             setter_args={"JSONMode": [(1, 0), (3, 0)], "ColorMode": [(1, 0), (3, 0)], "Writer": [(53, 0)]},
             handler_opts=[dict(), dict(json=True), dict(nocolor=True, nosource=True)] + ([] if quick else [dict(json=True, nocolor=True, level=4)]),
             max_handlers=1 if quick else 2, flag_sets=[["caller"]], probe_sevs=[4, 2, 13])
    return c


def apalache_inductive(ctx):
    """OneFormat as an inductive invariant of the typed stand-alone module FormatInd.tla (16 logger slots,
    histories of any length): Init => IndInv, IndInv /\ Next => IndInv', IndInv => OneFormat."""
    import os
    import shutil
    import subprocess
    from vlib import SPEC, Undecided
    d = ctx.sub("apalache")
    shutil.copyfile(os.path.join(SPEC, "FormatInd.tla"), os.path.join(d, "FormatInd.tla"))
    done = 0
    obligations = [("Init => IndInv", ["--init=Init", "--inv=IndInv", "--length=0"]),
                   ("IndInv /\\ Next => IndInv'", ["--init=IndInit", "--inv=IndInv", "--length=1"]),
                   ("IndInv => OneFormat", ["--init=IndInit", "--inv=OneFormat", "--length=0"])]
    for name, args in obligations:
        p = subprocess.run(["timeout", "300", "apalache-mc", "check"] + args + ["FormatInd.tla"], cwd=d,
                           capture_output=True, text=True)
        if "The outcome is: NoError" in p.stdout:
            done += 1
        elif "The outcome is: Error" in p.stdout:
            raise Undecided("Apalache refutes the inductive step %s - the model of C11 is wrong:\n%s" % (name, p.stdout[-1500:]))
        else:
            raise Undecided("apalache-mc failed on %s:\n%s" % (name, (p.stdout + p.stderr)[-1500:]))
    ctx.extra["apalache_obligations"] = len(obligations)
    ctx.extra["apalache_discharged"] = done


def run(ctx, replay):
    c = config(ctx.quick())
    if replay:
        return corelib.replay_core(ctx, replay, c, ["cfg", "shape", "shapes", "tree"])
    apalache_inductive(ctx)
    jobs = []          # the graphs are independent: they run side by side
    jobs.append(lambda: corelib.run_core(ctx, c, invariants=["OneFormat", "TreeOK"], properties=["Isolation", "TreeMonotone"],
                     obs=["cfg", "shape", "shapes", "tree"], rand_count=30 if ctx.quick() else 400,
                     rand_depth=25 if ctx.quick() else 40, rand_loggers=8 if ctx.quick() else 14))
    jobs.append(lambda: corelib.run_core(ctx, config_handler(ctx.quick()), invariants=["OneFormat", "TreeOK", "FlagsOK"], properties=["Isolation"],
                     obs=["cfg", "shape", "shapes"], rand_count=10 if ctx.quick() else 200, rand_depth=15 if ctx.quick() else 25,
                     rand_loggers=3, tag="handler"))
    corelib.run_jobs(jobs)
    ctx.assumptions += ["probe records are issued with WriteThru (explicit timestamp) and classified by first byte / escape content",
                        "package default writers are redirected to recorders through GetDefaultWriter()"]
    return ctx.finish(rule="every transition of the exhaustive MC graph (3-4 loggers, all mode calls with 0..2 boolean "
                           "arguments, as Set/With/New-option) executed on the library + seeded random histories; "
                           "non-trivial = distinct (op, kind, args, receiver) calls executed",
                      exhaustive=True)
