"""C01: level gating - one admission rule, identical at every entry point."""
import corelib

# custom levels registered by the worker before anything else (part of the model's initial state)
CUSTOMS = [dict(v=13, title="NOTICE13", treat=4, err=False), dict(v=14, title="SWELL14", treat=2, err=True),
           dict(v=15, title="PLAIN15", treat=-1, err=False), dict(v=-8, title="NEG8", treat=-1, err=False),
           dict(v=40, title="HIGH40", treat=6, err=False), dict(v=-21, title="NEG21", treat=4, err=False),
           dict(v=-5, title="NEG5", treat=0, err=True), dict(v=1000, title="BIG1000", treat=3, err=False),
           dict(v=12, title="MAX12", treat=5, err=False),
           # treated as one of the special levels, and as a level registered before (chains)
           dict(v=50, title="ALW50", treat=8, err=False), dict(v=51, title="OFF51", treat=7, err=False),
           dict(v=52, title="OKAY52", treat=9, err=False), dict(v=53, title="FAIL53", treat=11, err=False),
           dict(v=54, title="CHAIN54", treat=13, err=False), dict(v=55, title="CHAIN55", treat=54, err=True)]
TREAT = {9: 4, 10: 4, 11: 2, 13: 4, 14: 2, 40: 6, -21: 4, -5: 0, 1000: 3, 12: 5, 50: 8, 51: 7, 52: 9, 53: 11, 54: 13, 55: 54}
ERRDEV = [0, 1, 2, 3, 11, 14, -5, 55]
ALL_LEVELS = list(range(0, 12)) + [13, 14, 15, -8, 40, -21, -5, 1000, 12, 50, 51, 52, 53, 54, 55]
GATE_SEVS = ALL_LEVELS + [17, 99, -3]          # plus unregistered values
OBS = ["cfg", "gate"]


def config(levels, max_loggers, acts, pkg_levels=None):
    sa = {"Level": [(v, 0) for v in levels]}
    return dict(max_loggers=max_loggers, init_level=5, names=["a"], bool_lists=[[]], layouts=[""], opt_lists=[[]],
                setter_args=sa, acts=acts, probe_sevs=[4], gate_sevs=GATE_SEVS, customs=CUSTOMS, treat=TREAT,
                errdev=ERRDEV)


# RegisterLevel calls of the registry graph: a value registered twice (the second call is refused and
# must change nothing), a call refused for its title (nothing of it may stay behind), a retry of
# that value without treated-as level, a negative value
REG_CALLS = [dict(v=20, t=4), dict(v=20, t=2), dict(v=21, t=3, clash=True), dict(v=21), dict(v=-8, t=4),
             # treated as a level that is registered (or not yet registered) at that moment, and as Always
             dict(v=22, t=20), dict(v=23, t=8)]


def config_reg(quick):
    return dict(max_loggers=1, init_level=5, names=[], bool_lists=[[]], layouts=[""], opt_lists=[[]],
                setter_args={"Level": [(v, 0) for v in ([2, 4, 6] if quick else [2, 3, 4, 5, 6, 7, 8])]},
                acts=["Set", "Register"], probe_sevs=[4], gate_sevs=[2, 3, 4, 5, 6, 9, 20, 21, -8, 17, 22, 23],
                customs=[], reg_calls=REG_CALLS)


def explain(ev, b):
    """Name the entry points that decide differently from the others at the same severity."""
    out = []
    for li, o in enumerate(ev.get("obs", []), 1):
        if o.get("verbose"):
            out.append(("gate:ep:Verbose", "Verbose emitted on logger %d" % li))
        for g in o.get("gate", []):
            if g["yes"] and g["no"]:
                minority = g["yes"] if len(g["yes"]) < len(g["no"]) else g["no"]
                emitted = minority is g["yes"]
                for ep in minority:
                    out.append(("gate:ep:" + ep, "logger %d (level %s, debug mode %s): %s %s a severity-%d record while the "
                                "other entry points %s" % (li, o.get("level"), ev.get("dbg"), ep,
                                                           "emitted" if emitted else "dropped", g["r"],
                                                           "dropped it" if emitted else "emitted it")))
    # one finding per entry point is enough
    seen, res = set(), []
    for k, w in out:
        if k not in seen:
            seen.add(k)
            res.append((k, w))
    return res


def run(ctx, replay):
    wide = config(ALL_LEVELS, 2, ["Set", "With", "New", "NewDetached", "PkgSetLevel", "SetDefault", "DbgMode"])
    if replay:
        return corelib.replay_core(ctx, replay, wide, OBS)
    inv = ["GateAgrees", "TreeOK"]
    props = ["DbgSticky", "Isolation"]
    # (a) one logger, every level value: every (logger level, debug mode) pair, whole gate table each
    jobs = []          # the graphs are independent: they run side by side
    jobs.append(lambda: corelib.run_core(ctx, config(ALL_LEVELS, 1, ["Set", "DbgMode", "VrbMode"]), inv, props, OBS, rand_count=0, rand_depth=0, rand_loggers=1,
                     tag="one", key_fn=explain))
    # (b) two loggers (default + child): debug mode switched on through either of them or through the
    #     package-level SetLevel, observed on both
    lv2 = [5, 4, 7] if ctx.quick() else [5, 4, 7, 8, 2, 13]
    jobs.append(lambda: corelib.run_core(ctx, config(lv2, 2, ["Set", "With", "PkgSetLevel", "DbgMode"]), inv, props, OBS,
                     rand_count=15 if ctx.quick() else 150, rand_depth=12 if ctx.quick() else 25,
                     rand_loggers=4 if ctx.quick() else 6, rand_cfg=wide, tag="two", key_fn=explain))
    # (c) the registry is part of the state: levels registered (or refused) in the middle of a history, one
    #     fresh process per behaviour
    jobs.append(lambda: corelib.run_core(ctx, config_reg(ctx.quick()), inv, props + ["RegistryLocal"], OBS, rand_count=10 if ctx.quick() else 200,
                     rand_depth=8 if ctx.quick() else 12, rand_loggers=1, tag="reg", key_fn=explain))
    corelib.run_jobs(jobs)
    ctx.assumptions += ["graphs (a) and (b): custom levels are registered once at process start; graph (c) registers them "
                        "in the middle of a history (names, tags and marshalling of registered levels are C17)",
                        "Panic/Fatal rows are issued with the no-interrupt flag set so that the call returns",
                        "Entry.Log is probed with the four standard log/slog levels only (other values belong to C15)"]
    return ctx.finish(rule="every transition of two exhaustive MC graphs executed on the library; after every call the full "
                           "gate table (all ~57 entry points x every severity they can carry, 20 severities for the "
                           "parametrised ones, Enabled/EnabledContext) is observed on every live logger and compared by "
                           "TLC with Admit(); + seeded random histories; non-trivial = distinct (op, kind, args, receiver)",
                      exhaustive=True)
