"""C15: log/slog handler and std-log bridge preserve content, severity and gating.

Pipeline (spec/Adapter.tla, spec/AdapterTrace.tla, harness/fam_adapter.go):
  1. TLC explores the Adapter model exhaustively (set-ups x derivation chains/trees, bridges) with the
     property invariants, and dumps the labelled state graph (probes are self-loop edges);
  2. witness runs: each named deviation enabled must make TLC fail its invariant (non-vacuity);
  3. an edge cover of the graph(s) plus seeded random deeper behaviours (longer derivation trees,
     random attribute shapes, exotic level values) become scripts;
  4. the Go worker executes them on the real library on recording writers and decodes every record;
  5. TLC validates the recording against AdapterTrace; every rejected line carries a key.

Two parts of the model deserve a word (see the header of Adapter.tla):
  * EQUAL KEYS.  Attribute shapes are trees flattened to leaves [p, k, v, o] (o = ordinals); the record
    a handler emits is one tree in logical order (derivation steps, then the record's attributes) and
    of several attributes with one key in one group instance the LAST is a must, earlier ones may be
    dropped (native rule) or kept ("all").  The catalogue contains colliding shapes on purpose.
  * LOGVALUERS.  A shape is a tree of nodes [key, lv, g, k, v, kids]; lv = how many times LogValue() has
    to be asked before the value (a leaf value or a group) appears.  Every node may be a LogValuer - a
    leaf, a group, a member of a literal group, a member of a group a LogValuer resolved to, deeper -
    in records, in WithAttrs lists, under WithGroup.  Expected = the leaves of the tree with every lv
    set to 0 (what log/slog's own handlers print).  Adapter!ValuerCover makes TLC refuse a catalogue
    that lacks one of the 16 positions; the run is Undecided unless all of them were really emitted.
  * RECORD TIMES.  The time a hand-made record carries is an entry of a catalogue (rec_times: the zero
    time.Time, the same in other zones, the Unix epoch, the last nanosecond of year 9999, one instant in two
    zones, a nanosecond and a second after the zero time, ...) given to TLC as [d, s, n, off, kind]; expected
    is the INSTANT (Adapter!Instant), read back from what the underlying logger printed.  The zero time is
    an instant like any other - not "now".
  * NESTED RECORDS (event Nested).  The outer record's first attribute - a LogValuer, a Stringer or an
    error - logs another record through the same handler, a handler of the same family or another handler
    on the same logger while the outer one is being handled: both come out, each once per time it was logged,
    each with its own content.  A call that does not return is written down by the worker's watchdog (30 s
    without the process using CPU, or 15 minutes) - the trace ends there - and rejected by the monitor.
  * THE LEVEL REGISTRY is process-wide: Register events are part of the behaviours; a behaviour that
    registers runs in a worker process of its own (the worker forks itself), "Proc" lines tell the
    monitor where a process starts.
"""
import json
import os
import random

from vlib import Undecided, parse_action, read_ndjson
from tlagen import gen_mc

PANIC, FATAL, ERROR, WARN, INFO, DEBUG, TRACE, OFF, ALWAYS = range(9)
SLOG_LEVELS = [-8, -4, -1, 0, 2, 4, 8, 12, 16, 17]
A, NL = 97, 10

NO_TREAT = 12
N_TIMES = 40
TIME_KINDS = ["zero", "zero-zone", "near-zero", "epoch", "pre-epoch", "y9999", "zone", "ordinary"]
CARRIERS = ["valuer", "valuer-group", "stringer", "error"]
NEST_RELS = ["same", "ancestor", "descendant", "sibling", "other"]          # "cousin" needs four handlers
WITNESSES = [("ZeroTimeNow", "OwnTimeKept RecordComplete"), ("HandleSerialised", "NestedReturns"), ("NestedSharesRecord", "NestedOwnContent"),
             ("DerivedFresh", "KeepsConfig"), ("BridgeInverted", "BridgeGate"), ("EntryLogUnknownFatal", "NoTerminating"),
             ("AttrsBehindRecord", "RecordWins"), ("RegRemapsStd", "StdIndependent"), ("RegErrDevOfTreated", "RegistryLocal"),
             ("ResolveTopOnly", "RecordComplete AddsGiven"), ("ResolveOnce", "RecordComplete AddsGiven")]

# where a LogValuer can sit (Adapter!ValuerClasses): what it resolves to, asked once or several times, and
# top = element of the list, lit = member of literal groups only, val = member of a group a LogValuer
# resolved to, val-lit = member of a literal group somewhere inside such a group
VALUER_CLASSES = sorted("%s%s@%s" % (t, c, x) for t in ("leaf", "group") for c in ("", "-chain") for x in ("top", "lit", "val", "val-lit"))


# ------------------------------------------------------------------ catalogues

def L(key, kind, v, lv=0):
    """a leaf attribute; lv > 0: handed over as a LogValuer that has to be asked lv times"""
    return dict(key=key, lv=lv, g=False, k=kind, v=v, kids=[])


def G(key, *kids, lv=0):
    """a group attribute (one INSTANCE: two G("g", ..) in one list are two attributes with one key);
    lv > 0: a LogValuer that resolves (after lv rounds) to the group"""
    return dict(key=key, lv=lv, g=True, k="", v=0, kids=list(kids))


def flatten(tree, path=(), ords=(), ws=()):
    """Tree -> leaves [p, k, v, o, w] (mirrors Adapter!Leaves): p keys from the outermost group to the
    leaf, o the 1-based positions of the same nodes in the lists they were given in, w their lv."""
    out = []
    for i, node in enumerate(tree, 1):
        p, o, w = list(path) + [node["key"]], list(ords) + [i], list(ws) + [node["lv"]]
        if node["g"]:
            out += flatten(node["kids"], p, o, w)
        else:
            out.append(dict(p=p, k=node["k"], v=node["v"], o=o, w=w))
    return out


def valuer_classes(tree, anc=()):
    """mirrors Adapter!ValuerClasses"""
    res = set()
    for node in tree:
        if node["lv"]:
            ctx = "top" if not anc else "lit" if not any(anc) else "val" if anc[-1] else "val-lit"
            res.add("%s%s@%s" % ("group" if node["g"] else "leaf", "-chain" if node["lv"] >= 2 else "", ctx))
        if node["g"]:
            res |= valuer_classes(node["kids"], tuple(anc) + (node["lv"],))
    return res


def shape(tree):
    return dict(leaves=flatten(tree), tree=tree, vclasses=sorted(valuer_classes(tree)))


def base_shapes():
    """Hand-written attribute shapes: every log/slog kind, nesting to depth 3, a wide record, equal keys,
    LogValuers at every position.  Groups sort last on every level, where the library's logfmt/colored
    encoders print full dotted keys (an encoder, not an adapter, limitation).
    Record shapes 7-9 and derivation shape 3 exist for their EQUAL KEYS: with the derivation shapes
    (top level, inside zd, inside a WithGroup("G") group), with the group name G itself, and within
    one list (two leaves u, two groups zd).
    Record shapes 10-13 and derivation shapes 4-5 exist for their LOGVALUERS; each of the two sets
    contains all 16 positions of VALUER_CLASSES (shape 10 = the classic User -> Group(id, home:
    Address) with Address a LogValuer again)."""
    rec = [
        shape([]),
        shape([L("a", "bool", 1), L("b", "int", 1), L("c", "big", 1), L("d", "uint", 1), L("e", "float", 1), L("f", "str", 1),
               L("g", "dur", 1), L("h", "time", 1), L("i", "any", 1), L("j", "err", 1), L("k", "str", 5, lv=2), L("l", "str", 6, lv=1)]),
        shape([L("x", "int", 2), G("zg", L("a", "str", 2), G("zh", L("b", "big", 2), G("zi", L("c", "bool", 0), L("d", "float", 2))))]),
        shape([L("y", "uint", 2), G("zv", L("n", "int", 3), L("s", "str", 3), lv=1), G("zw", G("zq", L("u", "dur", 2), lv=1))]),
        shape([L("k%02d" % i, ["int", "str", "float", "big", "uint"][i % 5], 10 + i) for i in range(14)]),
        shape([G("ga", L("x", "int", 4)), L("m", "str", 4), L("n", "time", 2)]),
        shape([L("da", "float", 60), L("dq", "int", 61), G("zd", L("dx", "str", 62), L("dz", "int", 63)), L("da", "big", 64)]),
        shape([G("G", L("da", "int", 65), L("u", "str", 68)), L("db", "dur", 66), L("dd", "str", 67)]),
        shape([L("u", "int", 69), L("u", "str", 70), G("zd", L("dx", "float", 71)), G("zd", L("dy", "int", 72))]),
        # 10: leaf@top, leaf-chain@top (2 and 3 rounds), group@top, leaf@val
        shape([L("ua", "int", 80, lv=1), L("ub", "time", 81, lv=2), L("uc", "float", 82, lv=3),
               G("zu", L("id", "uint", 83), L("home", "str", 84, lv=1), lv=1)]),
        # 11: LogValuers as members of a literal group: leaf@lit, leaf-chain@lit, group@lit (+ leaf@val), group-chain@lit
        shape([L("va", "str", 85), G("zl", L("la", "dur", 86, lv=1), L("lb", "big", 87, lv=2), G("zm", L("ma", "bool", 1, lv=1), lv=1),
                                     G("zn", L("na", "int", 88), lv=2))]),
        # 12: a LogValuer (2 rounds) -> group containing a literal group containing LogValuers: group-chain@top, *@val-lit
        shape([G("zw", L("wa", "int", 89), G("zx", L("xa", "str", 90, lv=1), L("xb", "err", 91, lv=2), G("zy", L("ya", "any", 92), lv=1),
                                              G("zz", L("yb", "int", 93), lv=2)), lv=2)]),
        # 13: three LogValuers inside one another: group@val, leaf-chain@val, group-chain@val
        shape([G("zp", L("pa", "float", 94, lv=2), G("zq", L("qa", "str", 95, lv=1), G("zr", L("ra", "int", 96, lv=1), lv=1), lv=1),
                 G("zs", L("sa", "uint", 97), lv=3), lv=1)]),
    ]
    deriv = [
        shape([L("da", "int", 50), L("db", "str", 50)]),
        shape([G("zd", L("dx", "float", 51)), L("dc", "str", 56, lv=2)]),
        shape([L("da", "str", 52), G("G", L("da", "int", 53)), L("dd", "int", 54), L("dd", "uint", 55)]),
        # 4: *@top (but group-chain), *@val (but leaf-chain), *@val-lit
        shape([L("ea", "int", 100, lv=1), L("eb", "str", 101, lv=2),
               G("ze", L("ec", "uint", 102), L("ed", "time", 103, lv=1),
                 G("zf", L("ee", "float", 104, lv=1), L("ef", "dur", 112, lv=2), G("zg", L("eg", "int", 113), lv=1), G("zh", L("eh", "int", 114), lv=2)),
                 G("zi", L("ei", "str", 115), lv=1), G("zj", L("ej", "str", 116), lv=2), lv=1)]),
        # 5: *@lit, group-chain@top, leaf-chain@val
        shape([G("zk", L("ja", "big", 105, lv=1), L("jb", "str", 106, lv=2), G("zl", L("ka", "int", 107), lv=1), G("zm", L("kc", "bool", 0), lv=2)),
               G("zo", L("oa", "err", 108, lv=3), L("ob", "any", 109), lv=2)]),
    ]
    for name, shs in (("record", rec), ("derivation", deriv)):
        have = set(c for sh in shs for c in sh["vclasses"])
        if have != set(VALUER_CLASSES):
            raise Undecided("base %s shapes lack LogValuer positions %s" % (name, sorted(set(VALUER_CLASSES) - have)))
    return rec, deriv


def rec_times(seed):
    """The catalogue of record times (Adapter.tla, RECORD TIMES): ids 1..N_TIMES.  The edge instants come
    first; `kind` says how the worker makes the time.Time ("zero": time.Time{}; "zero-zone": time.Time{}.In(zone);
    "epoch": time.Unix(0, 0).In(zone); otherwise time.Date of the civil fields in the zone)."""
    import datetime

    def civil(kind, y, mo, dd, hh, mm, ss, n, off):
        return dict(kind=kind, y=y, mo=mo, dd=dd, hh=hh, mm=mm, ss=ss, n=n, off=off,
                    d=datetime.date(y, mo, dd).toordinal() - 1, s=hh * 3600 + mm * 60 + ss)

    def inst(kind, d_utc, s_utc, n, off):           # an instant (UTC day, second) as seen in a zone
        d, sec = divmod(d_utc * 86400 + s_utc + off, 86400)
        return dict(kind=kind, y=0, mo=0, dd=0, hh=0, mm=0, ss=0, n=n, off=off, d=d, s=sec)
    ts = [
        inst("zero", 0, 0, 0, 0),                                            # 1  time.Time{}
        inst("epoch", 719162, 0, 0, 0),                                      # 2  1970-01-01T00:00:00Z
        civil("y9999", 9999, 12, 31, 23, 59, 59, 999999999, 0),              # 3  the last instant RFC 3339 can print
        inst("zero-zone", 0, 0, 0, 7200),                                    # 4  0001-01-01T02:00:00+02:00, IsZero()
        inst("zero-zone", 0, 0, 0, -18000),                                  # 5  0000-12-31T19:00:00-05:00, IsZero()
        civil("near-zero", 1, 1, 1, 0, 0, 0, 1, 0),                          # 6  one nanosecond later
        inst("epoch", 719162, 0, 0, 19800),                                  # 7  1970-01-01T05:30:00+05:30
        civil("y9999", 9999, 12, 31, 23, 59, 59, 999999999, 19800),          # 8
        civil("pre-epoch", 1969, 12, 31, 23, 59, 59, 999999999, 0),          # 9  negative Unix time
        civil("near-zero", 1, 1, 1, 0, 0, 1, 0, 0),                          # 10 one second later
        civil("zone", 2024, 2, 29, 21, 30, 15, 123456789 + seed, 9 * 3600),  # 11 one instant ...
        civil("zone", 2024, 2, 29, 4, 30, 15, 123456789 + seed, -8 * 3600),  # 12 ... in two zones
    ]
    for i in range(len(ts) + 1, N_TIMES + 1):       # far from "now", in several zones, with nanoseconds
        ts.append(civil("ordinary", 2001 + i, 1 + (i * 5) % 12, 1 + (i * 3) % 28, (i * 7) % 24, (i * 11) % 60, (i * 13) % 60,
                        123456789 + i + seed, ((i % 7) - 3) * 1800))
    return ts


def nest_cells(quick):
    """Nested probes (Adapter.tla, NESTED RECORDS): outer record (v, sh, via, t, mi), carrier (car, kind k and
    value id cv of what it yields), inner record q.  Both ways to make a record, catalogue times on both
    sides (the zero time among them), inner gated out / outer gated out for some logger levels, levels other
    than the four standard ones, shapes with LogValuers on both sides."""
    def cell(car, k, cv, outer, inner):
        (v, sh, via, t, mi), (v2, sh2, via2, t2, mi2) = outer, inner
        return dict(v=v, sh=sh, via=via, t=t, mi=mi, car=car, k=k, cv=cv, q=dict(v=v2, sh=sh2, via=via2, t=t2, mi=mi2))
    cells = [
        cell("valuer", "str", 150, (0, 2, "logger", 0, 1), (-4, 6, "logger", 0, 2)),
        cell("valuer-group", "int", 151, (4, 3, "rec", 1, 3), (0, 6, "rec", 2, 1)),
        cell("stringer", "any", 152, (4, 1, "logger", 0, 2), (8, 2, "logger", 0, 3)),
        cell("error", "err", 153, (8, 6, "rec", 3, 1), (4, 1, "rec", 1, 2)),
        cell("valuer", "time", 154, (8, 2, "rec", 12, 3), (-4, 3, "logger", 0, 1)),
        cell("stringer", "any", 155, (-4, 5, "rec", 5, 1), (8, 6, "rec", 9, 3)),
        cell("error", "err", 156, (12, 3, "logger", 0, 2), (2, 2, "rec", 7, 1)),
        cell("valuer-group", "float", 157, (0, 10, "logger", 0, 3), (4, 11, "logger", 0, 2)),
    ]
    if not quick:
        cells += [
            cell("valuer", "dur", 158, (0, 7, "rec", 4, 2), (0, 7, "rec", 8, 3)),
            cell("valuer-group", "uint", 159, (-4, 8, "logger", 0, 1), (-4, 9, "logger", 0, 3)),
            cell("stringer", "any", 160, (8, 12, "rec", 6, 3), (0, 13, "rec", 10, 2)),
            cell("error", "err", 161, (0, 4, "logger", 0, 1), (8, 5, "rec", 11, 2)),
        ]
    return cells


def reg_cells(quick):
    """RegisterLevel calls offered: value, title, treated-as (NO_TREAT = option not given), error device,
    short tags.  Titles differ in their first three characters (the colored format prints 3)."""
    cells = [(41, WARN, False, False), (42, ERROR, True, True), (12, INFO, True, False), (1000, NO_TREAT, False, True)]
    if not quick:
        cells += [(43, DEBUG, False, False), (44, TRACE, True, True), (45, INFO, False, False), (100, ERROR, False, False)]
    out = []
    for i, (val, treat, err, tags) in enumerate(cells):
        a = "ABCDEFGHIJ"[i]
        t = "y%sq" % a.lower()
        out.append(dict(val=val, title="X%sZ%d" % (a, val), treat=treat, err=err,
                        tags=["", t[:1], t[:2], t, t + "r", t + "rs"] if tags else []))
    return out


def all_opts():
    res = []
    for lvl in (0, ERROR, WARN, INFO, DEBUG):
        for nc in (False, True):
            for ns in (False, True):
                for js in (False, True):
                    res.append(dict(nocolor=nc, nosource=ns, json=js, level=lvl))
    return res


def bmsgs_upto(n):
    res = [[]]
    frontier = [[]]
    for _ in range(n):
        frontier = [m + [c] for m in frontier for c in (A, NL)]
        res += frontier
    return res


def catalogue(ctx):
    rec, deriv = base_shapes()
    quick = ctx.quick()
    cat = dict(seed=ctx.seed, pkg_level=[WARN, INFO, ERROR][ctx.seed % 3], rec_shapes=rec, deriv_shapes=deriv, rec_times=rec_times(ctx.seed),
               hmsgs=[[A, 98], [A, NL, 98, 99], [A, 32, 98, NL]],
               bmsgs=[[], [NL], [A], [A, NL], [A, NL, NL], [A, NL, 98], [NL, A]] if quick else bmsgs_upto(3) + [[A, 98, NL, NL, NL]],
               regcells=reg_cells(quick))
    if quick:
        o = lambda nc, ns, js, lvl: dict(nocolor=nc, nosource=ns, json=js, level=lvl)
        cat["opts"] = [o(True, True, False, 0), o(False, False, False, 0), o(True, False, True, 0),
                       o(False, True, True, INFO), o(True, True, False, DEBUG), o(False, False, False, ERROR)]
    else:
        cat["opts"] = all_opts()
    return cat


def handle_cells(n_shapes, full):
    cells = []
    if full:
        for v in SLOG_LEVELS:
            for sh in range(1, n_shapes + 1):
                for via in ("logger", "rec"):
                    cells.append(dict(v=v, sh=sh, via=via, t=0 if via == "logger" else sh, mi=1 + (sh + v) % 3))
        return cells
    for i, v in enumerate(SLOG_LEVELS):
        via = "logger" if i % 2 else "rec"
        sh = 1 + i % n_shapes
        cells.append(dict(v=v, sh=sh, via=via, t=0 if via == "logger" else 1 + i, mi=1 + i % 3))
    for sh in range(1, n_shapes + 1):
        cells.append(dict(v=0, sh=sh, via="rec", t=sh + 10, mi=1))
        cells.append(dict(v=[4, 8, -4][sh % 3], sh=sh, via="logger", t=0, mi=2))
    return cells


N_PLAIN_REC, N_PLAIN_DERIV = 9, 3           # base shapes behind these exist for their LogValuers (see base_shapes)


def mc_configs(ctx, cat):
    """Exhaustive configurations: name -> constants.  The cell space of the property is
    set-up x derivation history x probe; `wide` has every set-up with short histories and all probes,
    `deep` fewer set-ups with derivation trees, `lv` the LogValuer shapes: every output format x
    derivation chains made of the LogValuer derivation shapes and WithGroup x records with LogValuers
    at every position (Adapter!ValuerCover)."""
    n_opts = len(cat["opts"])
    n_sh = len(cat["rec_shapes"])
    lv_rec = [2, 4] + list(range(N_PLAIN_REC + 1, n_sh + 1))
    lv_deriv = set(range(N_PLAIN_DERIV + 1, len(cat["deriv_shapes"]) + 1))
    plain_deriv = set(range(1, N_PLAIN_DERIV + 1))
    cfgs = {}
    if ctx.quick():
        roots = [dict(L=L, oi=1) for L in range(9)] + [dict(L=[TRACE, WARN][k % 2], oi=oi) for oi in range(2, n_opts + 1) for k in range(2)]
        bridges = [dict(L=L, sev=s, f=["json", "logfmt", "color"][(L + s) % 3]) for L in range(9) for s in range(12)]
        cells = handle_cells(N_PLAIN_REC, False) + [dict(v=[0, 8][sh % 2], sh=sh, via=["rec", "logger"][sh % 2], t=[sh + 10, 0][sh % 2], mi=3)
                                                    for sh in range(N_PLAIN_REC + 1, n_sh + 1)]
        cfgs["mc"] = dict(Roots=roots, MaxHandlers=3, DeriveFromAny=False, ProbeAll=False, DerivOffered=plain_deriv,
                          HandleCells=cells, BridgeCfgs=bridges, GroupNames={"G"})
        cfgs["lv"] = dict(Roots=[dict(L=TRACE, oi=1), dict(L=TRACE, oi=2), dict(L=DEBUG, oi=3), dict(L=WARN, oi=4)],
                          MaxHandlers=3, DeriveFromAny=False, ProbeAll=False, DerivOffered=lv_deriv, GroupNames={"G"}, BridgeCfgs=[],
                          HandleCells=[dict(v=v, sh=sh, via=via, t=0 if via == "logger" else sh, mi=1 + sh % 3)
                                       for sh in lv_rec for (v, via) in ((0, "rec"), (4, "logger"))],
                          NeedValuerClasses=VALUER_CLASSES)
        cfgs["reg"] = reg_config(cat, [dict(L=TRACE, oi=1), dict(L=WARN, oi=3), dict(L=INFO, oi=2)],
                                 [TRACE, WARN, ERROR, ALWAYS], 2)
        cfgs["mc"]["NeedTimeKinds"] = ["zero", "zero-zone", "epoch", "pre-epoch", "y9999", "zone", "ordinary"]
        # nested records: every format x handler trees of <= 3 (chains and siblings) x every (outer handler, inner
        # handler or 0 = another handler on the logger) x carriers; the time edges once more, on every handler
        cfgs["nest"] = dict(Roots=[dict(L=TRACE, oi=1), dict(L=WARN, oi=2), dict(L=DEBUG, oi=3), dict(L=INFO, oi=6)],
                            MaxHandlers=3, DeriveFromAny=True, ProbeAll=True, DerivOffered={1}, GroupNames={"G"}, BridgeCfgs=[],
                            HandleCells=[dict(v=v, sh=sh, via="rec", t=t, mi=1 + t % 3) for (v, sh, t) in
                                         ((0, 2, 1), (8, 6, 4), (4, 3, 6), (0, 1, 10), (8, 2, 3))],
                            NeedTimeKinds=["zero", "zero-zone", "near-zero", "y9999"], NestCells=nest_cells(True))
    else:
        roots = [dict(L=L, oi=oi) for L in range(9) for oi in range(1, n_opts + 1)]
        bridges = [dict(L=L, sev=s, f=f) for L in range(9) for s in range(12) for f in ("json", "logfmt", "color")]
        cfgs["wide"] = dict(Roots=roots, MaxHandlers=2, DeriveFromAny=False, ProbeAll=True, DerivOffered=plain_deriv,
                            HandleCells=handle_cells(N_PLAIN_REC, True), BridgeCfgs=bridges, GroupNames={"G", "H"})
        deep_roots = [dict(L=L, oi=oi) for (L, oi) in [(TRACE, 2), (INFO, 4), (DEBUG, 7), (WARN, 12), (ALWAYS, 21), (ERROR, 30), (OFF, 3), (TRACE, 40)]]
        cfgs["deep"] = dict(Roots=deep_roots, MaxHandlers=4, DeriveFromAny=True, ProbeAll=True, DerivOffered=plain_deriv,
                            HandleCells=handle_cells(N_PLAIN_REC, False), BridgeCfgs=[], GroupNames={"G"})
        # opts 1..8 = every (nocolor, nosource, json) combination with the level left alone
        cfgs["lv"] = dict(Roots=[dict(L=L, oi=oi) for L in (TRACE, INFO) for oi in range(1, 9)],
                          MaxHandlers=4, DeriveFromAny=False, ProbeAll=False, DerivOffered=lv_deriv, GroupNames={"G", "H"}, BridgeCfgs=[],
                          HandleCells=[dict(v=v, sh=sh, via=via, t=0 if via == "logger" else sh + v + 4, mi=1 + (sh + v) % 3)
                                       for sh in lv_rec for v in (-4, 0, 4, 8) for via in ("logger", "rec")],
                          NeedValuerClasses=VALUER_CLASSES)
        cfgs["reg"] = reg_config(cat, [dict(L=TRACE, oi=2), dict(L=WARN, oi=4), dict(L=INFO, oi=7), dict(L=DEBUG, oi=12),
                                       dict(L=ERROR, oi=21), dict(L=ALWAYS, oi=30)],
                                 [TRACE, DEBUG, INFO, WARN, ERROR, OFF, ALWAYS], 2)
        cfgs["wide"]["NeedTimeKinds"] = ["zero", "epoch", "y9999", "zero-zone", "near-zero", "pre-epoch"]
        # opts 1..8 = every (nocolor, nosource, json) combination with the level left alone; 21, 30, 35 set a level (Warn, Info, Debug)
        cfgs["nest"] = dict(Roots=[dict(L=L, oi=oi) for (L, oi) in ((TRACE, 1), (DEBUG, 2), (INFO, 5), (WARN, 7), (ERROR, 21), (TRACE, 30), (ALWAYS, 35))],
                            MaxHandlers=4, DeriveFromAny=True, ProbeAll=True, DerivOffered={1}, GroupNames={"G"}, BridgeCfgs=[],
                            HandleCells=[dict(v=v, sh=1 + t % 9, via="rec", t=t, mi=1 + t % 3) for t in range(1, 13) for v in (0, 8)],
                            NeedTimeKinds=[k for k in TIME_KINDS if k != "ordinary"], NestCells=nest_cells(False))
    return cfgs


def reg_config(cat, roots, bridge_levels, max_regs):
    """The registry part of the cell space: every set of <= max_regs registrations (in every order)
    x {nothing yet, a handler set-up with <= 1 derivation, a bridge at a built-in or registered
    severity} x probes at the four standard levels (both ways to make a record, colliding and plain
    shapes), two other levels, Enabled, Entry.Log and bridge writes.  Register edges leave EVERY state:
    before the handler/bridge exists and after."""
    n_sh = len(cat["rec_shapes"])
    cells = []
    for i, v in enumerate([-4, 0, 4, 8]):
        cells.append(dict(v=v, sh=[2, 7, 3, 8][i], via="rec", t=20 + i, mi=1 + i % 3))
        cells.append(dict(v=v, sh=[7, 1, 9, 6][i] if n_sh >= 9 else 1, via="logger", t=0, mi=1 + (i + 1) % 3))
    cells += [dict(v=12, sh=2, via="logger", t=0, mi=1), dict(v=-8, sh=3, via="rec", t=25, mi=2)]
    sevs = [INFO, WARN, DEBUG, 9] + [c["val"] for c in cat["regcells"]]
    bridges = [dict(L=L, sev=sv, f=["json", "logfmt", "color"][(i + j) % 3]) for i, L in enumerate(bridge_levels) for j, sv in enumerate(sevs)]
    return dict(Roots=roots, MaxHandlers=2, DeriveFromAny=False, ProbeAll=False, HandleCells=cells, BridgeCfgs=bridges,
                DerivOffered=set(range(1, N_PLAIN_DERIV + 1)), GroupNames={"G"}, RegCells=cat["regcells"], MaxRegs=max_regs)


def tlc_consts(cat, c, trace=False):
    k = dict(
        Roots=c.get("Roots", []), Opts=cat["opts"], SlogLevels=set(SLOG_LEVELS),
        RecTrees=[s["tree"] for s in cat["rec_shapes"]], DerivTrees=[s["tree"] for s in cat["deriv_shapes"]],
        RecLeaves=[flatten(s["tree"]) for s in cat["rec_shapes"]], DerivLeaves=[flatten(s["tree"]) for s in cat["deriv_shapes"]],
        NeedValuerClasses=set(c.get("NeedValuerClasses", [])),
        DerivOffered=set(c.get("DerivOffered", range(1, len(cat["deriv_shapes"]) + 1))),
        GroupNames=set(c.get("GroupNames", {"G"})), HandleCells=c.get("HandleCells", []), HMsgs=cat["hmsgs"],
        BridgeCfgs=c.get("BridgeCfgs", []), BMsgs=cat["bmsgs"], Deviations=set(c.get("Deviations", [])),
        RegCells=[dict(val=r["val"], treat=r["treat"], err=r["err"]) for r in c.get("RegCells", [])],
        RecTimes=[dict(d=t["d"], s=t["s"], n=t["n"], off=t["off"], kind=t["kind"]) for t in cat["rec_times"]],
        NeedTimeKinds=set(c.get("NeedTimeKinds", [])), NestCells=c.get("NestCells", []),
    )
    plain = dict(MaxHandlers=c.get("MaxHandlers", 64), MaxRegs=c.get("MaxRegs", 64 if trace else 0),
                 DeriveFromAny="TRUE" if c.get("DeriveFromAny", True) else "FALSE",
                 ProbeAll="TRUE" if c.get("ProbeAll", True) else "FALSE", PkgLevel=cat["pkg_level"])
    return k, plain


INVARIANTS = ["TypeOK", "KeepsConfig", "AddsGiven", "RecordComplete", "RecordWins", "StdNamesake", "RegistryLocal",
              "StdIndependent", "EnabledAgrees", "NoTerminating", "BridgeGate", "BridgeMsgInv",
              "OwnTimeKept", "NestedReturns", "NestedOwnContent", "SecondAdapterSame"]
PROPERTIES = ["RegistrationLocal"]


# ------------------------------------------------------------------ TLC: exhaustive + witnesses

def parse_dot_edges(path):
    """TLC `-dump dot,actionlabels`: (nodes, edges [(src, label, dst)], initial states)."""
    import re
    edge = re.compile(r'^(-?\d+) -> (-?\d+) \[label="(.*?)",color=')
    node = re.compile(r'^(-?\d+) \[label=".*?"(,style = filled)?')
    nodes, edges, inits, seen = {}, [], [], set()
    with open(path) as fh:
        for line in fh:
            m = edge.match(line)
            if m:
                e = (m.group(1), m.group(3).replace('\\"', '"'), m.group(2))
                if e not in seen:
                    seen.add(e)
                    edges.append(e)
                continue
            m = node.match(line)
            if m:
                nodes[m.group(1)] = True
                if m.group(2):
                    inits.append(m.group(1))
    if not inits:
        raise Undecided("no initial state in dump")
    return nodes, edges, inits


def label_to_event(label, c):
    name, a = parse_action(label)
    if name == "NewHandler":
        r = c["Roots"][a[0] - 1]
        return dict(op="NewHandler", L=r["L"], oi=r["oi"])
    if name == "WithAttrs":
        return dict(op="WithAttrs", h=a[0], a=a[1])
    if name == "WithGroup":
        return dict(op="WithGroup", h=a[0], g=a[1])
    if name == "Enabled":
        return dict(op="Enabled", h=a[0], v=a[1])
    if name == "Handle":
        return dict(op="Handle", h=a[0], **c["HandleCells"][a[1] - 1])
    if name == "Nested":
        return dict(op="Nested", h=a[0], h2=a[1], **c["NestCells"][a[2] - 1])
    if name == "EntryLog":
        return dict(op="EntryLog", v=a[0], mi=1)
    if name == "NewBridge":
        b = c["BridgeCfgs"][a[0] - 1]
        return dict(op="NewBridge", L=b["L"], sev=b["sev"], f=b["f"])
    if name == "BridgeWrite":
        return dict(op="Bridge", mi=a[0], direct=True)
    if name == "BridgePrint":
        return dict(op="Bridge", mi=a[0], direct=False)
    if name == "Register":
        return dict(op="Register", **c["RegCells"][a[0] - 1])
    raise Undecided("unknown action label %r" % label)


def tree_cover(edges, inits, evs):
    """The graph is acyclic apart from self-loops (probes never change the state): one behaviour
    per state = a derivation path to it followed by all its probes, plus one bare path for every
    further way into an already covered state; together every edge is executed."""
    out, loops = {}, {}
    for i, (s, _, d) in enumerate(edges):
        if s == d:
            loops.setdefault(s, []).append(i)
        else:
            out.setdefault(s, []).append(i)
    behs = []
    visited = {inits[0]}
    stack = [(inits[0], [])]
    while stack:
        s, path = stack.pop()
        kids = out.get(s, [])
        if loops.get(s):
            behs.append(path + loops[s])
        elif not kids and path:
            behs.append(path)
        for ei in kids:
            d = edges[ei][2]
            if d in visited:
                behs.append(path + [ei])
            else:
                visited.add(d)
                stack.append((d, path + [ei]))
    covered = set(i for b in behs for i in b)
    if len(covered) != len(edges):
        raise Undecided("edge cover incomplete: %d of %d" % (len(covered), len(edges)))
    return [[evs[i] for i in b] for b in behs]


def run_mc(ctx, cat, name, c):
    k, plain = tlc_consts(cat, c)
    mc, cfg = gen_mc("MC", "Adapter", k, ["INIT Init", "NEXT Next", "ALIAS DumpAlias", "CHECK_DEADLOCK FALSE",
                                          "INVARIANTS " + " ".join(INVARIANTS), "PROPERTIES " + " ".join(PROPERTIES)], plain=plain)
    dot = os.path.join(ctx.scratch, "graph-" + name)
    ctx.model_check("MC", "MC.cfg", files={"MC.tla": mc, "MC.cfg": cfg}, extra=["-dump", "dot,actionlabels", dot],
                    name="adapter-" + name, timeout=1500)
    nodes, edges, inits = parse_dot_edges(dot + ".dot")
    os.remove(dot + ".dot")
    if len(inits) != 1:
        raise Undecided("expected one initial state, got %d" % len(inits))
    evs = [label_to_event(lbl, c) for (_, lbl, _) in edges]
    per_action = {}
    for e in evs:
        per_action[e["op"]] = per_action.get(e["op"], 0) + 1
    need = {"NewHandler", "WithAttrs", "WithGroup", "Enabled", "Handle", "EntryLog"} | ({"NewBridge", "Bridge"} if c.get("BridgeCfgs") else set()) \
        | ({"Register"} if c.get("RegCells") else set()) | ({"Nested"} if c.get("NestCells") else set())
    if need - set(per_action):
        raise Undecided("vacuous exploration: no edge for %s" % sorted(need - set(per_action)))
    behs = tree_cover(edges, inits, evs)
    ctx.extra["graph_" + name] = dict(states=len(nodes), edges=len(edges), behaviours=len(behs), per_action=per_action)
    return behs


def run_witnesses(ctx, cat, witnesses):
    """Each deviation enabled must break its invariant: the invariants are not vacuous and the
    deviation really contradicts the property."""
    c = dict(Roots=[dict(L=TRACE, oi=1), dict(L=ERROR, oi=2)], MaxHandlers=2, DeriveFromAny=False, ProbeAll=False,
             HandleCells=handle_cells(len(cat["rec_shapes"]), False)[:3], GroupNames={"G"},
             BridgeCfgs=[dict(L=TRACE, sev=INFO, f="json"), dict(L=ERROR, sev=INFO, f="json")],
             RegCells=cat["regcells"][:3], MaxRegs=1, NestCells=nest_cells(True)[:4], NeedTimeKinds=["zero"])
    res = {}
    for dev, inv in witnesses:
        k, plain = tlc_consts(cat, dict(c, Deviations=[dev]))
        mc, cfg = gen_mc("MCW", "Adapter", k, ["INIT Init", "NEXT Next", "CHECK_DEADLOCK FALSE", "INVARIANTS " + " ".join(INVARIANTS)], plain=plain)
        r = ctx.tlc("MCW", "MCW.cfg", files={"MCW.tla": mc, "MCW.cfg": cfg}, name="witness-" + dev, allow_fail=True, workers=2, timeout=300)
        if not set(inv.split()) & set(r.invariant_violated):
            raise Undecided("witness run: deviation %s did not violate %s (violated: %s)\n%s" % (dev, inv, r.invariant_violated, r.out[-2000:]))
        res[dev] = inv
    ctx.extra.setdefault("witness_invariant_failures", {}).update(res)


# ------------------------------------------------------------------ seeded random behaviours

KINDS = ["bool", "int", "big", "uint", "float", "str", "dur", "time", "any", "err"]


def random_tree(rng, next_id, prefix, groups_last=True, p_lv=0.25):
    """A random attribute tree, depth <= 3, unique keys, unique (kind, id) values; every node is a
    LogValuer with probability p_lv (1, 2 or 3 rounds)."""
    def rlv():
        return rng.choice([1, 1, 1, 2, 2, 3]) if rng.random() < p_lv else 0

    def rleaf(key):
        kind = rng.choice(KINDS)
        return L(key, kind, rng.randint(0, 1) if kind == "bool" else next_id(), lv=rlv())

    def level(depth, budget):
        nodes = [rleaf("%s%d%s" % (prefix, depth, "abcdef"[i])) for i in range(rng.randint(0 if depth else 1, 3))]
        if depth < 3 and budget > 0:
            for j in range(rng.randint(0, 2)):
                key = ("z" if groups_last else "A") + "%s%d%s" % (prefix, depth, "pqr"[j])
                kids = level(depth + 1, budget - 1)
                if not kids:                   # no empty groups (log/slog omits them)
                    kids = [L("%se" % prefix, "int", next_id(), lv=rlv())]
                nodes.append(G(key, *kids, lv=rlv()))
        return nodes
    return level(0, 2)


def collider(rng, next_id, tree, prefix, group_names):
    """A tree whose keys collide with `tree` (another shape) level by level - same key, new kind and
    value, LogValuer or not independently of the original; a group may be met by a group or by a leaf -
    plus keys equal to WithGroup names, a key of its own, and now and then one of its own keys twice."""
    def rlv():
        return rng.choice([1, 1, 2, 3]) if rng.random() < 0.25 else 0

    def level(nodes, depth):
        out = []
        for node in nodes:
            if rng.random() < 0.35:
                continue
            kind = rng.choice(KINDS)
            if not node["g"] or rng.random() < 0.2:
                out.append(L(node["key"], kind, rng.randint(0, 1) if kind == "bool" else next_id(), lv=rlv()))
            else:
                kids = level(node["kids"], depth + 1) or [L("%se%d" % (prefix, depth), "int", next_id())]
                out.append(G(node["key"], *kids, lv=rlv()))
        out.append(L("%so%d" % (prefix, depth), "str", next_id()))
        if out and rng.random() < 0.4:           # an equal key inside this very list (a later instance)
            twin = rng.choice(out)
            out.append(L(twin["key"], "int", next_id(), lv=rlv()) if not twin["g"] or rng.random() < 0.5
                       else G(twin["key"], L("%st%d" % (prefix, depth), "uint", next_id()), lv=rlv()))
        return out
    res = level(tree, 0)
    if rng.random() < 0.5:                       # the name of a WithGroup group, as a leaf or as a group
        g = rng.choice(group_names)
        inner = [L(n["key"], "int", next_id()) for n in tree if not n["g"]][:2] or [L("%sg" % prefix, "int", next_id())]
        res.insert(rng.randint(0, len(res)), L(g, "str", next_id(), lv=rlv()) if rng.random() < 0.4 else G(g, *inner, lv=rlv()))
    return res


def random_part(ctx, cat, count, depth):
    """Extends the catalogue with random shapes and returns random behaviours over it."""
    rng = random.Random(ctx.seed * 104729 + 7)
    ids = [200]

    def next_id():
        ids[0] += 1
        return ids[0]
    groups = ["G", "H", "K", "zz"]
    # every other random shape is LogValuer-heavy (most nodes are LogValuers, so most of them nest)
    for i in range(8 if ctx.quick() else 30):
        cat["rec_shapes"].append(shape(random_tree(rng, next_id, "r%d" % i, groups_last=(i % 4 != 3), p_lv=[0.2, 0.7][i % 2])))
    for i in range(4 if ctx.quick() else 12):
        cat["deriv_shapes"].append(shape(random_tree(rng, next_id, "w%d" % i, p_lv=[0.7, 0.2][i % 2])))
    # colliders: per derivation shape two record shapes and one derivation shape with its keys
    n_der = len(cat["deriv_shapes"])
    rec_vs, der_vs = {}, {}                    # derivation shape index (1-based) -> colliding shape indices
    for a in range(1, n_der + 1):
        t = cat["deriv_shapes"][a - 1]["tree"]
        for j in range(2):
            cat["rec_shapes"].append(shape(collider(rng, next_id, t, "c%d%s" % (a, "xy"[j]), groups)))
            rec_vs.setdefault(a, []).append(len(cat["rec_shapes"]))
        cat["deriv_shapes"].append(shape(collider(rng, next_id, t, "v%d" % a, groups)))
        der_vs.setdefault(a, []).append(len(cat["deriv_shapes"]))
        der_vs.setdefault(len(cat["deriv_shapes"]), []).append(a)
        rec_vs.setdefault(len(cat["deriv_shapes"]), []).extend(rec_vs[a])
    ctx.extra["catalogue"] = dict(rec_shapes=len(cat["rec_shapes"]), deriv_shapes=len(cat["deriv_shapes"]), regcells=len(cat["regcells"]))
    exotic = SLOG_LEVELS + [-16, -12, -5, -3, 1, 3, 5, 7, 9, 15, 18, 100, -100, 2147483647, -2147483648]
    behs = []

    class Chain:                               # what the random behaviour has derived so far
        def __init__(self):
            self.used = {1: []}                # handler -> derivation shapes on its path

        def derive(self, h, new):
            used = self.used[h]
            if rng.random() < 0.55:
                pool = [x for a in used for x in der_vs.get(a, [])]
                a = rng.choice(pool) if pool and rng.random() < 0.5 else rng.randint(1, len(cat["deriv_shapes"]))
                self.used[new] = used + [a]
                return dict(op="WithAttrs", h=h, a=a)
            self.used[new] = used
            return dict(op="WithGroup", h=h, g=rng.choice(groups))

        def shape_for(self, h):
            pool = [x for a in self.used[h] for x in rec_vs.get(a, [])]
            if pool and rng.random() < 0.5:
                return rng.choice(pool)
            return rng.randint(1, len(cat["rec_shapes"]))

    def handle(ch, h, levels):
        via = rng.choice(["logger", "rec"])
        return dict(op="Handle", h=h, v=rng.choice(levels), sh=ch.shape_for(h), via=via,
                    t=0 if via == "logger" else rng.randint(1, N_TIMES), mi=rng.randint(1, len(cat["hmsgs"])))

    def nested(ch, h, h2, levels):
        """a nested pair: outer through h, inner through h2 (0 = another handler on the same logger)"""
        car = rng.choice(CARRIERS)
        k = "any" if car == "stringer" else "err" if car == "error" else rng.choice([x for x in KINDS if x not in ("any", "err", "bool")])
        via, via2 = rng.choice(["logger", "rec"]), rng.choice(["logger", "rec"])
        mi = rng.randint(1, len(cat["hmsgs"]))
        mi2 = rng.choice([m for m in range(1, len(cat["hmsgs"]) + 1) if m != mi])
        return dict(op="Nested", h=h, h2=h2, v=rng.choice(levels), sh=ch.shape_for(h), via=via, t=0 if via == "logger" else rng.randint(1, N_TIMES),
                    mi=mi, car=car, k=k, cv=next_id(),
                    q=dict(v=rng.choice(levels), sh=ch.shape_for(h2) if h2 else rng.randint(1, len(cat["rec_shapes"])), via=via2,
                           t=0 if via2 == "logger" else rng.randint(1, N_TIMES), mi=mi2))

    def with_registrations(beh, p):
        """Interleaves 1..3 RegisterLevel calls (distinct cells) at random places, also in front of the set-up."""
        if rng.random() >= p:
            return beh
        cells = rng.sample(cat["regcells"], rng.randint(1, min(3, len(cat["regcells"]))))
        for c in cells:
            beh.insert(rng.randint(0, len(beh)), dict(op="Register", **c))
        return beh
    # siblings: a chain of k derivations, then several handlers derived from the same parent, all
    # probed afterwards (an implementation that shares storage between siblings shows here)
    for b in range(count // 3):
        ch = Chain()
        beh = [dict(op="NewHandler", L=rng.choice([TRACE, ALWAYS, DEBUG]), oi=rng.randint(1, len(cat["opts"])))]
        k = rng.randint(0, 5)
        for x in range(k):
            beh.append(ch.derive(x + 1, x + 2))
        parent = k + 1
        sibs = rng.randint(2, 3)
        for x in range(sibs):
            beh.append(ch.derive(parent, parent + 1 + x))
        for h in range(1, parent + sibs + 1):
            beh.append(handle(ch, h, [-4, 0, 4, 8]))
            beh.append(dict(op="Enabled", h=h, v=rng.choice([-4, 0, 4, 8])))
        # nested pairs between the siblings, and between a sibling and any other handler of the tree (cousins included)
        for x in range(3):
            h = parent + 1 + rng.randrange(sibs)
            h2 = parent + 1 + rng.randrange(sibs) if x < 2 else rng.randint(0, parent + sibs)
            beh.append(nested(ch, h, h2, [-4, 0, 4, 8]))
        behs.append(with_registrations(beh, 0.25))
    for b in range(count):
        ch = Chain()
        beh = [dict(op="NewHandler", L=rng.randint(0, 8), oi=rng.randint(1, len(cat["opts"])))]
        n = 1
        for _ in range(depth):
            x = rng.random()
            if x < 0.2 and n < 7:
                beh.append(ch.derive(rng.randint(1, n), n + 1))
                n += 1
            elif x < 0.35:
                beh.append(dict(op="Enabled", h=rng.randint(1, n), v=rng.choice(exotic)))
            elif x < 0.45:
                beh.append(dict(op="EntryLog", v=rng.choice(exotic), mi=rng.randint(1, len(cat["hmsgs"]))))
            elif x < 0.55:
                beh.append(nested(ch, rng.randint(1, n), rng.randint(0, n), exotic if rng.random() < 0.3 else [-4, 0, 4, 8]))
            else:
                beh.append(handle(ch, rng.randint(1, n), exotic if rng.random() < 0.5 else [-4, 0, 4, 8]))
        behs.append(with_registrations(beh, 0.3))
    for b in range(count // 3):
        regs = rng.sample(cat["regcells"], rng.randint(0, 2)) if rng.random() < 0.5 else []
        sevs = list(range(12)) + [c["val"] for c in regs] * 4
        beh = [dict(op="Register", **c) for c in regs]
        beh.append(dict(op="NewBridge", L=rng.randint(0, 8), sev=rng.choice(sevs), f=rng.choice(["json", "logfmt", "color"])))
        late = [c for c in cat["regcells"] if c not in regs]
        for _ in range(depth // 2):
            if late and regs and rng.random() < 0.05:
                beh.append(dict(op="Register", **late.pop()))
            beh.append(dict(op="Bridge", mi=rng.randint(1, len(cat["bmsgs"])), direct=rng.random() < 0.5))
        behs.append(beh)
    return behs


# ------------------------------------------------------------------ execution on the library + validation

def execute(ctx, cat, behaviours, tag):
    script = dict(cat, behaviours=behaviours)
    for key in ("rec_shapes", "deriv_shapes"):
        script[key] = [dict(tree=sh["tree"]) for sh in script[key]]
    sp = os.path.join(ctx.scratch, "script-%s.json" % tag)
    with open(sp, "w") as fh:
        json.dump(script, fh)
    tp = os.path.join(ctx.scratch, "trace-%s.ndjson" % tag)
    ctx.run_worker(["adapter", sp, tp], testing=True, timeout=3000)
    rows = read_ndjson(tp)
    k, plain = tlc_consts(cat, dict(MaxHandlers=64), trace=True)
    k["TraceFile"] = "trace.ndjson"
    mct, cfg = gen_mc("MCT", "AdapterTrace", k, ["SPECIFICATION TSpec", "INVARIANTS Done TTypeOK TKeepsConfig TAddsGiven TStdIndependent TRegistryLocal TSecondAdapterSame",
                                                 "CHECK_DEADLOCK FALSE"], plain=plain)
    r = ctx.tlc("MCT", "MCT.cfg", files={"MCT.tla": mct, "MCT.cfg": cfg}, copy={tp: "trace.ndjson"}, workers=1,
                name="adapter-trace-" + tag, timeout=3000, heap="4g", allow_fail=True)
    if r.invariant_violated:
        raise Undecided("trace run: invariant %s violated on a recorded behaviour:\n%s" % (r.invariant_violated, r.out[-3000:]))
    if not r.ok:
        raise Undecided("trace validation run failed (rc=%s):\n%s" % (r.rc, r.out[-5000:]))
    bad = r.prints("bad")
    end = r.prints("end")
    if len(end) != 1 or end[0]["lines"] != len(rows) or end[0]["bad"] != len(bad):
        raise Undecided("trace validation did not reach the end of the log (%d lines, end=%s, %d rejected):\n%s" % (
            len(rows), end, len(bad), r.out[-3000:]))
    return script, rows, sorted(bad, key=lambda b: b["line"])


KSTRIDE = 1000


def equal_key_classes(cat, chain, sh, memo):
    """Which kinds of equal keys the record tree of (derivation chain, record shape) contains: "hr" a
    handler attribute and a record attribute, "hh" two handler attributes, "rr" two attributes of the
    record - same key in the same group instance (mirrors Adapter!Contested; evidence only, no verdict)."""
    key = (chain, sh)
    if key in memo:
        return memo[key]
    leaves, pre, preo = [], [], []

    def add(step, shape_leaves, src):
        for lf in shape_leaves:
            leaves.append((tuple(pre + lf["p"]), tuple(preo + [step * KSTRIDE + lf["o"][0]] + lf["o"][1:]), src))
    for i, (op, x) in enumerate(chain, 1):
        if op == "a":
            add(i, cat["deriv_shapes"][x - 1]["leaves"], "h")
        else:
            pre.append(x)
            preo.append(i * KSTRIDE)
    add(len(chain) + 1, cat["rec_shapes"][sh - 1]["leaves"], "r")
    res = set()
    for i, (p1, o1, s1) in enumerate(leaves):
        for (p2, o2, s2) in leaves[i + 1:]:
            for d in range(1, min(len(p1), len(p2)) + 1):
                if p1[:d] != p2[:d] or o1[:d - 1] != o2[:d - 1]:
                    break
                if o1[d - 1] != o2[d - 1]:
                    res.add("".join(sorted(s1 + s2)))
                    break
    memo[key] = res
    return res


def describe(cat, ev):
    d = {k: (dict(v) if k == "q" and isinstance(v, dict) else v) for k, v in ev.items() if k not in ("recs",)}
    for q in [d] + ([d["q"]] if isinstance(d.get("q"), dict) else []):
        if q.get("t"):
            tm = cat["rec_times"][q["t"] - 1]
            q["time"] = "%s: day %d of the era + %d s + %d ns at UTC%+d s" % (tm["kind"], tm["d"], tm["s"], tm["n"], tm["off"])
    recs = ev.get("recs")
    if recs is not None:
        d["records"] = [dict(w=r["w"], fmt=r["fmt"], sev=r["sev"], msg=bytes(r["msg"]).decode("latin1"),
                             t=("now " if r["t"]["now"] else "") + r["t"]["text"],
                             leaves=["%s%s=%s/%s" % ("".join(p + "." for p in l["p"]), l["k"], l["kind"], l["v"]) for l in r["leaves"]])
                        for r in recs]
    return json.dumps(d)[:1400]


def relation(parents, h, h2):
    """mirrors Adapter!Rel"""
    def anc(a, b):
        while b:
            b = parents[b]
            if b == a:
                return True
        return False
    if h2 == 0:
        return "other"
    if h2 == h:
        return "same"
    if anc(h2, h):
        return "ancestor"
    if anc(h, h2):
        return "descendant"
    return "sibling" if parents[h] == parents[h2] else "cousin"


def account(ctx, cat, script, rows, bad, sources):
    starts = [i for i, r in enumerate(rows) if r["op"] == "Reset"]
    behaviours = script["behaviours"]
    # a call that did not return ends its process: the main one (the recording stops there) or the child a
    # behaviour with registrations runs in (that behaviour stops there)
    hung = [i for i, r in enumerate(rows) if r.get("hang")]
    cut = bool(hung) and hung[-1] == len(rows) - 1
    if len(starts) != len(behaviours) and not (cut and 0 < len(starts) < len(behaviours)):
        raise Undecided("worker recorded %d behaviours, script has %d" % (len(starts), len(behaviours)))
    if hung:
        ctx.extra["calls_that_did_not_return"] = ctx.extra.get("calls_that_did_not_return", 0) + len(hung)
    ctx.traces += len(starts)
    ctx.evaluations += sum(1 for r in rows if r["op"] not in ("Reset", "Proc"))
    ctx.extra["processes"] = ctx.extra.get("processes", 0) + sum(1 for bh in behaviours if any(e["op"] == "Register" for e in bh)) + 1
    seen = set()
    memo = ctx.extra.setdefault("_ek_memo", {})
    ek = ctx.extra.setdefault("equal_key_records", dict(hr=0, hh=0, rr=0, cells=set()))
    vp = ctx.extra.setdefault("logvaluer_positions_emitted", {w + c: 0 for w in ("rec:", "rec-under-group:", "given:", "given-under-group:")
                                                              for c in VALUER_CLASSES})
    tk = ctx.extra.setdefault("record_time_kinds_emitted", {k: 0 for k in TIME_KINDS})
    np = ctx.extra.setdefault("nested_pairs_emitted", {"%s:%s" % (rel, car): 0 for rel in NEST_RELS + ["cousin"] for car in CARRIERS})
    for bi, s in enumerate(starts):
        hist = []
        chains = [None, ()]
        parents = [None, 0]
        end = starts[bi + 1] if bi + 1 < len(starts) else len(rows)
        body = [r for r in rows[s + 1:end] if r["op"] != "Proc"]
        stopped = bool(body) and bool(body[-1].get("hang"))
        if (len(body) != len(behaviours[bi]) and not (stopped and len(body) < len(behaviours[bi]))) or any(r["op"] != e["op"] for r, e in zip(body, behaviours[bi])):
            raise Undecided("recording of behaviour %d does not match its script (%d lines for %d calls)" % (bi, len(body), len(behaviours[bi])))
        for r in body:
            if r["op"] in ("NewHandler", "NewBridge", "WithAttrs", "WithGroup", "Register"):
                hist.append(json.dumps({k: v for k, v in r.items() if k in ("op", "L", "oi", "sev", "f", "h", "a", "g", "val")}, sort_keys=True))
                if r["op"] == "WithAttrs":
                    chains.append(chains[r["h"]] + (("a", r["a"]),))
                    parents.append(r["h"])
                elif r["op"] == "WithGroup":
                    chains.append(chains[r["h"]] + (("g", r["g"]),))
                    parents.append(r["h"])
            if r["op"] == "Handle" and r.get("recs"):
                for cls in equal_key_classes(cat, chains[r["h"]], r["sh"], memo):
                    ek[cls] += 1
                    ek["cells"].add((chains[r["h"]], r["sh"], cls))
                # LogValuer positions that were really emitted: in the record / given to WithAttrs, under WithGroup or not
                grouped = False
                for (op, x) in chains[r["h"]]:
                    if op == "g":
                        grouped = True
                    else:
                        for cls in cat["deriv_shapes"][x - 1]["vclasses"]:
                            vp[("given-under-group:" if grouped else "given:") + cls] += 1
                for cls in cat["rec_shapes"][r["sh"] - 1]["vclasses"]:
                    vp[("rec-under-group:" if grouped else "rec:") + cls] += 1
            if r["op"] in ("Handle", "Nested") and r.get("recs") and r["t"]:
                tk[cat["rec_times"][r["t"] - 1]["kind"]] += 1
            if r["op"] == "Nested" and not r.get("hang") and len(r["recs"]) >= 2:
                np["%s:%s" % (relation(parents, r["h"], r["h2"]), r["car"])] += 1
                if r["q"]["t"]:
                    tk[cat["rec_times"][r["q"]["t"] - 1]["kind"]] += 1
            if r["op"] == "Enabled" or (r["op"] in ("Handle", "Nested", "EntryLog", "Bridge") and r.get("recs")):
                seen.add((tuple(hist), json.dumps({k: v for k, v in r.items() if k in ("op", "h", "h2", "v", "sh", "via", "t", "mi", "direct", "car", "q")}, sort_keys=True)))
    ctx.extra.setdefault("nontrivial_keys", set()).update(seen)
    import bisect
    per_key = {}
    for b in bad:
        line = b["line"] - 1
        bi = bisect.bisect_right(starts, line) - 1
        per_key[b["key"]] = per_key.get(b["key"], 0) + 1
        if per_key[b["key"]] > 5 and not any(k["key"] == b["key"] for k in ctx.known):
            continue          # enough reproducers of this class; all are counted below
        upto = len([r for r in rows[starts[bi] + 1:line + 1] if r["op"] != "Proc"])
        ev = rows[line]
        # a replay needs the registrations, set-up and derivations before the failing call, not the other probes
        prefix = [e for e in behaviours[bi][:upto - 1] if e["op"] in ("NewHandler", "NewBridge", "WithAttrs", "WithGroup", "Register")]
        what = "after %s, %s: model verdict %s; call and observation: %s" % (
            json.dumps([{k: v for k, v in e.items() if k != "tags"} for e in prefix])[:700] if prefix else "nothing", ev["op"], b["key"], describe(cat, ev))
        if ev.get("hang"):
            what = "THE CALL DID NOT RETURN (%d s, the process used %d ms of CPU time in the last 30 s); " % (ev.get("wall_s", 0), ev.get("cpu_ms_last_30s", 0)) + what
        ctx.finding(b["key"], what, dict(kind="adapter", script={**script, "behaviours": [prefix + [behaviours[bi][upto - 1]]]},
                                         key=b["key"], observed=ev, source=sources[bi]))
    tot = ctx.extra.setdefault("rejected_lines_per_key", {})
    for k, v in per_key.items():
        tot[k] = tot.get(k, 0) + v


def run_replay(ctx, path):
    with open(path) as fh:
        rp = json.load(fh)["replay"]
    script = rp["script"]
    cat = {k: v for k, v in script.items() if k != "behaviours"}
    script, rows, bad = execute(ctx, cat, script["behaviours"], "replay")
    for b in bad:
        ev = rows[b["line"] - 1]
        ctx.finding(b["key"], "replay diverges at line %d: verdict %s; %s" % (b["line"], b["key"], describe(cat, ev)), rp)
    ctx.traces += 1
    ctx.evaluations += len(rows)
    return ctx.finish(rule="replay of one recorded behaviour", exhaustive=False)


def run(ctx, replay):
    if replay:
        return run_replay(ctx, replay)
    cat = catalogue(ctx)
    behaviours = []
    from concurrent.futures import ThreadPoolExecutor
    with ThreadPoolExecutor(max_workers=7) as ex:      # independent TLC runs, each in its own scratch directory
        futs = [ex.submit(run_mc, ctx, cat, name, c) for name, c in mc_configs(ctx, cat).items()]
        wits = [ex.submit(run_witnesses, ctx, cat, WITNESSES[i::2]) for i in range(2)]
        for f in futs:
            behaviours += f.result()
        for w in wits:
            w.result()
    n_cover = len(behaviours)
    # seeded random behaviours over the catalogue extended with random shapes (a superset, so the
    # edge cover and the random part are executed and validated together)
    rb = random_part(ctx, cat, 40 if ctx.quick() else 1000, 30 if ctx.quick() else 60)
    # random behaviours (bigger shapes, longer chains: costlier to validate per line) are spread evenly over
    # the cover behaviours, so that the chunks below cost about the same
    tagged = [("edge-cover", b) for b in behaviours]
    stride = len(tagged) / float(len(rb)) if rb else 0
    for j in reversed(range(len(rb))):
        tagged.insert(int(j * stride), ("random", rb[j]))
    # independent chunks: each is executed by its own worker process and validated by its own TLC
    k = 4 if ctx.quick() else 8
    size = sum(len(b) for _, b in tagged) // k + 1
    chunks, cur, n = [], [], 0
    for t in tagged:
        cur.append(t)
        n += len(t[1])
        if n >= size:
            chunks.append(cur)
            cur, n = [], 0
    if cur:
        chunks.append(cur)
    ctx.worker()
    with ThreadPoolExecutor(max_workers=len(chunks)) as ex:
        futs = [ex.submit(execute, ctx, cat, [b for _, b in ch], "c%d" % i) for i, ch in enumerate(chunks)]
        results = [f.result() for f in futs]
    n_rows = 0
    for ch, (script, rows, bad) in zip(chunks, results):
        account(ctx, cat, script, rows, bad, [src for src, _ in ch])
        n_rows += len(rows)
        for r in rows:
            if r["op"] == "Handle" and r.get("recs") and r["h"] == 1 and r["sh"] == 3 and len(ctx.samples) < 1:
                ctx.sample(dict(call={k: v for k, v in r.items() if k != "recs"}, decoded_record=r["recs"][0]))
                break
    ctx.sample(dict(random_behaviour=rb[0][:8]))
    ctx.nontrivial = len(ctx.extra.pop("nontrivial_keys"))
    ctx.extra.pop("_ek_memo", None)
    ek = ctx.extra["equal_key_records"]
    ek["cells"] = len(ek["cells"])
    if not (ek["hr"] and ek["hh"] and ek["rr"]):
        raise Undecided("vacuous: no record with equal keys of some class was emitted: %s" % ek)
    lacking = sorted(k for k, n in ctx.extra["logvaluer_positions_emitted"].items() if not n)
    if lacking:
        raise Undecided("vacuous: no record was emitted with a LogValuer at %s" % lacking)
    lacking = sorted(k for k, n in ctx.extra["record_time_kinds_emitted"].items() if not n)
    if lacking:
        raise Undecided("vacuous: no record carrying its own time of kind %s was emitted" % lacking)
    lacking = sorted(k for k, n in ctx.extra["nested_pairs_emitted"].items() if not n and not k.startswith("cousin:"))
    if lacking and not ctx.extra.get("calls_that_did_not_return"):
        raise Undecided("vacuous: no nested pair of records (relation of the inner handler:carrier) %s was emitted" % lacking)
    ctx.extra["cover_behaviours"] = n_cover
    ctx.extra["random_behaviours"] = len(rb)
    ctx.extra["trace_events"] = n_rows
    ctx.assumptions += [
        "records are decoded by the harness's own scanners (lenient JSON object scanner, logfmt tokenizer, SGR stripper) plus encoding/json, strconv and time.Parse; the library's encoders' own defects (C04/C05: bare group markers in JSON, keys lost after a group in logfmt) are tolerated: a leaf is accepted with its full nested/dotted path, with bare group markers naming its groups, or - when the encoder printed no key at all - by its unique value",
        "value fidelity is checked on concrete representatives per kind drawn per seed (int64 beyond 2^32, uint64 beyond 2^63, fractional float, duration, time with zone and nanoseconds, struct, error - each also as what a LogValuer resolves to); rendering as number or exact string both accepted",
        "LogValuers: every node of an attribute tree (leaf or group; at top level, inside literal groups, inside the group another LogValuer resolved to, deeper) may be handed over as a LogValuer that has to be asked 1-3 times; expected are the leaves of the tree with every LogValuer resolved at every depth (what log/slog's own handlers print). OUT OF SCOPE: a LogValuer whose LogValue() panics or that resolves to LogValuers without end (log/slog substitutes an error value after 100 rounds) - it has no resolved form to compare with; LogValuers hidden inside values of kind Any (struct fields, slices, []slog.Attr) are Go data, not attributes",
        "record times: 'the record's own time' is read as the INSTANT of the time.Time a record handed to Handler.Handle carries, whatever it is - the zero time.Time (in any zone), the Unix epoch, negative Unix times, the last nanosecond of year 9999 included; the zone the caller expressed it in is presentation (the loggers of this check print UTC, RFC 3339 with nanoseconds); the zero time is emitted as 0001-01-01T00:00:00Z, not left out and not replaced by the time of the call (log/slog's own handlers omit the time of such a record; the underlying logger has no record without a time). Instants RFC 3339 cannot express (before year 1, after year 9999 in UTC) are out of scope",
        "nested records: the carrier is the FIRST attribute of the outer record and logs the inner record each time it is asked for its content (LogValue / String / Error), on the same goroutine, with the same context; the inner record's own attributes contain no carrier (no unbounded recursion). How many times a carrier is asked is observed, not prescribed: the inner record must appear exactly that many times (when admitted), the outer exactly once. The order of the two records is not prescribed. A destination that logs from inside Write is C11/C12's matter",
        "a call counts as not returning when it has been running for 30 s and the worker process used less than 0.5 s of CPU time during the last 30 s (it is blocked), or after 15 minutes whatever it does; the worker then writes the line and exits (the goroutine cannot be recovered), later behaviours of that process are not executed",
        "the worker runs in testing mode with LnoInterrupt so that a terminating mapping shows as a record at Fatal/Panic severity instead of killing the process",
        "in colored mode only the first line of a message is compared",
        "extra attributes in a record are not an error (the statement demands that all given ones are present)",
        "equal keys in one group: the statement says 'all its attributes' / 'add what was given', the underlying logger documents 'each key once, the last one wins' (SetAttrs/WithAttrs doc, LoggCore!Merge); the last attribute in logical order (derivation steps in order, then the record's own) must be emitted, an earlier one with the same key may be emitted or dropped - so a record attribute is never displaced by a handler attribute, and a later WithAttrs wins over an earlier one",
        "registered levels have values >= 12 and are treated as Error..Trace or as nothing; a behaviour that registers runs in a worker process of its own, so every replay is self-contained; RegisterLevel refusing a fresh value/title is C17's matter and makes this run Undecided",
        "a log/slog level other than the four standard ones may be mapped to any non-terminating built-in or registered severity (the statement only fixes the namesakes and excludes terminating severities)",
    ]
    return ctx.finish(rule="every edge of the exhaustive Adapter graph(s) (registrations x set-up x derivation history x probe: Enabled/Handle/"
                           "Entry.Log/bridge writes/nested pairs (outer handler x inner handler or another handler on the logger x carrier); shapes with equal keys and shapes with LogValuers at each of the 16 positions, record times of every kind (zero time.Time, epoch, year 9999, zones) included) executed on the library - one process per behaviour "
                           "that registers levels - and validated by TLC against AdapterTrace, plus seeded random behaviours (colliding "
                           "shapes, shapes whose nodes are LogValuers with probability 0.2 / 0.7, registrations at random places, nested pairs between random handlers of the tree); non-trivial = distinct (registrations, set-up and derivation history, "
                           "probe) pairs where a record was emitted or Enabled was asked",
                      exhaustive=True)
