"""C15: log/slog handler and std-log bridge preserve content, severity and gating.

Pipeline (spec/Adapter.tla, spec/AdapterTrace.tla, harness/fam_adapter.go):
  1. TLC explores the Adapter model exhaustively (set-ups x derivation chains/trees, bridges) with the
     property invariants, and dumps the labelled state graph (probes are self-loop edges);
  2. witness runs: each named deviation enabled must make TLC fail its invariant (non-vacuity);
  3. an edge cover of the graph(s) plus seeded random deeper behaviours (longer derivation trees,
     random attribute shapes, exotic level values) become scripts;
  4. the Go worker executes them on the real library on recording writers and decodes every record;
  5. TLC validates the recording against AdapterTrace; every rejected line carries a key.
"""
import json
import os
import random

from vlib import Undecided, parse_action, read_ndjson
from tlagen import gen_mc

PANIC, FATAL, ERROR, WARN, INFO, DEBUG, TRACE, OFF, ALWAYS = range(9)
SLOG_LEVELS = [-8, -4, -1, 0, 2, 4, 8, 12, 16, 17]
A, NL = 97, 10

WITNESSES = [("DerivedFresh", "KeepsConfig"), ("BridgeInverted", "BridgeGate"), ("EntryLogUnknownFatal", "NoTerminating")]


# ------------------------------------------------------------------ catalogues

def leaf(path, kind, v):
    return dict(p=list(path), k=kind, v=v)


def base_shapes():
    """Hand-written attribute shapes: every log/slog kind, nesting to depth 3, LogValuers (scalar,
    chained, group-valued), a wide record.  Groups sort last on every level, where the library's
    logfmt/colored encoders print full dotted keys (an encoder, not an adapter, limitation)."""
    rec = [
        dict(leaves=[], valuers=[]),
        dict(leaves=[leaf(["a"], "bool", 1), leaf(["b"], "int", 1), leaf(["c"], "big", 1), leaf(["d"], "uint", 1),
                     leaf(["e"], "float", 1), leaf(["f"], "str", 1), leaf(["g"], "dur", 1), leaf(["h"], "time", 1),
                     leaf(["i"], "any", 1), leaf(["j"], "err", 1), leaf(["k"], "valuer", 1), leaf(["l"], "valuer", 2)],
             valuers=[]),
        dict(leaves=[leaf(["x"], "int", 2), leaf(["zg", "a"], "str", 2), leaf(["zg", "zh", "b"], "big", 2),
                     leaf(["zg", "zh", "zi", "c"], "bool", 0), leaf(["zg", "zh", "zi", "d"], "float", 2)], valuers=[]),
        dict(leaves=[leaf(["y"], "uint", 2), leaf(["zv", "n"], "int", 3), leaf(["zv", "s"], "str", 3),
                     leaf(["zw", "zq", "u"], "dur", 2)], valuers=["zv", "zw.zq"]),
        dict(leaves=[leaf(["k%02d" % i], ["int", "str", "float", "big", "uint"][i % 5], 10 + i) for i in range(14)],
             valuers=[]),
        dict(leaves=[leaf(["ga", "x"], "int", 4), leaf(["m"], "str", 4), leaf(["n"], "time", 2)], valuers=[]),
    ]
    deriv = [
        dict(leaves=[leaf(["da"], "int", 50), leaf(["db"], "str", 50)], valuers=[]),
        dict(leaves=[leaf(["zd", "dx"], "float", 51), leaf(["dc"], "valuer", 51)], valuers=[]),
    ]
    return rec, deriv


def all_opts():
    res = []
    for lvl in (0, ERROR, WARN, INFO, DEBUG):
        for nc in (False, True):
            for ns in (False, True):
                for js in (False, True):
                    res.append(dict(nocolor=nc, nosource=ns, json=js, level=lvl))
    return res


def bmsgs_upto(n):
    res = [[]]
    frontier = [[]]
    for _ in range(n):
        frontier = [m + [c] for m in frontier for c in (A, NL)]
        res += frontier
    return res


def catalogue(ctx):
    rec, deriv = base_shapes()
    quick = ctx.quick()
    cat = dict(seed=ctx.seed, pkg_level=[WARN, INFO, ERROR][ctx.seed % 3], rec_shapes=rec, deriv_shapes=deriv,
               hmsgs=[[A, 98], [A, NL, 98, 99], [A, 32, 98, NL]],
               bmsgs=[[], [NL], [A], [A, NL], [A, NL, NL], [A, NL, 98], [NL, A]] if quick else bmsgs_upto(3) + [[A, 98, NL, NL, NL]])
    if quick:
        o = lambda nc, ns, js, lvl: dict(nocolor=nc, nosource=ns, json=js, level=lvl)
        cat["opts"] = [o(True, True, False, 0), o(False, False, False, 0), o(True, False, True, 0),
                       o(False, True, True, INFO), o(True, True, False, DEBUG), o(False, False, False, ERROR)]
    else:
        cat["opts"] = all_opts()
    return cat


def handle_cells(n_shapes, full):
    cells = []
    if full:
        for v in SLOG_LEVELS:
            for sh in range(1, n_shapes + 1):
                for via in ("logger", "rec"):
                    cells.append(dict(v=v, sh=sh, via=via, t=0 if via == "logger" else sh, mi=1 + (sh + v) % 3))
        return cells
    for i, v in enumerate(SLOG_LEVELS):
        via = "logger" if i % 2 else "rec"
        sh = 1 + i % n_shapes
        cells.append(dict(v=v, sh=sh, via=via, t=0 if via == "logger" else 1 + i, mi=1 + i % 3))
    for sh in range(1, n_shapes + 1):
        cells.append(dict(v=0, sh=sh, via="rec", t=sh + 10, mi=1))
        cells.append(dict(v=[4, 8, -4][sh % 3], sh=sh, via="logger", t=0, mi=2))
    return cells


def mc_configs(ctx, cat):
    """Exhaustive configurations: name -> constants.  The cell space of the property is
    set-up x derivation history x probe; `wide` has every set-up with short histories and all probes,
    `deep` fewer set-ups with derivation trees."""
    n_opts = len(cat["opts"])
    n_sh = len(cat["rec_shapes"])
    cfgs = {}
    if ctx.quick():
        roots = [dict(L=L, oi=1) for L in range(9)] + [dict(L=[TRACE, WARN][k % 2], oi=oi) for oi in range(2, n_opts + 1) for k in range(2)]
        bridges = [dict(L=L, sev=s, f=["json", "logfmt", "color"][(L + s) % 3]) for L in range(9) for s in range(12)]
        cfgs["mc"] = dict(Roots=roots, MaxHandlers=3, DeriveFromAny=False, ProbeAll=False,
                          HandleCells=handle_cells(n_sh, False), BridgeCfgs=bridges, GroupNames={"G"})
    else:
        roots = [dict(L=L, oi=oi) for L in range(9) for oi in range(1, n_opts + 1)]
        bridges = [dict(L=L, sev=s, f=f) for L in range(9) for s in range(12) for f in ("json", "logfmt", "color")]
        cfgs["wide"] = dict(Roots=roots, MaxHandlers=2, DeriveFromAny=False, ProbeAll=True,
                            HandleCells=handle_cells(n_sh, True), BridgeCfgs=bridges, GroupNames={"G", "H"})
        deep_roots = [dict(L=L, oi=oi) for (L, oi) in [(TRACE, 2), (INFO, 4), (DEBUG, 7), (WARN, 12), (ALWAYS, 21), (ERROR, 30), (OFF, 3), (TRACE, 40)]]
        cfgs["deep"] = dict(Roots=deep_roots, MaxHandlers=4, DeriveFromAny=True, ProbeAll=True,
                            HandleCells=handle_cells(n_sh, False), BridgeCfgs=[], GroupNames={"G", "H"})
    return cfgs


def tlc_consts(cat, c, trace=False):
    k = dict(
        Roots=c.get("Roots", []), Opts=cat["opts"], SlogLevels=set(SLOG_LEVELS),
        RecShapes=[s["leaves"] for s in cat["rec_shapes"]], DerivShapes=[s["leaves"] for s in cat["deriv_shapes"]],
        GroupNames=set(c.get("GroupNames", {"G"})), HandleCells=c.get("HandleCells", []), HMsgs=cat["hmsgs"],
        BridgeCfgs=c.get("BridgeCfgs", []), BMsgs=cat["bmsgs"], Deviations=set(c.get("Deviations", [])),
    )
    plain = dict(MaxHandlers=c.get("MaxHandlers", 64), DeriveFromAny="TRUE" if c.get("DeriveFromAny", True) else "FALSE",
                 ProbeAll="TRUE" if c.get("ProbeAll", True) else "FALSE", PkgLevel=cat["pkg_level"])
    return k, plain


INVARIANTS = ["TypeOK", "KeepsConfig", "AddsGiven", "RecordComplete", "StdNamesake", "EnabledAgrees", "NoTerminating",
              "BridgeGate", "BridgeMsgInv"]


# ------------------------------------------------------------------ TLC: exhaustive + witnesses

def parse_dot_edges(path):
    """TLC `-dump dot,actionlabels`: (nodes, edges [(src, label, dst)], initial states)."""
    import re
    edge = re.compile(r'^(-?\d+) -> (-?\d+) \[label="(.*?)",color=')
    node = re.compile(r'^(-?\d+) \[label=".*?"(,style = filled)?')
    nodes, edges, inits, seen = {}, [], [], set()
    with open(path) as fh:
        for line in fh:
            m = edge.match(line)
            if m:
                e = (m.group(1), m.group(3).replace('\\"', '"'), m.group(2))
                if e not in seen:
                    seen.add(e)
                    edges.append(e)
                continue
            m = node.match(line)
            if m:
                nodes[m.group(1)] = True
                if m.group(2):
                    inits.append(m.group(1))
    if not inits:
        raise Undecided("no initial state in dump")
    return nodes, edges, inits


def label_to_event(label, c):
    name, a = parse_action(label)
    if name == "NewHandler":
        r = c["Roots"][a[0] - 1]
        return dict(op="NewHandler", L=r["L"], oi=r["oi"])
    if name == "WithAttrs":
        return dict(op="WithAttrs", h=a[0], a=a[1])
    if name == "WithGroup":
        return dict(op="WithGroup", h=a[0], g=a[1])
    if name == "Enabled":
        return dict(op="Enabled", h=a[0], v=a[1])
    if name == "Handle":
        return dict(op="Handle", h=a[0], **c["HandleCells"][a[1] - 1])
    if name == "EntryLog":
        return dict(op="EntryLog", v=a[0], mi=1)
    if name == "NewBridge":
        b = c["BridgeCfgs"][a[0] - 1]
        return dict(op="NewBridge", L=b["L"], sev=b["sev"], f=b["f"])
    if name == "BridgeWrite":
        return dict(op="Bridge", mi=a[0], direct=True)
    if name == "BridgePrint":
        return dict(op="Bridge", mi=a[0], direct=False)
    raise Undecided("unknown action label %r" % label)


def tree_cover(edges, inits, evs):
    """The graph is acyclic apart from self-loops (probes never change the state): one behaviour
    per state = a derivation path to it followed by all its probes, plus one bare path for every
    further way into an already covered state; together every edge is executed."""
    out, loops = {}, {}
    for i, (s, _, d) in enumerate(edges):
        if s == d:
            loops.setdefault(s, []).append(i)
        else:
            out.setdefault(s, []).append(i)
    behs = []
    visited = {inits[0]}
    stack = [(inits[0], [])]
    while stack:
        s, path = stack.pop()
        kids = out.get(s, [])
        if loops.get(s):
            behs.append(path + loops[s])
        elif not kids and path:
            behs.append(path)
        for ei in kids:
            d = edges[ei][2]
            if d in visited:
                behs.append(path + [ei])
            else:
                visited.add(d)
                stack.append((d, path + [ei]))
    covered = set(i for b in behs for i in b)
    if len(covered) != len(edges):
        raise Undecided("edge cover incomplete: %d of %d" % (len(covered), len(edges)))
    return [[evs[i] for i in b] for b in behs]


def run_mc(ctx, cat, name, c):
    k, plain = tlc_consts(cat, c)
    mc, cfg = gen_mc("MC", "Adapter", k, ["INIT Init", "NEXT Next", "ALIAS DumpAlias", "CHECK_DEADLOCK FALSE",
                                          "INVARIANTS " + " ".join(INVARIANTS)], plain=plain)
    dot = os.path.join(ctx.scratch, "graph-" + name)
    ctx.model_check("MC", "MC.cfg", files={"MC.tla": mc, "MC.cfg": cfg}, extra=["-dump", "dot,actionlabels", dot],
                    name="adapter-" + name, timeout=1500)
    nodes, edges, inits = parse_dot_edges(dot + ".dot")
    os.remove(dot + ".dot")
    if len(inits) != 1:
        raise Undecided("expected one initial state, got %d" % len(inits))
    evs = [label_to_event(lbl, c) for (_, lbl, _) in edges]
    per_action = {}
    for e in evs:
        per_action[e["op"]] = per_action.get(e["op"], 0) + 1
    need = {"NewHandler", "WithAttrs", "WithGroup", "Enabled", "Handle", "EntryLog"} | ({"NewBridge", "Bridge"} if c["BridgeCfgs"] else set())
    if need - set(per_action):
        raise Undecided("vacuous exploration: no edge for %s" % sorted(need - set(per_action)))
    behs = tree_cover(edges, inits, evs)
    ctx.extra["graph_" + name] = dict(states=len(nodes), edges=len(edges), behaviours=len(behs), per_action=per_action)
    return behs


def run_witnesses(ctx, cat):
    """Each deviation enabled must break its invariant: the invariants are not vacuous and the
    deviation really contradicts the property."""
    c = dict(Roots=[dict(L=TRACE, oi=1), dict(L=ERROR, oi=2)], MaxHandlers=2, DeriveFromAny=False, ProbeAll=False,
             HandleCells=handle_cells(len(cat["rec_shapes"]), False)[:3], GroupNames={"G"},
             BridgeCfgs=[dict(L=TRACE, sev=INFO, f="json"), dict(L=ERROR, sev=INFO, f="json")])
    res = {}
    for dev, inv in WITNESSES:
        k, plain = tlc_consts(cat, dict(c, Deviations=[dev]))
        mc, cfg = gen_mc("MCW", "Adapter", k, ["INIT Init", "NEXT Next", "CHECK_DEADLOCK FALSE", "INVARIANTS " + " ".join(INVARIANTS)], plain=plain)
        r = ctx.tlc("MCW", "MCW.cfg", files={"MCW.tla": mc, "MCW.cfg": cfg}, name="witness-" + dev, allow_fail=True, workers=2, timeout=300)
        if inv not in r.invariant_violated:
            raise Undecided("witness run: deviation %s did not violate %s (violated: %s)\n%s" % (dev, inv, r.invariant_violated, r.out[-2000:]))
        res[dev] = inv
    ctx.extra["witness_invariant_failures"] = res


# ------------------------------------------------------------------ seeded random behaviours

KINDS = ["bool", "int", "big", "uint", "float", "str", "dur", "time", "any", "err", "valuer"]


def random_shape(rng, next_id, prefix, groups_last=True):
    """A random attribute tree (flattened), depth <= 3, unique keys, unique (kind, id) values."""
    leaves, valuers = [], []

    def level(path, depth, budget):
        n_plain = rng.randint(0 if depth else 1, 3)
        for i in range(n_plain):
            kind = rng.choice(KINDS)
            v = rng.randint(0, 1) if kind == "bool" else next_id()
            leaves.append(leaf(path + ["%s%d%s" % (prefix, depth, "abcdef"[i])], kind, v))
        if depth < 3 and budget > 0:
            for j in range(rng.randint(0, 2)):
                key = ("z" if groups_last else "A") + "%s%d%s" % (prefix, depth, "pqr"[j])
                before = len(leaves)
                level(path + [key], depth + 1, budget - 1)
                if len(leaves) == before:      # no empty groups (log/slog omits them)
                    leaves.append(leaf(path + [key, "%se" % prefix], "int", next_id()))
                if rng.random() < 0.3:
                    valuers.append(".".join(path + [key]))
    level([], 0, 2)
    return dict(leaves=leaves, valuers=valuers)


def random_part(ctx, cat, count, depth):
    """Extends the catalogue with random shapes and returns random behaviours over it."""
    rng = random.Random(ctx.seed * 104729 + 7)
    ids = [200]

    def next_id():
        ids[0] += 1
        return ids[0]
    n_rec0, n_der0 = len(cat["rec_shapes"]), len(cat["deriv_shapes"])
    for i in range(8 if ctx.quick() else 30):
        cat["rec_shapes"].append(random_shape(rng, next_id, "r%d" % i, groups_last=(i % 4 != 3)))
    for i in range(4 if ctx.quick() else 12):
        cat["deriv_shapes"].append(random_shape(rng, next_id, "w%d" % i))
    groups = ["G", "H", "K", "zz"]
    exotic = SLOG_LEVELS + [-16, -12, -5, -3, 1, 3, 5, 7, 9, 15, 18, 100, -100, 2147483647, -2147483648]
    behs = []
    def derive(h):
        if rng.random() < 0.5:
            return dict(op="WithAttrs", h=h, a=rng.randint(1, len(cat["deriv_shapes"])))
        return dict(op="WithGroup", h=h, g=rng.choice(groups))

    def handle(h):
        via = rng.choice(["logger", "rec"])
        return dict(op="Handle", h=h, v=rng.choice([-4, 0, 4, 8]), sh=rng.randint(1, len(cat["rec_shapes"])), via=via,
                    t=0 if via == "logger" else rng.randint(1, 40), mi=rng.randint(1, len(cat["hmsgs"])))
    # siblings: a chain of k derivations, then several handlers derived from the same parent, all
    # probed afterwards (an implementation that shares storage between siblings shows here)
    for b in range(count // 3):
        beh = [dict(op="NewHandler", L=rng.choice([TRACE, ALWAYS, DEBUG]), oi=rng.randint(1, len(cat["opts"])))]
        k = rng.randint(0, 5)
        for x in range(k):
            beh.append(derive(x + 1))
        parent = k + 1
        sibs = rng.randint(2, 3)
        for x in range(sibs):
            beh.append(derive(parent))
        for h in range(1, parent + sibs + 1):
            beh.append(handle(h))
            beh.append(dict(op="Enabled", h=h, v=rng.choice([-4, 0, 4, 8])))
        behs.append(beh)
    for b in range(count):
        beh = [dict(op="NewHandler", L=rng.randint(0, 8), oi=rng.randint(1, len(cat["opts"])))]
        n = 1
        for _ in range(depth):
            x = rng.random()
            if x < 0.2 and n < 7:
                h = rng.randint(1, n)
                if rng.random() < 0.5:
                    beh.append(dict(op="WithAttrs", h=h, a=rng.randint(1, len(cat["deriv_shapes"]))))
                else:
                    beh.append(dict(op="WithGroup", h=h, g=rng.choice(groups)))
                n += 1
            elif x < 0.35:
                beh.append(dict(op="Enabled", h=rng.randint(1, n), v=rng.choice(exotic)))
            elif x < 0.45:
                beh.append(dict(op="EntryLog", v=rng.choice(exotic), mi=rng.randint(1, len(cat["hmsgs"]))))
            else:
                via = rng.choice(["logger", "rec"])
                beh.append(dict(op="Handle", h=rng.randint(1, n), v=rng.choice(exotic if rng.random() < 0.5 else [-4, 0, 4, 8]),
                                sh=rng.randint(1, len(cat["rec_shapes"])), via=via,
                                t=0 if via == "logger" else rng.randint(1, 40), mi=rng.randint(1, len(cat["hmsgs"]))))
        behs.append(beh)
    for b in range(count // 3):
        beh = [dict(op="NewBridge", L=rng.randint(0, 8), sev=rng.randint(0, 11), f=rng.choice(["json", "logfmt", "color"]))]
        for _ in range(depth // 2):
            beh.append(dict(op="Bridge", mi=rng.randint(1, len(cat["bmsgs"])), direct=rng.random() < 0.5))
        behs.append(beh)
    return behs


# ------------------------------------------------------------------ execution on the library + validation

def execute(ctx, cat, behaviours, tag):
    script = dict(cat, behaviours=behaviours)
    sp = os.path.join(ctx.scratch, "script-%s.json" % tag)
    with open(sp, "w") as fh:
        json.dump(script, fh)
    tp = os.path.join(ctx.scratch, "trace-%s.ndjson" % tag)
    ctx.run_worker(["adapter", sp, tp], testing=True, timeout=3000)
    rows = read_ndjson(tp)
    k, plain = tlc_consts(cat, dict(MaxHandlers=64))
    k["TraceFile"] = "trace.ndjson"
    mct, cfg = gen_mc("MCT", "AdapterTrace", k, ["SPECIFICATION TSpec", "INVARIANTS Done TTypeOK TKeepsConfig TAddsGiven",
                                                 "CHECK_DEADLOCK FALSE"], plain=plain)
    r = ctx.tlc("MCT", "MCT.cfg", files={"MCT.tla": mct, "MCT.cfg": cfg}, copy={tp: "trace.ndjson"}, workers=1,
                name="adapter-trace-" + tag, timeout=3000, heap="4g", allow_fail=True)
    if r.invariant_violated:
        raise Undecided("trace run: invariant %s violated on a recorded behaviour:\n%s" % (r.invariant_violated, r.out[-3000:]))
    if not r.ok:
        raise Undecided("trace validation run failed (rc=%s):\n%s" % (r.rc, r.out[-5000:]))
    bad = r.prints("bad")
    end = r.prints("end")
    if len(end) != 1 or end[0]["lines"] != len(rows) or end[0]["bad"] != len(bad):
        raise Undecided("trace validation did not reach the end of the log (%d lines, end=%s, %d rejected):\n%s" % (
            len(rows), end, len(bad), r.out[-3000:]))
    return script, rows, sorted(bad, key=lambda b: b["line"])


def describe(cat, ev):
    d = {k: v for k, v in ev.items() if k not in ("recs",)}
    recs = ev.get("recs")
    if recs is not None:
        d["records"] = [dict(w=r["w"], fmt=r["fmt"], sev=r["sev"], msg=bytes(r["msg"]).decode("latin1"), t=r["t"],
                             leaves=["%s%s=%s/%s" % ("".join(p + "." for p in l["p"]), l["k"], l["kind"], l["v"]) for l in r["leaves"]])
                        for r in recs]
    return json.dumps(d)[:1400]


def account(ctx, cat, script, rows, bad, sources):
    starts = [i for i, r in enumerate(rows) if r["op"] == "Reset"]
    behaviours = script["behaviours"]
    if len(starts) != len(behaviours):
        raise Undecided("worker recorded %d behaviours, script has %d" % (len(starts), len(behaviours)))
    ctx.traces += len(starts)
    ctx.evaluations += len(rows) - len(starts)
    seen = set()
    for bi, s in enumerate(starts):
        hist = []
        end = starts[bi + 1] if bi + 1 < len(starts) else len(rows)
        for r in rows[s + 1:end]:
            if r["op"] in ("NewHandler", "NewBridge", "WithAttrs", "WithGroup"):
                hist.append(json.dumps({k: v for k, v in r.items() if k in ("op", "L", "oi", "sev", "f", "h", "a", "g")}, sort_keys=True))
            elif r["op"] == "Enabled" or (r.get("recs")):
                seen.add((tuple(hist), json.dumps({k: v for k, v in r.items() if k in ("op", "h", "v", "sh", "via", "mi", "direct")}, sort_keys=True)))
    ctx.extra.setdefault("nontrivial_keys", set()).update(seen)
    import bisect
    per_key = {}
    for b in bad:
        line = b["line"] - 1
        bi = bisect.bisect_right(starts, line) - 1
        per_key[b["key"]] = per_key.get(b["key"], 0) + 1
        if per_key[b["key"]] > 5 and not any(k["key"] == b["key"] for k in ctx.known):
            continue          # enough reproducers of this class; all are counted below
        upto = line - starts[bi]
        ev = rows[line]
        what = "after %s, %s: model verdict %s; call and observation: %s" % (
            json.dumps(behaviours[bi][:upto - 1])[:500] if upto > 1 else "nothing", ev["op"], b["key"], describe(cat, ev))
        # a replay needs the set-up and derivations before the failing call, not the other probes
        prefix = [e for e in behaviours[bi][:upto - 1] if e["op"] in ("NewHandler", "NewBridge", "WithAttrs", "WithGroup")]
        ctx.finding(b["key"], what, dict(kind="adapter", script={**script, "behaviours": [prefix + [behaviours[bi][upto - 1]]]},
                                         key=b["key"], observed=ev, source=sources[bi]))
    tot = ctx.extra.setdefault("rejected_lines_per_key", {})
    for k, v in per_key.items():
        tot[k] = tot.get(k, 0) + v


def run_replay(ctx, path):
    with open(path) as fh:
        rp = json.load(fh)["replay"]
    script = rp["script"]
    cat = {k: v for k, v in script.items() if k != "behaviours"}
    script, rows, bad = execute(ctx, cat, script["behaviours"], "replay")
    for b in bad:
        ev = rows[b["line"] - 1]
        ctx.finding(b["key"], "replay diverges at line %d: verdict %s; %s" % (b["line"], b["key"], describe(cat, ev)), rp)
    ctx.traces += 1
    ctx.evaluations += len(rows)
    return ctx.finish(rule="replay of one recorded behaviour", exhaustive=False)


def run(ctx, replay):
    if replay:
        return run_replay(ctx, replay)
    cat = catalogue(ctx)
    behaviours = []
    for name, c in mc_configs(ctx, cat).items():
        behaviours += run_mc(ctx, cat, name, c)
    run_witnesses(ctx, cat)
    n_cover = len(behaviours)
    # seeded random behaviours over the catalogue extended with random shapes (a superset, so the
    # edge cover and the random part are executed and validated together)
    rb = random_part(ctx, cat, 40 if ctx.quick() else 1000, 30 if ctx.quick() else 60)
    tagged = [("edge-cover", b) for b in behaviours] + [("random", b) for b in rb]
    # independent chunks: each is executed by its own worker process and validated by its own TLC
    k = 1 if ctx.quick() else 4
    size = sum(len(b) for _, b in tagged) // k + 1
    chunks, cur, n = [], [], 0
    for t in tagged:
        cur.append(t)
        n += len(t[1])
        if n >= size:
            chunks.append(cur)
            cur, n = [], 0
    if cur:
        chunks.append(cur)
    ctx.worker()
    from concurrent.futures import ThreadPoolExecutor
    with ThreadPoolExecutor(max_workers=len(chunks)) as ex:
        futs = [ex.submit(execute, ctx, cat, [b for _, b in ch], "c%d" % i) for i, ch in enumerate(chunks)]
        results = [f.result() for f in futs]
    n_rows = 0
    for ch, (script, rows, bad) in zip(chunks, results):
        account(ctx, cat, script, rows, bad, [src for src, _ in ch])
        n_rows += len(rows)
        for r in rows:
            if r["op"] == "Handle" and r.get("recs") and r["h"] == 1 and r["sh"] == 3 and len(ctx.samples) < 1:
                ctx.sample(dict(call={k: v for k, v in r.items() if k != "recs"}, decoded_record=r["recs"][0]))
                break
    ctx.sample(dict(random_behaviour=rb[0][:8]))
    ctx.nontrivial = len(ctx.extra.pop("nontrivial_keys"))
    ctx.extra["cover_behaviours"] = n_cover
    ctx.extra["random_behaviours"] = len(rb)
    ctx.extra["trace_events"] = n_rows
    ctx.assumptions += [
        "records are decoded by the harness's own scanners (lenient JSON object scanner, logfmt tokenizer, SGR stripper) plus encoding/json, strconv and time.Parse; the library's encoders' own defects (C04/C05: bare group markers in JSON, keys lost after a group in logfmt) are tolerated: a leaf is accepted with its full nested/dotted path, with bare group markers naming its groups, or - when the encoder printed no key at all - by its unique value",
        "value fidelity is checked on concrete representatives per kind drawn per seed (int64 beyond 2^32, uint64 beyond 2^63, fractional float, duration, time with zone and nanoseconds, struct, error, LogValuer chains); rendering as number or exact string both accepted",
        "the worker runs in testing mode with LnoInterrupt so that a terminating mapping shows as a record at Fatal/Panic severity instead of killing the process",
        "in colored mode only the first line of a message is compared",
        "extra attributes in a record are not an error (the statement demands that all given ones are present)",
    ]
    return ctx.finish(rule="every edge of the exhaustive Adapter graph(s) (set-up x derivation history x probe: Enabled/Handle/Entry.Log/"
                           "bridge writes) executed on the library and validated by TLC against AdapterTrace, plus seeded random behaviours; "
                           "non-trivial = distinct (set-up and derivation history, probe) pairs where a record was emitted or Enabled was asked",
                      exhaustive=True)
