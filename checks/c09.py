"""C09: history independence - a record's bytes depend only on that call."""
import itertools
import json
import os
import random

import vlib
from vlib import Undecided, parse_action, edge_cover, read_ndjson

FMT = {"logfmt": 0, "json": 1, "color": 2}
COL = {"fgbg": 5, "fg": 4, "none": 6}


def class_id(c):
    shape = 1 if c["ml"] else (2 if c["ga"] else 0)
    return FMT[c["fmt"]] * 1000 + COL[c["col"]] * 100 + shape


def all_classes():
    return [dict(fmt=f, col=c, ml=ml, ga=ga) for f in FMT for c in COL for ml in (False, True) for ga in (False, True)]


def cfg(reset, hist, extra="", caller_file="function"):
    return ("SPECIFICATION Spec\nCONSTANTS ResetBySet = {%s}\n MaxHist = %d\n CallerFile = \"%s\"\n"
            "INVARIANT HistoryIndependent\nINVARIANT FunctionOfCall\nVIEW View\n"
            "CHECK_DEADLOCK FALSE\n%s" % (", ".join('"%s"' % f for f in reset), hist, caller_file, extra))


# what set()/setentry() of the current tree re-initialise among the modelled fields
TREE_RESET = ["clr", "bg"]


def environments(ctx):
    """The process environments the experiments run in (the worker reports which one it finds itself in).
    flat: the check's own HOME, working directory = the scratch directory - the probes' source file
    (<scratch>/harness-src/fam_pool.go) lies under the working directory only.
    nested: HOME = the scratch directory, working directory = <scratch>/harness-src: the default protected
    directories of the library ($HOME -> "~", start directory -> ".") are nested above the source file - a
    program run from a directory below $HOME."""
    scratch = os.path.realpath(ctx.scratch)
    return {"flat": dict(),
            "nested": dict(cwd=os.path.join(scratch, "harness-src"), env={"HOME": scratch, "PWD": os.path.join(scratch, "harness-src")}),
            # the other process-global rewrite table: a hosting provider registered below a built-in one, flag
            # Lcallerpackagename on, probes with a call site inside the library (the worker does this when asked to)
            "providers": dict(env={"VERIF_C09_PROVIDERS": "1"})}


def experiment(ctx, behaviours, tag, envkw):
    """Reference bytes of every probe from processes that never formatted anything else, then the histories;
    all processes in the environment envkw.  Returns (rows, trace path, baselines path, probes)."""
    sp = os.path.join(ctx.scratch, "hist-%s.json" % tag)
    with open(sp, "w") as fh:
        json.dump(dict(behaviours=behaviours), fh)
    tp = os.path.join(ctx.scratch, "hist-%s.ndjson" % tag)
    # one process per output format (a package-level cache filled by another kind of record cannot hide there)
    probes = sorted(set(b["probe"] for b in behaviours))
    merged = {}
    for f in range(3):
        mine = [p for p in probes if p // 1000 == f]
        if not mine:
            continue
        pp, bp = os.path.join(ctx.scratch, "probes%d-%s.json" % (f, tag)), os.path.join(ctx.scratch, "base%d-%s.json" % (f, tag))
        with open(pp, "w") as fh:
            json.dump(mine, fh)
        ctx.run_worker(["pool-baseline", pp, bp], testing=True, timeout=600, **envkw)
        with open(bp) as fh:
            base = json.load(fh)
        merged.update(base)
        # the reference itself must not depend on the order in which the reference process formats the probes
        # (a package-level cache keyed too coarsely would make it do so), nor on the process: a second
        # process, reverse order
        pp2, bp2 = os.path.join(ctx.scratch, "probes%dr-%s.json" % (f, tag)), os.path.join(ctx.scratch, "base%dr-%s.json" % (f, tag))
        with open(pp2, "w") as fh:
            json.dump(mine[::-1], fh)
        ctx.run_worker(["pool-baseline", pp2, bp2], testing=True, timeout=600, **envkw)
        with open(bp2) as fh:
            base2 = json.load(fh)
        for p in mine:
            if base[str(p)] != base2[str(p)]:
                ctx.finding(finding_key(p, tag),
                            "environment %s: probe %d formatted in a process that formatted the other probes of its format in ascending order gives %r, in "
                            "descending order %r" % (tag, p, bytes(base[str(p)])[:300], bytes(base2[str(p)])[:300]),
                            dict(kind="history", env=tag, behaviour=dict(history=[q for q in mine if q < p][-40:], probe=p)))
                ctx.evaluations += 1
                break
    bl = os.path.join(ctx.scratch, "baselines-%s.json" % tag)
    with open(bl, "w") as fh:
        json.dump(merged, fh)
    ctx.run_worker(["pool-history", sp, tp, bl], testing=True, timeout=1200, **envkw)
    rows = read_ndjson(tp)
    if len(rows) != len(behaviours):
        raise Undecided("worker produced %d of %d results" % (len(rows), len(behaviours)))
    if any(r_.get("env") != tag for r_ in rows):
        raise Undecided("the worker did not find itself in the %s environment (HOME / working directory / source directory): %s" % (
            tag, sorted(set(str(r_.get("env")) for r_ in rows))))
    return rows, tp, bl, probes


ENV_TEXT = {"nested": "$HOME and the start directory nested above the call site",
            "providers": "a code hosting provider registered below a built-in one, Lcallerpackagename on"}


def finding_key(pid, env):
    """Signature of a divergence: output format and severity class of the probe; in the nested environment
    (default protected directories nested above the call site) under a name of its own."""
    key = "probe:fmt%d:sev%d" % (pid // 1000, (pid // 100) % 10)
    return key if env == "flat" else {"nested": "nested-dirs:", "providers": "overlapping-providers:"}[env] + key


def core_vocabulary():
    """Everything the LoggCore worker can do, for use as history in front of a probe."""
    import c02
    import c07
    import c10
    import c13
    c = c10.rand_config()
    c07c = c07.config(False)
    c.update(groups=c07.GROUPS, ctx_vals=c07.CTX_VALS, call_args=c07.CALL_ARGS, tokens=c02.TOKENS, eps=c02.EPS,
             msg_classes=c02.MSG, log_sevs=list(range(0, 12)), fail_sets=c13.fail_sets(True), rand_max_args=6)
    c["setter_args"] = dict(c["setter_args"])
    c["setter_args"].update({"Attrs": c["setter_args"]["Attrs"] + [(3, -1), (5, -2), (7, -5)], "Attrs0": [(0, 0), (1, 0)],
                             "AddLevelWriter": [(1, 4), (2, 3)], "RemoveWriter": [(1, 0)], "ResetLevelWriters": [(0, 0)]})
    c["wlevels"] = [3, 4]
    c["acts"] = ["Set", "Set", "With", "New", "NewDetached", "PkgSetLevel", "SetDefault", "LogF", "LogA", "LogA", "LogM", "LogM",
                 "SetAttrsR", "Flags", "PkgLevel", "DbgMode"]
    return c


def after_core(ctx, baselines, probes, count):
    import corelib
    c = core_vocabulary()
    rng = random.Random(ctx.seed * 7907 + 11)
    behs = corelib.random_behaviours(c, rng, count, 25, 6)
    script = dict(seed=ctx.seed, init_level=5, obs=[], probe_sevs=[4], gate_sevs=[], names=sorted(c["names"]),
                  bool_lists=c["bool_lists"], layouts=c["layouts"], opt_lists=c["opt_lists"], customs=[],
                  fail_sets=c["fail_sets"], groups=c["groups"], ctx_vals=c["ctx_vals"], call_args=c["call_args"],
                  flag_sets=c["flag_sets"], behaviours=behs)
    sp = os.path.join(ctx.scratch, "core-script.json")
    with open(sp, "w") as fh:
        json.dump(script, fh)
    pp = os.path.join(ctx.scratch, "core-probes.json")
    plain = [p for p in probes if p % 100 in (0, 1, 2, 3, 13)]
    with open(pp, "w") as fh:
        json.dump(plain, fh)
    tp = os.path.join(ctx.scratch, "after-core.ndjson")
    ctx.run_worker(["pool-after-core", sp, tp, baselines, pp], testing=True, timeout=1800)
    rows = read_ndjson(tp)
    out_beh = []
    for r_ in rows:
        out_beh.append(dict(history=[], probe=r_["probe"], core_behaviour=behs[r_["b"] - 1]))
    ctx.extra["api_histories"] = len(behs)
    return rows, out_beh


def run(ctx, replay):
    quick = ctx.quick()
    if replay:
        with open(replay) as fh:
            rp = json.load(fh)["replay"]
        # (a divergence seen in the nested environment may be one of several results of the SAME call: repeat it)
        behaviours = [rp["behaviour"]] * (64 if rp.get("env", "flat") != "flat" else 1)
    else:
        # 1. the model with the tree's reset set satisfies the property for all histories
        ctx.model_check("PoolResidual", "R.cfg", files={"R.cfg": cfg(TREE_RESET, 3 if quick else 4)}, name="residual")
        # 2. non-vacuity: without the colour reset TLC must find the dependence; with a caller file name
        #    hardened in map iteration order the same call has two results in the nested environment
        w = ctx.tlc("PoolResidual", "W.cfg", files={"W.cfg": cfg([], 3)}, name="residual-witness", allow_fail=True)
        if "HistoryIndependent" not in w.invariant_violated:
            raise Undecided("witness run did not violate HistoryIndependent: invariant is vacuous")
        w = ctx.tlc("PoolResidual", "W2.cfg", files={"W2.cfg": cfg(TREE_RESET, 2, caller_file="maporder")}, name="caller-file-witness", allow_fail=True)
        if "FunctionOfCall" not in w.invariant_violated or "HistoryIndependent" in w.invariant_violated:
            raise Undecided("witness run did not violate FunctionOfCall (alone): invariant is vacuous")
        # 3. histories enumerated from the model: every sequence of classes up to length 2 that changes the
        #    residual state differently is covered by taking all class sequences (the class space is small)
        classes = all_classes()
        ids = sorted(set(class_id(c) for c in classes))
        behaviours = []
        for p in ids:
            behaviours.append(dict(history=[], probe=p))
            for h1 in ids:
                behaviours.append(dict(history=[h1], probe=p))
        if not quick:
            colour = [i for i in ids if i // 1000 == 2]
            for p in colour:
                for h1 in ids:
                    for h2 in colour:
                        behaviours.append(dict(history=[h1, h2], probe=p))
        # 4. seeded random long histories over the whole record space (8 severities x 8 shapes x 3 formats)
        rng = random.Random(ctx.seed * 104729 + 3)
        NSHAPES, NSEV = 16, 10
        PADDED = list(range(16, 80))      # records padded to every position around the capacity of a fresh buffer
        space = [f * 1000 + s * 100 + sh for f in range(3) for s in range(NSEV) for sh in list(range(NSHAPES)) + PADDED[::4]]
        probes = [x for x in space if x % 100 != 12]          # a probe whose own value panics has no output to compare
        # every special shape once directly in front of probes of every format
        for sh in range(NSHAPES):
            for f in range(3):
                h = f * 1000 + rng.randrange(NSEV) * 100 + sh
                for pf in range(3):
                    for psh in (0, 2, 13, 1):
                        behaviours.append(dict(history=[h], probe=pf * 1000 + rng.choice((0, 4, 5, 6)) * 100 + psh))
        # every severity (incl. two unregistered values congruent to Error and Info modulo 256) directly in front
        # of every severity, per format
        for f in range(3):
            for s1 in range(NSEV):
                for s2 in range(NSEV):
                    behaviours.append(dict(history=[f * 1000 + s1 * 100], probe=f * 1000 + s2 * 100))
        # the padded records as probes on a buffer grown by a 100 KiB record (the reference runs on a fresh 1 KiB one)
        for f in range(3):
            for sh in (PADDED[::2] if quick else PADDED):
                behaviours.append(dict(history=[rng.randrange(3) * 1000 + 10], probe=f * 1000 + sh))
        for _ in range(300 if quick else 6000):
            n = rng.randint(1, 12)
            behaviours.append(dict(history=[rng.choice(space) for _ in range(n)], probe=rng.choice(probes)))
    envs = environments(ctx)
    env0 = rp.get("env", "flat") if replay else "flat"
    rows, tp, bl, probes = experiment(ctx, behaviours, env0, envs[env0])
    ctx.extra["baseline_processes"] = 6
    if not replay:
        # the same experiment in the NESTED environment ($HOME and the start directory nested above the probes'
        # source file): every probe class alone and directly after every class, plus a share of the random histories
        nb = [b for b in behaviours[:len(ids) * (len(ids) + 1)]] + behaviours[-(60 if quick else 600):]
        nrows, ntp, _, _ = experiment(ctx, nb, "nested", envs["nested"])
        # ... and with overlapping code hosting providers (the caller's function name of coloured records)
        pb = [b for b in nb if b["probe"] // 1000 == 2]
        prows = experiment(ctx, pb, "providers", envs["providers"])[0]
        nrows, nb = nrows + prows, [dict(b, env="nested") for b in nb] + [dict(b, env="providers") for b in pb]
        ctx.extra["baseline_processes"] = 14
        ctx.extra["nested_environment_behaviours"] = len(nb)
        # histories of ARBITRARY API calls (the whole LoggCore vocabulary on other loggers), then probes
        extra_rows, extra_beh = after_core(ctx, bl, probes, 120 if quick else 2500)
        rows += extra_rows + nrows
        behaviours += extra_beh + nb
        with open(tp, "a") as fh:
            for r_ in extra_rows + nrows:
                fh.write(json.dumps(r_) + "\n")
    r = ctx.tlc("PoolResidualTrace", "T.cfg", files={"T.cfg": cfg(TREE_RESET, 1000).replace("SPECIFICATION Spec", "SPECIFICATION TSpec")
                .replace("INVARIANT HistoryIndependent\nINVARIANT FunctionOfCall\nVIEW View\n", "INVARIANT Done\n") + "CONSTANT TraceFile = \"trace.ndjson\"\n"},
                copy={tp: "trace.ndjson"}, workers=1, name="residual-trace", timeout=1800)
    res = r.prints("bad")
    if len(res) != 1:
        raise Undecided("trace validation did not finish:\n" + r.out[-2000:])
    reused = res[0]["reused"]
    with_hist = sum(1 for b in behaviours if b["history"])
    if with_hist and reused < with_hist * 0.9 - len([b for b in behaviours if "core_behaviour" in b]):
        raise Undecided("only %d of %d probes ran on a recycled PrintCtx: the experiment does not exercise the pool" % (reused, with_hist))
    for b in res[0]["bad"]:
        row = rows[b["line"] - 1]
        beh = behaviours[b["line"] - 1]
        pid = beh["probe"]
        env = row.get("env", "flat")
        ctx.finding(finding_key(pid, env), "%sprobe %d after history %s differs from the same probe on a fresh pool: got %r want %r" % (
            "" if env == "flat" else "environment %s (%s): " % (env, ENV_TEXT[env]),
            pid, beh.get("core_behaviour", beh["history"]), row.get("got", "")[:300], row.get("want", "")[:300]),
            dict(kind="history", env=env, behaviour=dict(history=beh["history"], probe=beh["probe"]), core_behaviour=beh.get("core_behaviour")))
    ctx.traces += len(rows)
    ctx.evaluations += sum(len(b["history"]) + 2 for b in behaviours)
    ctx.nontrivial += len(set((tuple(b["history"]), b["probe"]) for b in behaviours if b["history"]))
    ctx.extra["probes_on_recycled_object"] = reused
    ctx.sample(behaviours[1] if len(behaviours) > 1 else behaviours[0])
    ctx.sample(behaviours[-1])
    ctx.assumptions += ["GC is switched off and the worker is single-threaded during a behaviour so that sync.Pool hands back the object "
                        "just returned (checked through the pc.get/pc.put hooks); the fresh-pool baseline is obtained after two GCs",
                        "probes are issued through WriteThru with a fixed timestamp",
                        "process environments: the nested one is made of HOME and the working directory of the worker process alone; in the providers one the worker registers github.com/hedzr -> HZ, sets Lcallerpackagename and hands WriteThru a program counter inside slog.Safety (the worker's own functions are in package main, which no provider matches); the worker reports the environment it finds itself in"]
    return ctx.finish(rule="all (history of <=1 (quick) / <=2 (thorough) record classes, probe class) pairs of the model's class space "
                           "(3 formats x 3 colour-registration classes x multi-line x group) + seeded random histories of up to 12 "
                           "records over 360 record kinds (incl. reserved-name attributes, 100 KiB records, stack-carrying errors, values that panic); each probe's bytes compared with the same probe on a fresh pool; "
                           "the class pairs and a share of the random histories again in the process environments 'nested' ($HOME and the start directory nested above the call site) and, coloured probes, 'providers' (overlapping code hosting providers), reference bytes from processes of the same environment; "
                           "non-trivial = distinct (history, probe) with non-empty history", exhaustive=not bool(replay))
