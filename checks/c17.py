"""C17: level names and the level registry - round trips and safe registration.

Pipeline (spec/Registry.tla is the oracle, spec/RegistryTrace.tla binds it to the code):

  1. TLC explores Registry exhaustively (all sequences of <= MaxCalls RegisterLevel calls over the
     value/title/option pools) with the property's invariants and action properties, and dumps
     the labelled state graph; a deeper exhaustive run without dump (thorough tier);
  2. witness runs: with each named deviation switched on TLC must FAIL the matching invariant
     (non-vacuity); the counterexample's call sequence is added to the behaviours executed;
  3. every path of the dumped graph (= every call sequence TLC enumerated) plus seeded random
     longer sequences over much larger pools are executed on the real library, each in a fresh
     process; after every call the worker projects the whole public level API - from an ordinary
     call site and again from INSIDE the library's own writing (Registry!Contexts: the Write of the
     default logger's destination while ParseLevel reports an unknown name, another goroutine at
     that moment, the Write of an ordinary record, the String method of a value being formatted):
     the registry's answers depend on the registry only;
  4. TLC validates the recording against RegistryTrace (same operators as the model).  Every
     failed comparison carries a key naming the part of the statement and the named deviation
     that predicts exactly the observed value ("unexplained" otherwise).
"""
import json
import os
import random
import re
import threading

from tlagen import gen_mc
from vlib import Undecided, read_ndjson

GATE_LEVELS = [0, 1, 2, 3, 4, 5, 6, 7, 8]          # Registry!GateLevels
ALL_DEVS = ["ParseFolds", "JSONNoUnquote", "TagBytes", "ErrDevNoArg", "BusyWhileReporting"]
NEST_CONTEXTS = ["warn", "warn-go", "rec", "val"]      # Registry!Contexts without "outside"
# deviation -> the invariant / action property TLC must be able to violate with it
WITNESS = [("ParseFolds", "INVARIANT", "NameRoundTrip"), ("ParseFolds", "INVARIANT", "TextRoundTrip"),
           ("ParseFolds", "PROPERTY", "AnswersToTitle"), ("JSONNoUnquote", "INVARIANT", "JSONRoundTrip"),
           ("TagBytes", "INVARIANT", "ShortTagLen"), ("ErrDevNoArg", "INVARIANT", "RoutedIfRequested"),
           ("BusyWhileReporting", "INVARIANT", "ContextFree")]
INVARIANTS = ["NameRoundTrip", "TextRoundTrip", "JSONRoundTrip", "ShortTagLen", "UsesGivenTags", "GatedAsTreated",
              "RoutedIfRequested", "Consistent", "ContextFree", "AnswersEverywhere"]
PROPERTIES = ["AnswersToTitle", "MustRefuse", "MustAccept", "RefusalIsNoOp", "AcceptIsLocal"]


def cp(s):
    return [ord(c) for c in s]


def tags(*six):
    return [cp(x) for x in six]


def opt(tags_=None, treat=-1, err=None, clr=0):
    return dict(tags=tags_ or [], treat=treat, err=err or [], clr=clr)


def pools(quick):
    """The constants of the exhaustive model (one dict for TLC and for the worker)."""
    if quick:
        values = [-8, 3, 12]
        # (the last title needs escaping in JSON: '&', '<', a backslash)
        # (... and the empty title, which is free like any other)
        titles = ["NOTICE", "notice", "warn", "WARN", "h\u00e9llo", "R&D<a\\b>", ""]
        opts = [opt(),
                opt(tags("", "S", "SW", "", "", "SWEEL"), treat=4, err=[[]], clr=1),
                opt(treat=2, err=[[True], [False]]),
                opt(treat=0, err=[[True]], clr=2),
                # treated as one of the special levels ("is gated as the level it is treated as": always admitted)
                opt(treat=8, err=[[]])]
    else:
        values = [-8, 3, 12, 17]
        # (the worker keeps the recordings of all behaviours in memory: the pools are sized so that the number of
        #  two-call sequences, (values x titles x opts)^2, stays where it was measured to fit - about 65 000)
        titles = ["NOTICE", "notice", "warn", "WARN", "h\u00e9llo", "\u00d1u", "R&D<a\\b>", "q\"\u2028\t", ""]
        opts = [opt(),
                opt(tags("", "S", "SW", "", "", "SWEEL"), treat=4, err=[[]], clr=1),
                opt(treat=2, err=[[True], [False]]),
                opt(tags("", "\u00e9", "", "abc", "", ""), treat=6, err=[[False, True]], clr=2),
                opt(treat=0, err=[[False], []]),
                opt(treat=5, err=[[True, False]]),
                opt(treat=8, err=[[]])]
    return dict(values=values, titles=titles, opts=opts)


def consts(p, max_calls, devs=()):
    return dict(Values=set(p["values"]), Titles=[cp(t) for t in p["titles"]], Opts=p["opts"]), \
        dict(MaxCalls=max_calls, Deviations="{" + ", ".join('"%s"' % d for d in devs) + "}")


def call_of(p, v, ti, oi):
    o = p["opts"][oi - 1]
    return dict(v=v, t=cp(p["titles"][ti - 1]), tags=o["tags"], treat=o["treat"], err=o["err"], clr=o["clr"])


def show_call(c):
    return "Register(%d, %r%s%s%s)" % (c["v"], "".join(chr(x) for x in c["t"]),
                                        ", tags" if c["tags"] else "",
                                        ", treat=%d" % c["treat"] if c["treat"] >= 0 else "",
                                        ", errdev=%s" % json.dumps(c["err"]) if c["err"] else "")


# ---------------------------------------------------------------------------- TLC side
def model_check(ctx, p, max_calls, dump, name):
    c, plain = consts(p, max_calls)
    mc, cfg = gen_mc("MC", "Registry", c,
                     ["INIT Init", "NEXT Next", "ALIAS DumpAlias", "CHECK_DEADLOCK FALSE",
                      "INVARIANTS " + " ".join(INVARIANTS), "PROPERTIES " + " ".join(PROPERTIES)], plain=plain)
    # the exact strings the model says must parse (names + aliases of the factory tables) are printed
    # for the worker's ParseLevel probes; a function over sequences has no JSON form, so print pairs
    mc = mc.replace("EXTENDS Registry", "EXTENDS Registry, Json, SequencesExt").replace(
        "====", 'ASSUME PrintT("@@keys " \\o ToJson(SetToSeq({<<k, InitKeys[k]>> : k \\in DOMAIN InitKeys})))\n====')
    extra = []
    dot = os.path.join(ctx.scratch, "graph-" + name)
    if dump:
        extra = ["-dump", "dot,actionlabels", dot]
    r = ctx.model_check("MC", "MC.cfg", files={"MC.tla": mc, "MC.cfg": cfg}, extra=extra, name=name, timeout=1500)
    ks = r.prints("keys")
    if not ks:
        raise Undecided("the model did not print its key table:\n" + r.out[-2000:])
    return r, dot + ".dot", [k for (k, _) in ks[0]]


_node = re.compile(r'^(-?\d+) \[label="((?:[^"\\]|\\.)*)"(,style = filled)?')
_edge = re.compile(r'^(-?\d+) -> (-?\d+) \[label="(.*?)",color=')


def graph_paths(dotfile, p, max_calls):
    """All label sequences of length <= max_calls from the initial state of the dumped graph, and
    the (why, out) decision counts of the states (vacuity guard of the model run)."""
    nodes, inits, out, decisions, seen = set(), [], {}, {}, set()
    with open(dotfile) as fh:
        for line in fh:
            m = _edge.match(line)
            if m:
                e = (m.group(1), m.group(3), m.group(2))
                if e not in seen:
                    seen.add(e)
                    out.setdefault(e[0], []).append((e[1], e[2]))
                continue
            m = _node.match(line)
            if m:
                nodes.add(m.group(1))
                if m.group(3):
                    inits.append(m.group(1))
                lab = m.group(2)
                o = re.search(r'out = \\"(\w+)\\"', lab)
                w = re.search(r'why = \\"([\w+]+)\\"', lab)
                if o and w:
                    k = w.group(1) + ":" + o.group(1)
                    decisions[k] = decisions.get(k, 0) + 1
    if not inits:
        raise Undecided("no initial state in dump")
    edges = seen
    seqs = set()
    frontier = {(inits[0], ())}
    for _ in range(max_calls):
        nxt = set()
        for (s, path) in frontier:
            for (lbl, d) in out.get(s, []):
                nxt.add((d, path + (lbl,)))
        frontier = nxt
        seqs |= {path for (_, path) in nxt}
    # a path that is a proper prefix of another one is executed as part of it
    full = sorted(s_ for s_ in seqs if len(s_) == max_calls)
    behaviours = []
    for path in full:
        beh = []
        for lbl in path:
            m = re.match(r"^Register\((-?\d+),\s*(\d+),\s*(\d+)\)$", lbl)
            if not m:
                raise Undecided("cannot parse action label %r" % lbl)
            beh.append(call_of(p, int(m.group(1)), int(m.group(2)), int(m.group(3))))
        behaviours.append(beh)
    return behaviours, len(nodes), len(edges), len(seqs), decisions


def witness_runs(ctx, p):
    """Each deviation must make TLC violate its invariant; returns [(dev, what, calls)]."""
    res, errors = [], []

    def one(dev, kind, inv):
        try:
            c, plain = consts(p, 2, [dev])
            mc, cfg = gen_mc("MCW", "Registry", c, ["INIT Init", "NEXT Next", "CHECK_DEADLOCK FALSE", "%s %s" % (kind, inv)],
                             plain=plain)
            r = ctx.tlc("MCW", "MCW.cfg", files={"MCW.tla": mc, "MCW.cfg": cfg}, workers=1, allow_fail=True,
                        name="witness-%s-%s" % (dev, inv), timeout=600, heap="2g")
            violated = ("Invariant %s is violated" % inv) in r.out or ("Action property %s is violated" % inv) in r.out \
                or ("property %s" % inv) in r.out and "violated" in r.out
            calls = [call_of(p, int(a), int(b), int(c_)) for (a, b, c_) in
                     re.findall(r"State \d+: <Register\((-?\d+),(\d+),(\d+)\)", r.out)]
            res.append(dict(deviation=dev, invariant=inv, violated=bool(violated), calls=calls))
        except Exception as ex:          # noqa: BLE001
            errors.append("%s/%s: %s" % (dev, inv, ex))

    ths = [threading.Thread(target=one, args=w) for w in WITNESS]
    for t in ths:
        t.start()
    for t in ths:
        t.join()
    if errors:
        raise Undecided("witness runs failed: " + "; ".join(errors))
    for w in res:
        if not w["violated"]:
            raise Undecided("vacuity: TLC does not violate %s with deviation %s switched on" % (w["invariant"], w["deviation"]))
    return sorted(res, key=lambda w: (w["deviation"], w["invariant"]))


# ---------------------------------------------------------------------------- random behaviours
BASES = ["notice", "hint", "warn", "warning", "info", "ok", "off", "no", "dev", "swell", "audit", "h\u00e9llo", "\u00f1u",
         "\u00e9", "x", "v2", "\u4e16\u754c", "\U0001f600k", "abcdefgh", "trace", "fail"]


def rand_title(rng):
    b = rng.choice(BASES)
    k = rng.randrange(5)
    if k == 0:
        return b
    if k == 1:
        return b.upper()
    if k == 2:
        return b[:1].upper() + b[1:]
    if k == 3:
        return "".join(c.upper() if rng.random() < 0.5 else c for c in b)
    return b + rng.choice(["", "2", "_", "\u00e9", "X", "&", "<x>", "\\", "\"", "\u2028", "\t"])


def rand_opt(rng):
    t = []
    k = rng.randrange(4)
    if k == 1:
        t = tags("", "Q", "QQ", "QQQ", "QQQQ", "QQQQQ")
    elif k == 2:
        t = tags("", rng.choice(["", "\u00e9", "z"]), rng.choice(["", "zz"]), rng.choice(["", "\u4e16z\u00e9"]), "", rng.choice(["", "12345"]))
    elif k == 3:
        t = tags("zero", "", "", "", "", "")
    treat = rng.choice([-1, -1, 0, 1, 2, 3, 4, 5, 6])
    err = rng.choice([[], [], [[]], [[True]], [[False]], [[True, False]], [[False, True]], [[True], [False]], [[False], [True]],
                      [[True], []], [[False], []], [[], [False]], [[], [True]]])
    return opt(t, treat, err, rng.randrange(3))


def random_behaviours(rng, count, depth):
    res = []
    for _ in range(count):
        beh, used_v, used_t = [], [], []
        for _ in range(rng.randint(2, depth)):
            r = rng.random()
            if used_v and r < 0.15:
                v = rng.choice(used_v)                      # value registered earlier in this history
            elif r < 0.30:
                v = rng.randint(0, 11)                      # built-in value
            else:
                v = rng.choice([-16, -8, -1, 12, 13, 17, 20, 99, 1000])
            r = rng.random()
            if used_t and r < 0.2:
                t = rng.choice(used_t)                      # exact title again
            elif used_t and r < 0.4:
                t = rng.choice(used_t).swapcase()           # same title, other case
            else:
                t = rand_title(rng)
            used_v.append(v)
            used_t.append(t)
            o = rand_opt(rng)
            beh.append(dict(v=v, t=cp(t), tags=o["tags"], treat=o["treat"], err=o["err"], clr=o["clr"]))
        res.append(beh)
    return res


# ---------------------------------------------------------------------------- code side
def probe_strings(titles, keys):
    """Strings handed to ParseLevel after every step: every registered name/alias of the model
    (printed by TLC) and every title of the behaviour, as written and in lower and upper case, plus
    two strings nobody registered.  (Nothing else: the statement does not say what ParseLevel does
    with decorated input such as quotes, blanks or digits.)"""
    out = set()
    for t in set("".join(chr(c) for c in k) for k in keys) | set(titles):
        out |= {t, t.lower(), t.upper()}
    out |= {"", "nosuchlevel"}
    return [cp(t) for t in sorted(out)]


def execute_and_validate(ctx, p, groups, keys, name):
    # groups: (behaviours, titles probed, values observed); graph behaviours share one probe set so
    # that recordings of a shared prefix stay byte-identical, random ones get their own
    probe_sets, behs = [], []
    for (group, titles, values) in groups:
        if titles is not None:
            probe_sets.append(probe_strings(titles, keys))
        for beh in group:
            if titles is None:
                probe_sets.append(probe_strings(["".join(chr(x) for x in c["t"]) for c in beh], keys))
            behs.append(dict(calls=beh, probes=len(probe_sets) - 1,
                             observe=sorted(set(values or []) | {c["v"] for c in beh})))
    script = dict(gate_levels=GATE_LEVELS, probe_sets=probe_sets, behaviours=behs, par=min(16, os.cpu_count() or 4))
    d = ctx.sub("run-" + name)
    sp = os.path.join(d, "script.json")
    with open(sp, "w") as fh:
        json.dump(script, fh)
    pr = ctx.run_worker(["registry", sp, d], testing=True, timeout=3000)
    with open(os.path.join(d, "summary.json")) as fh:
        summary = json.load(fh)
    if summary["dead"]:
        raise Undecided("%d worker children died:\n%s" % (summary["dead"], pr.stderr[-3000:]))
    c, plain = consts(p, 0)
    c.update(TraceFile="trace.ndjson", LvFile="lv.ndjson", PrFile="pr.ndjson")
    mct, cfg = gen_mc("MCT", "RegistryTrace", c,
                      ["SPECIFICATION TSpec", "INVARIANTS Done TConsistent", "CHECK_DEADLOCK FALSE"], plain=plain)
    r = ctx.tlc("MCT", "MCT.cfg", files={"MCT.tla": mct, "MCT.cfg": cfg},
                copy={os.path.join(d, f): f for f in ("trace.ndjson", "lv.ndjson", "pr.ndjson")},
                workers=1, name="trace-" + name, timeout=3000, heap="12g", allow_fail=True)
    if os.environ.get("C17_KEEP"):          # debugging aid: keep the recording and the TLC directory
        import shutil
        shutil.rmtree(os.environ["C17_KEEP"], ignore_errors=True)
        shutil.copytree(r.dir, os.environ["C17_KEEP"])
    if r.invariant_violated:
        raise Undecided("trace run: model invariant %s violated on a recorded behaviour:\n%s" % (r.invariant_violated, r.out[-3000:]))
    if not r.ok:
        raise Undecided("trace validation run failed:\n" + r.out[-5000:])
    bad, stats = r.prints("bad"), r.prints("stats")
    if len(bad) != 1 or len(stats) != 1:
        raise Undecided("trace validation did not reach the end of the log:\n" + r.out[-3000:])
    rows = read_ndjson(os.path.join(d, "trace.ndjson"))
    if r.depth and r.depth - 1 != len(rows):
        raise Undecided("trace validation consumed %d of %d lines" % (r.depth - 1, len(rows)))
    return sorted(bad[0], key=lambda b: b["line"]), stats[0], rows, summary, script


def calls_to_line(rows, line):
    """The call sequence that leads to (1-based) line of the depth-first tree log."""
    k = line - 1
    path = []
    want = rows[k]["d"]
    while k >= 0 and want > 0:
        if rows[k]["d"] == want:
            e = rows[k]
            path.append(dict(v=e["v"], t=e["t"], tags=e["tags"], treat=e["treat"], err=e["err"], clr=e["clr"]))
            want -= 1
        k -= 1
    return list(reversed(path))


def report(ctx, p, bad, rows, script, source):
    for b in bad:
        calls = calls_to_line(rows, b["line"])
        what = "after %s: %s (seen on %d recorded step(s))" % (
            "; ".join(show_call(c) for c in calls) or "no registration (fresh process)", b["detail"][:1200], b["n"])
        ctx.finding(b["key"], what, dict(kind="registry", pools=p, gate_levels=script["gate_levels"], behaviour=calls,
                                        key=b["key"], detail=b["detail"], source=source))


def replay(ctx, path):
    with open(path) as fh:
        rp = json.load(fh)["replay"]
    p = rp["pools"]
    _, _, keys = model_check(ctx, dict(p, values=p["values"][:1], titles=p["titles"][:1], opts=p["opts"][:1]), 1, False, "keys")
    bad, stats, rows, summary, script = execute_and_validate(ctx, p, [([rp["behaviour"]], None, None)], keys, "replay")
    ctx.traces += 1
    ctx.evaluations += summary["library_calls"]
    # only the recorded signature counts in replay mode; other keys on this behaviour are listed
    hit = [b for b in bad if b["key"] == rp.get("key")]
    for b in bad:
        print("  replay: %s at step %d: %s" % (b["key"], rows[b["line"] - 1]["d"], b["detail"][:300]))
    report(ctx, p, hit if rp.get("key") else bad, rows, script, "replay")
    if hit and not ctx.violations:
        print("C17: replay reproduces %s (listed as known finding)" % rp.get("key"))
    return ctx.finish(rule="replay of one recorded behaviour", exhaustive=False)


def run(ctx, replay_path):
    if replay_path:
        return replay(ctx, replay_path)
    quick = ctx.quick()
    p = pools(quick)
    # the worker build and the witness runs do not depend on the model run: overlap them with it
    side = {}

    def background():
        try:
            ctx.worker()
            side["wit"] = witness_runs(ctx, pools(True))
        except Exception as ex:          # noqa: BLE001
            side["err"] = ex
    bg = threading.Thread(target=background)
    bg.start()
    # ---- 1. exhaustive model check (+ dump)
    r, dot, keys = model_check(ctx, p, 2, True, "mc2")
    behaviours, n_nodes, n_edges, n_seqs, decisions = graph_paths(dot, p, 2)
    need = {"fresh:accepted", "value:refused", "title:refused", "value+title:refused", "case:accepted", "case:refused"}
    if not need <= set(decisions):
        raise Undecided("vacuity: the model run never took decisions %s" % sorted(need - set(decisions)))
    if not quick:
        # deeper, without dump: every history of 3 calls over a reduced pool
        p3 = dict(values=[-8, 3, 12], titles=["NOTICE", "notice", "warn", "WARN", "h\u00e9llo", "x"], opts=p["opts"][:4])
        model_check(ctx, p3, 3, False, "mc3")
    # ---- 2. deviation witnesses
    bg.join()
    if "err" in side:
        raise side["err"]
    wit = side["wit"]
    n_graph = len(behaviours)
    wit_behaviours = [w["calls"] for w in wit if w["calls"]]
    # ---- 3. seeded random longer histories over larger pools
    rng = random.Random(ctx.seed * 104729 + 17)
    rnd = random_behaviours(rng, 150 if quick else 3000, 5 if quick else 7)
    all_beh = behaviours + wit_behaviours + rnd
    # ---- 4. execute + validate
    bad, stats, rows, summary, script = execute_and_validate(
        ctx, p, [(behaviours, p["titles"], p["values"]), (wit_behaviours, pools(True)["titles"], pools(True)["values"]),
                 (rnd, None, None)], keys, "main")
    report(ctx, p, bad, rows, script, "graph+witness+random")
    # each witness counterexample, executed on the code, either shows the deviation (genuine
    # defect, reported above under its key) or not (the library does not have it)
    seen_keys = {b["key"] for b in bad}
    for w in wit:
        w["reproduced_on_code"] = any(k.endswith(":" + w["deviation"]) or (":" + w["deviation"] + "+") in k or
                                      ("+" + w["deviation"]) in k for k in seen_keys)
        w["calls"] = [show_call(c) for c in w["calls"]]
    code_need = {"fresh:accepted", "value:refused", "title:refused"}
    if not code_need <= set(stats) or not ({"case:accepted", "case:refused"} & set(stats)):
        raise Undecided("vacuity: the executed behaviours never produced decisions %s (or no case-colliding title)"
                        % sorted(code_need - set(stats)))
    ran = summary.get("nest_ran", {})
    if not all(ran.get(c) for c in NEST_CONTEXTS):
        # (a library that no longer reports unknown names through the default logger has no "warn" context:
        # then this part of the check has to be re-thought, it is not a violation)
        raise Undecided("vacuity: the library never came to the nested contexts %s (steps per context: %s)"
                        % ([c for c in NEST_CONTEXTS if not ran.get(c)], ran))
    ctx.traces += len(all_beh)
    ctx.evaluations += summary["library_calls"]
    nontrivial = set()
    for e in rows:
        if e["d"] > 0:
            nontrivial.add((e["v"], tuple(e["t"]), json.dumps([e["tags"], e["treat"], e["err"], e["clr"]]), e["ret"], tuple(e["all"])))
    ctx.nontrivial += len(nontrivial)
    ctx.sample(dict(behaviour=[show_call(c) for c in behaviours[min(7, len(behaviours) - 1)]], source="TLC graph path"))
    ctx.sample(dict(behaviour=[show_call(c) for c in rnd[0]], source="seeded random"))
    ctx.sample(dict(decisions_on_code=stats))
    ctx.extra.update(graph_states=n_nodes, graph_edges=n_edges, graph_call_sequences=n_seqs, graph_behaviours_executed=n_graph,
                     model_decisions=decisions, code_decisions=stats, random_behaviours=len(rnd), witnesses=wit,
                     trace_lines=summary["lines"], distinct_level_observations=summary["lv_defs"],
                     distinct_parse_tables=summary["pr_defs"], deviation_keys_seen=sorted(seen_keys),
                     nested_contexts_steps=ran)
    ctx.assumptions += [
        "every behaviour runs in a fresh worker process (testing mode); byte-identical recordings of a shared prefix are merged",
        "text is projected to Unicode code points (stray UTF-8 bytes = -1); case folding modelled for ASCII and Latin-1 letters, "
        "the other characters used in titles are caseless (titles include ones that need JSON escapes - backslash, double quote, TAB, U+2028, markup - and the empty title)",
        "treated-as targets are built-in levels (Panic..Trace, Always, OK); gating of levels registered without a treated-as level is C01's subject and not compared here",
        "RegWithPrintToErrorDevice() without arguments counts as a request (documented usage); several booleans: the last one wins",
        "the package default logger is set to Off and redirected to recorders (ParseLevel logs its failures there)",
        "nested contexts: after every step the round trips of every level and the whole ParseLevel table are also asked from "
        "inside a destination's Write while ParseLevel reports an unknown name through a stand-in default logger (same "
        "goroutine and another goroutine the Write waits for), inside the Write of an ordinary record and inside the String "
        "method of a value being formatted; a Write that arrives while the destination is asking is swallowed"]
    return ctx.finish(rule="every call sequence of length <= 2 of the exhaustive TLC graph (all value x title x option-pack "
                           "combinations) + TLC deviation counterexamples + seeded random histories of 2..7 calls over larger "
                           "pools, each in a fresh process, whole level API projected after every call (from outside and from "
                           "4 places inside the library's own writing) and validated by TLC; "
                           "non-trivial = distinct (call, outcome, registry-before) steps executed",
                      exhaustive=True)
