"""C14: caller attribution points at the user's call site for every entry point.

Pipeline (spec/Caller.tla is the oracle):
  1. TLC enumerates the table  entry point x format x logger kind x inlining x way the skip was
     given x skip x wrapper depth  (one cell per state) and checks the attribution invariants in
     every cell;  a short witness run with the named deviation enabled must violate
     AttributionAtIssuer (non-vacuity) and exports the table.
  2. the Go worker (harness/fam_caller.go + generated wrapper chains fam_caller_sites.go) issues
     every cell on the real library through real wrapper chains and reports which frame of the
     real call stack the record's caller member names.
  3. TLC validates the recording against CallerTrace (AttrD of the same specification).

`python3 checks/c14.py gen-sites` regenerates harness/fam_caller_sites.go.
"""
import json
import os
import random
import sys
import threading
import time

HERE = os.path.dirname(os.path.abspath(__file__))
if __name__ == "__main__":
    sys.path.insert(0, os.path.join(os.path.dirname(HERE), "tools"))

from vlib import Undecided, read_ndjson, write_ndjson  # noqa: E402
from tlagen import gen_mc  # noqa: E402

INVARIANTS = ["TypeOK", "AttributionAtIssuer", "SkipMovesExactlyN", "FormatIndependent", "KindIndependent",
              "InlineIndependent", "ViaIndependent", "WithinChain"]

# named deviation of the specification -> known-finding key
DEV_KEYS = {"BridgeIgnoresSkip": "ep:stdlog:skip-ignored"}

CELL_FIELDS = ["ep", "fam", "fmt", "kind", "inl", "via", "skip", "other", "depth"]


def tiers(ctx):
    if ctx.quick():
        return dict(MaxDepthInl=3, MaxDepthNo=3, AllOthers=False)
    return dict(MaxDepthInl=4, MaxDepthNo=6, AllOthers=True)


def mc_files(consts, devs, cell_file=None, init="Init"):
    mc, cfg = gen_mc("MC", "Caller", dict(Devs=set(devs)),
                     ["INIT " + init, "NEXT Next", "CHECK_DEADLOCK FALSE", "INVARIANTS " + " ".join(INVARIANTS)],
                     plain=dict(MaxDepthInl=consts["MaxDepthInl"], MaxDepthNo=consts["MaxDepthNo"],
                                AllOthers="TRUE" if consts["AllOthers"] else "FALSE"))
    if cell_file:
        mc = mc.replace("====", 'ASSUME Export("%s")\n====' % cell_file)
    return {"MC.tla": mc, "MC.cfg": cfg}


def validate(ctx, consts, trace_path, name):
    """TLC validates the recording; returns the verdict record printed by CallerTrace!Done."""
    mct, cfg = gen_mc("MCT", "CallerTrace", dict(Devs=set(), TraceFile="trace.ndjson"),
                      ["SPECIFICATION TSpec", "INVARIANTS Done TTypeOK", "CHECK_DEADLOCK FALSE"],
                      plain=dict(MaxDepthInl=consts["MaxDepthInl"], MaxDepthNo=consts["MaxDepthNo"],
                                 AllOthers="TRUE" if consts["AllOthers"] else "FALSE", MaxReport=3))
    r = ctx.tlc("MCT", "MCT.cfg", files={"MCT.tla": mct, "MCT.cfg": cfg}, copy={trace_path: "trace.ndjson"},
                workers=1, name=name, timeout=3000, allow_fail=True)
    if r.invariant_violated:
        raise Undecided("trace run: invariant %s violated:\n%s" % (r.invariant_violated, r.out[-3000:]))
    if not r.ok:
        raise Undecided("trace validation run failed:\n" + r.out[-5000:])
    res = r.prints("verdict")
    if len(res) != 1:
        raise Undecided("trace validation did not reach the end of the log:\n" + r.out[-3000:])
    return res[0]


def cell_key(c):
    return tuple(c[f] for f in CELL_FIELDS)


def describe(c):
    return "%s [%s, %s logger, %s wrappers, skip %d via %s%s, %d wrapper(s)]" % (
        c["ep"], c["fmt"], c["kind"], "inlinable" if c["inl"] else "noinline", c["skip"], c["via"],
        " (previous/parent skip %d)" % c["other"] if c["via"] in ("SetSet", "WithOver") else "", c["depth"])


def execute(ctx, consts, cells, tag):
    """Run the cells on the library, validate with TLC, report findings. Returns (rows, details, verdict)."""
    cp = os.path.join(ctx.scratch, "cells-%s.ndjson" % tag)
    tp = os.path.join(ctx.scratch, "trace-%s.ndjson" % tag)
    dp = os.path.join(ctx.scratch, "detail-%s.ndjson" % tag)
    write_ndjson(cp, [{k: c[k] for k in ["id"] + CELL_FIELDS} for c in cells])
    t0 = time.time()
    ctx.run_worker(["c14", "run", cp, tp, dp], testing=True, timeout=1800)
    ctx.extra.setdefault("phase_s", {})["worker-" + tag] = round(time.time() - t0, 1)
    rows = read_ndjson(tp)
    details = read_ndjson(dp)
    if len(rows) != len(cells) or len(details) != len(cells):
        raise Undecided("worker executed %d of %d cells" % (len(rows), len(cells)))
    herr = [d for d in details if d.get("herr")]
    if herr:
        raise Undecided("harness could not execute %d cell(s) as specified, e.g. %s: %s" % (
            len(herr), describe(cells[herr[0]["id"]]), herr[0]["herr"]))
    norec = [d for d in details if d["got"]["k"] == "norecord"]
    if norec:
        # nothing was emitted, so there is no caller member to judge (emission itself is C01/C02/C15)
        raise Undecided("%d cell(s) emitted no record, e.g. %s" % (len(norec), describe(cells[norec[0]["id"]])))
    v = validate(ctx, consts, tp, "caller-trace-" + tag)
    if v["n"] != len(cells) or v["ok"] + v["nbad"] + sum(v["devn"].values()) != len(cells):
        raise Undecided("trace validation counted %s lines, expected %d" % (v["n"], len(cells)))
    by_id = {c["id"]: c for c in cells}
    det = {d["id"]: d for d in details}

    def report(key, b, extra):
        if b["id"] < 0:
            raise Undecided("trace line %d is not a cell of the specification" % b["line"])
        c, d = by_id[b["id"]], det[b["id"]]
        want = b["want"]
        got = d["got"]
        gotdesc = {"user": "user frame %d (%s)" % (got["i"], d.get("gotfunc")), "lib": "frame %s outside the wrapper chain" % d.get("gotfunc"),
                   "none": "no frame of the call stack", "missing": "nothing (record has no caller member)"}.get(got["k"], got["k"])
        what = "%s: record names %s as caller %s; specification: user frame %d = %s. %s" % (
            describe(c), gotdesc, json.dumps(d.get("caller")), want["i"],
            (d["user"][want["i"]]["func"] + ":" + str(d["user"][want["i"]]["line"])) if want["i"] < len(d.get("user") or []) else "?",
            extra)
        ctx.finding(key, what, dict(kind="c14-cells", consts=consts, cells=[{k: c[k] for k in CELL_FIELDS}],
                                    expected=want, observed=dict(got=got, caller=d.get("caller"), record=d.get("record"),
                                                                 user_frames=d.get("user"))))

    for b in v["bad"]:             # up to 3 reproducers per entry point, all divergent cells counted
        ep = by_id[b["id"]]["ep"] if b["id"] >= 0 else "?"
        report("ep:" + ep, b, "(%d cells of this entry point diverge)" % v["badn"].get(ep, 0))
    seen_dev = set()
    for b in v["dev"]:             # one report per named deviation (first cell as the reproducer)
        if b["dev"] in seen_dev:
            continue
        seen_dev.add(b["dev"])
        key = DEV_KEYS.get(b["dev"], "dev:" + b["dev"])
        report(key, b, "(matches the named deviation %s of the specification; %d cells do)" % (
            b["dev"], v["devn"].get(b["dev"], 0)))
        if key in ctx.known_hits:
            ctx.known_hits[key] = v["devn"].get(b["dev"], 0)
    return rows, details, v


def run(ctx, replay):
    consts = tiers(ctx)
    if replay:
        with open(replay) as fh:
            rp = json.load(fh)["replay"]
        consts = rp.get("consts", consts)
        cells = [dict(c, id=i) for i, c in enumerate(rp["cells"])]
        rows, details, v = execute(ctx, consts, cells, "replay")
        ctx.traces += 1
        ctx.evaluations += len(cells)
        ctx.nontrivial += len(cells)
        ctx.sample(dict(cell=cells[0], observed=details[0]["got"], caller=details[0].get("caller")))
        return ctx.finish(rule="replay of recorded cells", exhaustive=False)

    # ---- 0. what the worker can execute
    t0 = time.time()
    p = ctx.run_worker(["c14", "list"], testing=True)
    ctx.extra.setdefault("phase_s", {})["build"] = round(time.time() - t0, 1)
    cap = json.loads(p.stdout.strip().splitlines()[-1])
    if consts["MaxDepthInl"] > cap["inl_depth"] or consts["MaxDepthNo"] > cap["no_depth"]:
        raise Undecided("worker chains are shallower than the configuration asks for")

    # ---- 1a. non-vacuity + export: a short run over the bridge family with the named deviation
    #          enabled must violate AttributionAtIssuer; the same run exports the whole table
    #          (Export is an ASSUME of the MC module, evaluated by TLC before it starts).
    cell_file = os.path.join(ctx.scratch, "table.ndjson")
    w = ctx.tlc("MC", "MC.cfg", files=mc_files(consts, ["BridgeIgnoresSkip"], cell_file, init="InitBridge"),
                name="caller-witness", workers=4, allow_fail=True)
    if "AttributionAtIssuer" not in w.invariant_violated:
        raise Undecided("witness run: AttributionAtIssuer did not fail with BridgeIgnoresSkip enabled:\n" + w.out[-2000:])
    ctx.extra["witness"] = "AttributionAtIssuer violated with Devs={BridgeIgnoresSkip} (expected)"
    eps = w.prints("eps")
    ncells = w.prints("ncells")
    if len(eps) != 1 or len(ncells) != 1:
        raise Undecided("table export did not run:\n" + w.out[-2000:])
    if sorted(eps[0]) != sorted(cap["eps"]):
        raise Undecided("entry points of the specification and of the worker differ: %s" % sorted(set(eps[0]) ^ set(cap["eps"])))
    table = read_ndjson(cell_file)
    if len(table) != ncells[0]:
        raise Undecided("table has %d rows, specification says %d cells" % (len(table), ncells[0]))
    if len(set(cell_key(c) for c in table)) != len(table):
        raise Undecided("exported table has duplicate cells")

    # ---- 1b. TLC: the invariants in every cell of the table, Devs = {} (runs while the cells are
    #          executed on the library; joined below)
    mc = {}

    def model_check():
        try:
            mc["r"] = ctx.model_check("MC", "MC.cfg", files=mc_files(consts, []), name="caller-mc", workers=8)
        except BaseException as ex:       # re-raised in the main thread
            mc["ex"] = ex

    th = threading.Thread(target=model_check)
    th.start()
    try:
        run_cells(ctx, consts, table, eps)
    finally:
        th.join()
    if "ex" in mc:
        raise mc["ex"]
    if mc["r"].distinct < ncells[0]:
        raise Undecided("TLC visited %d states, the table has %d cells" % (mc["r"].distinct, ncells[0]))
    return ctx.finish(rule="every cell of the TLC-enumerated table (entry point x 3 formats x logger kind x inlinable/noinline "
                           "wrappers x way the skip is given x skip x depth>=skip) is issued on the library and the recorded "
                           "attribution validated by TLC; non-trivial = distinct cells with skip>0 or at least one wrapper",
                      exhaustive=True)


def run_cells(ctx, consts, table, eps):
    # ---- 2./3. execute all cells (seeded order: the library keeps pooled buffers and process
    #            globals between records, the order must not matter) and validate
    rng = random.Random(ctx.seed * 104729 + 14)
    rng.shuffle(table)
    cells = [dict(c, id=i) for i, c in enumerate(table)]
    rows, details, v = execute(ctx, consts, cells, "all")

    ctx.traces += 1
    ctx.evaluations += len(cells)
    # non-trivial = distinct cells in which the attributed frame is not simply the innermost user
    # frame of a depth-0 chain: something had to be skipped exactly (skip > 0) or wrappers exist
    ctx.nontrivial += len(set(cell_key(c) for c in cells if c["skip"] > 0 or c["depth"] > 0))
    inl_cells = [d for d, c in zip(details, cells) if c["inl"] and c["depth"] > 0]
    fully = sum(1 for d in inl_cells if all(f["inlined"] for f in d["user"][:-2]))
    ctx.extra.update(cells=len(cells), entry_points=len(eps[0]), accepted=v["ok"], divergent=v["nbad"],
                     deviation_cells=v["devn"],
                     inlinable_chain_cells=len(inl_cells), inlinable_chain_cells_really_inlined=fully)
    if inl_cells and fully == 0:
        raise Undecided("no inlinable wrapper chain was actually inlined by the compiler")
    for c, d in list(zip(cells, details))[:3]:
        ctx.sample(dict(cell={k: c[k] for k in CELL_FIELDS}, want=c["want"], got=d["got"], caller=d.get("caller")))
    ctx.assumptions += [
        "the user frames of a cell are identified in the real stack (captured inside the destination's Write) by function name (c14s*/c14w*/c14drive)",
        "the reported file is compared by base name (path hardening is C18), the function in the coloured line without import path",
        "std-log bridge cells use logger level Info / bridge severity Info so that a record is emitted whichever way the admission comparison is written (C15)",
        "Verbose/VerboseContext (build tag verbose) are out of scope"]


# ---------------------------------------------------------------------------------------------
# generator of harness/fam_caller_sites.go (static, inlinable wrapper chains per entry point)

VERBS = ["Panic", "Fatal", "Error", "Warn", "Info", "Debug", "Trace", "Print", "OK", "Success", "Fail", "Println"]
CTXS = ["PanicContext", "FatalContext", "ErrorContext", "WarnContext", "InfoContext", "DebugContext", "TraceContext",
        "PrintContext", "PrintlnContext", "OKContext", "SuccessContext", "FailContext"]
INL_DEPTH = 4


def site_table():
    t = []
    for v in VERBS:
        t.append((v, v, 'c14L.%s(c14Args...)' % v if v == "Println" else 'c14L.%s("m")' % v))
    for v in CTXS:
        t.append((v, v, 'c14L.%s(c14Ctx, "m")' % v))
    t.append(("LogAttrs", "LogAttrs", 'c14L.LogAttrs(c14Ctx, slog.InfoLevel, "m")'))
    t.append(("Logit", "Logit", 'c14L.Logit(c14Ctx, slog.InfoLevel, "m")'))
    t.append(("Log", "Log", 'c14L.Log(c14Ctx, logslog.LevelInfo, "m")'))
    for v in ["Infof", "Warnf", "Errorf"]:
        t.append((v, v, '_ = c14L.%s("m")' % v))
    for v in VERBS:
        t.append(("slog." + v, "Pkg_" + v, 'slog.Println(c14Args...)' if v == "Println" else 'slog.%s("m")' % v))
    for v in CTXS:
        t.append(("slog." + v, "Pkg_" + v, 'slog.%s(c14Ctx, "m")' % v))
    for v in ["Debug", "Info", "Warn", "Error"]:
        t.append(("logslog." + v, "Sl_" + v, 'c14SL.%s("m")' % v))
    for v in ["DebugContext", "InfoContext", "WarnContext", "ErrorContext"]:
        t.append(("logslog." + v, "Sl_" + v, 'c14SL.%s(c14Ctx, "m")' % v))
    t.append(("logslog.Log", "Sl_Log", 'c14SL.Log(c14Ctx, logslog.LevelInfo, "m")'))
    t.append(("logslog.LogAttrs", "Sl_LogAttrs", 'c14SL.LogAttrs(c14Ctx, logslog.LevelInfo, "m")'))
    t.append(("stdlog.Print", "Std_Print", 'c14Std.Print(c14Args...)'))
    t.append(("stdlog.Printf", "Std_Printf", 'c14Std.Printf("m")'))
    t.append(("stdlog.Println", "Std_Println", 'c14Std.Println(c14Args...)'))
    t.append(("stdlog.Output", "Std_Output", '_ = c14Std.Output(1, "m")'))
    return t


def gen_sites():
    out = ["// Code generated by `python3 checks/c14.py gen-sites`; DO NOT EDIT.",
           "",
           "package main",
           "",
           "// C14: one issuing function (\"site\") per public entry point, once inlinable with a static chain",
           "// of inlinable wrappers (c14sI_X <- c14w1I_X <- .. <- c14w%dI_X) and once //go:noinline (c14sN_X," % INL_DEPTH,
           "// wrapped by the shared //go:noinline chain c14wN1.. of fam_caller.go).  Each inlinable function is",
           "// one statement so that the compiler's inlining budget admits the whole chain; the noinline ones",
           "// have a second statement on the next line.",
           "",
           "import (",
           '\tlogslog "log/slog"',
           "",
           '\t"github.com/hedzr/logg/slog"',
           ")",
           "",
           "const c14InlDepth = %d" % INL_DEPTH,
           ""]
    reg = ["var c14Sites = map[string]*c14site{"]
    for name, ident, call in site_table():
        out.append("func c14sI_%s() { %s }" % (ident, call))
        prev = "c14sI_%s" % ident
        chain = [prev]
        for k in range(1, INL_DEPTH + 1):
            fn = "c14w%dI_%s" % (k, ident)
            out.append("func %s() { %s() }" % (fn, prev))
            prev = fn
            chain.append(fn)
        out.append("")
        out.append("//go:noinline")
        out.append("func c14sN_%s() {" % ident)
        out.append("\t" + call)
        out.append("\tc14After++ // a following statement on its own line: a return address taken as the call's line shows")
        out.append("}")
        out.append("")
        reg.append('\t"%s": {inl: [c14InlDepth + 1]func(){%s}, no: c14sN_%s},' % (name, ", ".join(chain), ident))
    reg.append("}")
    path = os.path.join(os.path.dirname(HERE), "harness", "fam_caller_sites.go")
    with open(path, "w") as fh:
        fh.write("\n".join(out + reg) + "\n")
    import subprocess
    subprocess.run(["gofmt", "-w", path], check=False)
    print("wrote", path)


if __name__ == "__main__":
    if len(sys.argv) > 1 and sys.argv[1] == "gen-sites":
        gen_sites()
