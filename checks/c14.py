"""C14: caller attribution points at the user's call site for every entry point.

Pipeline (spec/Caller.tla is the oracle):
  1. TLC enumerates the table  entry point x format x logger kind x inlining x way the skip was
     given x skip x wrapper depth  (one cell per state) and checks the attribution invariants in
     every cell;  a short witness run with the named deviation enabled must violate
     AttributionAtIssuer (non-vacuity) and exports the table.
  2. the Go worker (harness/fam_caller.go + generated wrapper chains fam_caller_sites.go) issues
     every cell on the real library through real wrapper chains and reports which frame of the
     real call stack the record's caller member names.
  3. TLC validates the recording against CallerTrace (AttrD of the same specification).

History component (spec/CallerHist.tla, runs beside the table):
  4. TLC explores the machine of logger configuration (WithSkip / SetSkip on any live logger, the
     package-level forms on the default logger, New/With... children, SetDefault, other
     configuration calls, Emit) exhaustively for small constants, checks the isolation properties
     on every transition and dumps the graph; a witness run with the named deviation
     SkipChildByParentOnly must violate WithIsolates.
  5. an edge cover of the graph plus seeded random deeper histories is executed by the worker
     (harness/fam_caller_hist.go): after EVERY step records are issued through EVERY live logger
     (several entry points of different families, real wrapper chains) and the attribution recorded.
  6. TLC validates the recording against CallerHistTrace (a monitor over the same operators).

Cells with site # "go" (dimension `site` of Caller.tla) run through wrapper chains whose frames sit behind //line
directives (file names with backslashes, quotes, blanks, control characters, non-ASCII: LINE_SITES of
checks/encoderlib.py); for them the decoded (file, line, function) must be exactly that of the frame.

`python3 checks/c14.py gen-sites [dir]` regenerates harness/fam_caller_sites.go and harness/fam_caller_lines.go (into dir when
given: harness/ is shared, move the files in only when they build with the rest of the package).
"""
import concurrent.futures
import hashlib
import json
import os
import random
import re
import sys
import threading
import time

HERE = os.path.dirname(os.path.abspath(__file__))
if __name__ == "__main__":
    sys.path.insert(0, os.path.join(os.path.dirname(HERE), "tools"))

from vlib import Undecided, read_ndjson, write_ndjson, edge_cover, parse_action  # noqa: E402
from tlagen import gen_mc  # noqa: E402

INVARIANTS = ["TypeOK", "AttributionAtIssuer", "SkipMovesExactlyN", "FormatIndependent", "KindIndependent",
              "InlineIndependent", "ViaIndependent", "SiteIndependent", "RouteIndependent", "CallerSurvivesUserAttr", "WithinChain"]

# named deviation of the specification -> known-finding key
DEV_KEYS = {"BridgeIgnoresSkip": "ep:stdlog:skip-ignored", "CallerBeforeAttrs": "attr:caller:overrides-call-site",
            "BridgeFixedDepth": "ep:stdlog:fixed-depth", "AdapterFixedDepth": "ep:logslog:record-pc-ignored"}
# witness runs: deviation -> (initial predicate of spec/Caller.tla, invariants of which at least one must fail)
DEV_WITNESS = {"BridgeFixedDepth": ("InitBridge", {"AttributionAtIssuer"}), "AdapterFixedDepth": ("InitAdapter", {"AttributionAtIssuer", "RouteIndependent"})}

CELL_FIELDS = ["ep", "fam", "fmt", "kind", "inl", "via", "skip", "other", "depth", "site", "ua", "route"]
ROUTE_TEXT = {"mw1": "the adapter sits behind one other log/slog handler (middleware)", "mw2": "the adapter sits behind two other log/slog handlers (middleware)"}
UA_TEXT = {"rec": "the record", "log": "the logger", "hdl": "the log/slog handler"}

# entry points that also have call sites behind //line directives (= LineEPNames of spec/Caller.tla)
LINE_EPS = ["Info", "Println", "InfoContext", "LogAttrs", "Log", "Infof", "slog.Warn", "slog.InfoContext",
            "logslog.Info", "logslog.LogAttrs", "stdlog.Print", "stdlog.Output"]
LINE_DEPTH = 2

# entry points that have cells with a user attribute keyed `caller` (= UAEPNames of spec/Caller.tla); the ones with a
# call in UA_CALLS take attributes themselves and have a third issuing function c14sA_* that passes c14KV / c14SLKV /
# c14SLAttrs (set per cell), the others (printf, std-log bridge) get the attribute through the logger only
UA_EPS = ["Info", "InfoContext", "LogAttrs", "Infof", "slog.Warn", "logslog.Info", "logslog.LogAttrs", "stdlog.Print"]
UA_CALLS = {
    "Info": 'c14L.Info("m", c14KV...)',
    "InfoContext": 'c14L.InfoContext(c14Ctx, "m", c14KV...)',
    "LogAttrs": 'c14L.LogAttrs(c14Ctx, slog.InfoLevel, "m", c14KV...)',
    "slog.Warn": 'slog.Warn("m", c14KV...)',
    "logslog.Info": 'c14SL.Info("m", c14SLKV...)',
    "logslog.LogAttrs": 'c14SL.LogAttrs(c14Ctx, logslog.LevelInfo, "m", c14SLAttrs...)',
}
UA_DEV = "CallerBeforeAttrs"


def tiers(ctx):
    if ctx.quick():
        return dict(MaxDepthInl=3, MaxDepthNo=3, AllOthers=False)
    return dict(MaxDepthInl=4, MaxDepthNo=6, AllOthers=True)


def pick_line_sites(ctx, cap):
    """The //line chains of a tier: quick = the first chain of every file-name class plus every backslash name
    (Windows paths); thorough = all of them."""
    ids = [x["id"] for x in cap.get("line_sites") or []]
    if not ctx.quick():
        return ids
    return [i for i in ids if i.endswith("/0") or i.startswith("bslash/")]


def mc_files(consts, devs, cell_file=None, init="Init"):
    mc, cfg = gen_mc("MC", "Caller", dict(Devs=set(devs), LineSites=set(consts.get("LineSites", []))),
                     ["INIT " + init, "NEXT Next", "CHECK_DEADLOCK FALSE", "INVARIANTS " + " ".join(INVARIANTS)],
                     plain=dict(MaxDepthInl=consts["MaxDepthInl"], MaxDepthNo=consts["MaxDepthNo"],
                                AllOthers="TRUE" if consts["AllOthers"] else "FALSE"))
    if cell_file:
        mc = mc.replace("====", 'ASSUME Export("%s")\n====' % cell_file)
    return {"MC.tla": mc, "MC.cfg": cfg}


def validate(ctx, consts, trace_path, name):
    """TLC validates the recording; returns the verdict record printed by CallerTrace!Done."""
    mct, cfg = gen_mc("MCT", "CallerTrace", dict(Devs=set(), TraceFile="trace.ndjson", LineSites=set(consts.get("LineSites", []))),
                      ["SPECIFICATION TSpec", "INVARIANTS Done TTypeOK", "CHECK_DEADLOCK FALSE"],
                      plain=dict(MaxDepthInl=consts["MaxDepthInl"], MaxDepthNo=consts["MaxDepthNo"],
                                 AllOthers="TRUE" if consts["AllOthers"] else "FALSE", MaxReport=3))
    r = ctx.tlc("MCT", "MCT.cfg", files={"MCT.tla": mct, "MCT.cfg": cfg}, copy={trace_path: "trace.ndjson"},
                workers=1, name=name, timeout=3000, allow_fail=True)
    if r.invariant_violated:
        raise Undecided("trace run: invariant %s violated:\n%s" % (r.invariant_violated, r.out[-3000:]))
    if not r.ok:
        raise Undecided("trace validation run failed:\n" + r.out[-5000:])
    res = r.prints("verdict")
    if len(res) != 1:
        raise Undecided("trace validation did not reach the end of the log:\n" + r.out[-3000:])
    return res[0]


def encoderlib_quote(s):
    sys.path.insert(0, HERE)
    from encoderlib import ascii_quote
    return ascii_quote(s)


def cell_key(c):
    return tuple(c[f] for f in CELL_FIELDS)


def describe(c):
    ua = c.get("ua", "none")
    return "%s [%s, %s logger, %s wrappers, skip %d via %s%s, %d wrapper(s)%s%s%s]" % (
        c["ep"], c["fmt"], c["kind"], "inlinable" if c["inl"] else "noinline", c["skip"], c["via"],
        " (previous/parent skip %d)" % c["other"] if c["via"] in ("SetSet", "WithOver") else "", c["depth"],
        "" if c.get("site", "go") == "go" else ", frames behind //line directives: chain %s" % c["site"],
        "" if ua == "none" else ", %s carries %s keyed `caller`" % (
            UA_TEXT[ua.split("-")[0]], "a group {file, line, function}" if ua.endswith("group") else "a plain attribute"),
        "" if c.get("route", "direct") == "direct" else ", " + ROUTE_TEXT.get(c["route"], c["route"]))


def execute(ctx, consts, cells, tag):
    """Run the cells on the library, validate with TLC, report findings. Returns (rows, details, verdict)."""
    cp = os.path.join(ctx.scratch, "cells-%s.ndjson" % tag)
    tp = os.path.join(ctx.scratch, "trace-%s.ndjson" % tag)
    dp = os.path.join(ctx.scratch, "detail-%s.ndjson" % tag)
    write_ndjson(cp, [{k: c[k] for k in ["id"] + CELL_FIELDS} for c in cells])
    t0 = time.time()
    ctx.run_worker(["c14", "run", cp, tp, dp], testing=True, timeout=1800)
    ctx.extra.setdefault("phase_s", {})["worker-" + tag] = round(time.time() - t0, 1)
    rows = read_ndjson(tp)
    details = read_ndjson(dp)
    if len(rows) != len(cells) or len(details) != len(cells):
        raise Undecided("worker executed %d of %d cells" % (len(rows), len(cells)))
    herr = [d for d in details if d.get("herr")]
    if herr:
        raise Undecided("harness could not execute %d cell(s) as specified, e.g. %s: %s" % (
            len(herr), describe(cells[herr[0]["id"]]), herr[0]["herr"]))
    norec = [d for d in details if d["got"]["k"] == "norecord"]
    if norec:
        # nothing was emitted, so there is no caller member to judge (emission itself is C01/C02/C15)
        raise Undecided("%d cell(s) emitted no record, e.g. %s" % (len(norec), describe(cells[norec[0]["id"]])))
    v = validate(ctx, consts, tp, "caller-trace-" + tag)
    if v["n"] != len(cells) or v["ok"] + v["nbad"] + sum(v["devn"].values()) != len(cells):
        raise Undecided("trace validation counted %s lines, expected %d" % (v["n"], len(cells)))
    by_id = {c["id"]: c for c in cells}
    det = {d["id"]: d for d in details}

    def report(key, b, extra):
        if b["id"] < 0:
            raise Undecided("trace line %d is not a cell of the specification" % b["line"])
        c, d = by_id[b["id"]], det[b["id"]]
        want = b["want"]
        got = d["got"]
        gotdesc = {"user": "user frame %d (%s)" % (got["i"], d.get("gotfunc")), "lib": "frame %s outside the wrapper chain" % d.get("gotfunc"),
                   "none": "no frame of the call stack", "missing": "nothing (record has no caller member)",
                   "attr": "the program's own attribute (the last member of that name in the record)"}.get(got["k"], got["k"])
        what = "%s: record names %s as caller %s; specification: user frame %d = %s. %s" % (
            describe(c), gotdesc, json.dumps(d.get("caller")), want["i"],
            (d["user"][want["i"]]["func"] + ":" + str(d["user"][want["i"]]["line"])) if want["i"] < len(d.get("user") or []) else "?",
            extra)
        ctx.finding(key, what, dict(kind="c14-cells", consts=consts, cells=[{k: c[k] for k in CELL_FIELDS}],
                                    expected=want, observed=dict(got=got, caller=d.get("caller"), record=d.get("record"),
                                                                 user_frames=d.get("user"))))

    for b in v["bad"]:             # up to 3 reproducers per entry point, all divergent cells counted
        ep = by_id[b["id"]]["ep"] if b["id"] >= 0 else "?"
        site = by_id[b["id"]].get("site", "go") if b["id"] >= 0 else "go"
        d = det.get(b["id"], {})
        ua = by_id[b["id"]].get("ua", "none") if b["id"] >= 0 else "none"
        if ua != "none":
            # the record / logger / handler carries an attribute keyed `caller`: named after where it sits, its shape, the format
            report("attr:caller:%s:%s" % (ua, by_id[b["id"]]["fmt"]), b, "(%d cells of this entry point diverge)" % v["badn"].get(ep, 0))
        elif site != "go":
            # a call site behind a //line directive: named after the class of its file name and the format
            report("site:%s:%s" % (site.split("/")[0], by_id[b["id"]]["fmt"]), b,
                   "(file name of the frames: %s; %d cells of this entry point diverge)" % (d.get("sitefile"), v["badn"].get(ep, 0)))
        elif by_id[b["id"]].get("route", "direct") != "direct":
            report("ep:%s:%s" % (ep, by_id[b["id"]]["route"]), b, "(%d cells of this entry point diverge)" % v["badn"].get(ep, 0))
        else:
            report("ep:" + ep, b, "(%d cells of this entry point diverge)" % v["badn"].get(ep, 0))
    seen_dev = set()
    for b in v["dev"]:             # one report per named deviation (first cell as the reproducer)
        if b["dev"] in seen_dev:
            continue
        seen_dev.add(b["dev"])
        key = DEV_KEYS.get(b["dev"], "dev:" + b["dev"])
        report(key, b, "(matches the named deviation %s of the specification; %d cells do)" % (
            b["dev"], v["devn"].get(b["dev"], 0)))
        if key in ctx.known_hits:
            ctx.known_hits[key] = v["devn"].get(b["dev"], 0)
    return rows, details, v


# ---------------------------------------------------------------------------------------------
# history component (spec/CallerHist.tla, spec/CallerHistTrace.tla, harness/fam_caller_hist.go)

HIST_FAMS = ["verb", "ctx", "attrs", "printf", "pkgverb", "pkgctx", "adapter", "bridge"]
HIST_INVS = ["HTypeOK", "AliasesAgree", "OnlyExcusedSharing"]
HIST_PROPS = ["WithIsolates", "SetIsLocal", "NeutralOps", "PkgOnDefault", "EmitAtSkip"]
HIST_FORMATS = ["json", "logfmt", "color"]
HIST_BASE = dict(MaxDepthInl=4, MaxDepthNo=8, AllOthers="FALSE")       # parameters of the stack model (Caller)
HIST_TRACE_LOGGERS = 64
HIST_TRACE_SKIPS = 8
HIST_DEV = "SkipChildByParentOnly"


def hist_tiers(ctx):
    """mc: constants of the exhaustive machine (the graph that is replayed edge by edge);
    cover_k / rand.k: entry points issued through every live logger after every step."""
    if ctx.quick():
        return dict(mc=dict(HMaxLoggers=4, HSkips=[0, 1], HHows=["New", "With"], HTouches=["cfg"], HMaxDepth=1),
                    cover_k=3, max_len=60, chunks=6, par=6, mc_workers=6,
                    rand=dict(count=600, depth=20, loggers=8, skips=4, k=4))
    return dict(mc=dict(HMaxLoggers=4, HSkips=[0, 1, 2], HHows=["New", "With"], HTouches=["cfg"], HMaxDepth=2),
                cover_k=3, max_len=80, chunks=24, par=8, mc_workers=8,
                rand=dict(count=8000, depth=40, loggers=12, skips=4, k=5))


def hist_mc_files(mc, devs, invs=HIST_INVS, props=HIST_PROPS):
    return gen_mc("MCH", "CallerHist",
                  dict(Devs=set(), HSkips=set(mc["HSkips"]), HHows=set(mc["HHows"]), HTouches=set(mc["HTouches"]),
                       HFams=set(HIST_FAMS), HDevs=set(devs)),
                  ["INIT HInit", "NEXT HNext", "VIEW HView", "ALIAS HDumpAlias", "CHECK_DEADLOCK FALSE",
                   "INVARIANTS " + " ".join(invs), "PROPERTIES " + " ".join(props)],
                  plain=dict(HIST_BASE, HMaxLoggers=mc["HMaxLoggers"], HMaxDepth=mc["HMaxDepth"]))


_hedge = re.compile(r'^(-?\d+) -> (-?\d+) \[label="(.*?)",color=')
_hinit = re.compile(r'^(-?\d+) \[label="[^"]*",style = filled')
_hnode = re.compile(r'^(-?\d+) \[label=')


def hist_graph(path):
    """Edges of the dumped graph without the Emit self-loops (the worker observes every live logger
    after every step anyway).  Returns (nodes, edges, inits, number of Emit edges)."""
    nodes, edges, inits, seen, nemit = {}, [], [], set(), 0
    with open(path, errors="replace") as fh:
        for line in fh:
            c = line[:1]
            if c != "-" and not c.isdigit():
                continue
            m = _hedge.match(line)
            if m:
                lbl = m.group(3).replace('\\"', '"')
                if lbl.startswith("Emit("):
                    nemit += 1
                    continue
                e = (m.group(1), lbl, m.group(2))
                if e not in seen:
                    seen.add(e)
                    edges.append(e)
                continue
            m = _hnode.match(line)
            if m:
                nodes[m.group(1)] = True
                if _hinit.match(line):
                    inits.append(m.group(1))
    if len(inits) != 1:
        raise Undecided("history graph: %d initial states in the dump" % len(inits))
    return nodes, edges, inits, nemit


def hist_step(label):
    name, a = parse_action(label)
    if name in ("WithSkip", "SetSkip") and len(a) == 2:
        return dict(op=name, l=a[0], n=a[1], how="")
    if name in ("PkgWithSkip", "PkgSetSkip") and len(a) == 1:
        return dict(op=name, l=0, n=a[0], how="")
    if name in ("Derive", "Touch") and len(a) == 2:
        return dict(op=name, l=a[0], n=0, how=a[1])
    if name == "SetDefault" and len(a) == 1:
        return dict(op=name, l=a[0], n=0, how="")
    raise Undecided("history graph: unexpected edge label %r" % label)


def hist_random(rng, rc, withs, touches):
    """Seeded random histories, deeper and wider than the exhaustive machine: more loggers, skip
    counts up to rc.skips, every derivation / configuration call the worker knows.  The receiver is
    a selector that the worker resolves modulo the live handles (recorded in the trace)."""
    res = []
    for _ in range(rc["count"]):
        n, steps = 2, []
        for _ in range(rng.randint(max(2, rc["depth"] // 2), rc["depth"])):
            x, sel, sk = rng.random(), rng.randrange(1 << 20), rng.randint(0, rc["skips"])
            if x < 0.24:
                st = dict(op="WithSkip", l=sel, n=sk, how="")
            elif x < 0.48:
                st = dict(op="SetSkip", l=sel, n=sk, how="")
            elif x < 0.56:
                st = dict(op="PkgWithSkip", l=0, n=sk, how="")
            elif x < 0.64:
                st = dict(op="PkgSetSkip", l=0, n=sk, how="")
            elif x < 0.80:
                st = dict(op="Derive", l=sel, n=0, how="New" if rng.random() < 0.3 else rng.choice(withs))
            elif x < 0.88:
                st = dict(op="SetDefault", l=sel, n=0, how="")
            else:
                st = dict(op="Touch", l=sel, n=0, how=rng.choice(touches))
            if st["op"] in ("WithSkip", "PkgWithSkip", "Derive"):
                if n >= rc["loggers"]:
                    st = dict(op="SetSkip", l=sel, n=sk, how="")
                else:
                    n += 1
            steps.append(st)
        res.append(steps)
    return res


def hist_validate(ctx, cap, trace_path, name):
    """TLC validates one recording; returns the verdict record printed by CallerHistTrace!Done."""
    mct, cfg = gen_mc("MCHT", "CallerHistTrace",
                      dict(Devs=set(), HSkips=set(range(HIST_TRACE_SKIPS + 1)), HHows=set(cap["hist_withs"]) | {"New"},
                           HTouches=set(cap["hist_touches"]), HFams=set(HIST_FAMS), HDevs=set(), TraceFile="trace.ndjson"),
                      ["SPECIFICATION TSpec", "CHECK_DEADLOCK FALSE", "INVARIANTS Done TStateOK",
                       "PROPERTIES WithIsolates SetIsLocal NeutralOps PkgOnDefault"],
                      plain=dict(HIST_BASE, HMaxLoggers=HIST_TRACE_LOGGERS, HMaxDepth=cap["no_depth"], MaxReport=40))
    r = ctx.tlc("MCHT", "MCHT.cfg", files={"MCHT.tla": mct, "MCHT.cfg": cfg}, copy={trace_path: "trace.ndjson"},
                workers=1, name=name, timeout=3000, allow_fail=True)
    if r.invariant_violated:
        raise Undecided("history trace run: %s violated on a recorded behaviour:\n%s" % (r.invariant_violated, r.out[-3000:]))
    if not r.ok:
        raise Undecided("history trace validation failed:\n" + r.out[-5000:])
    res = r.prints("hverdict")
    if len(res) != 1:
        raise Undecided("history trace validation did not reach the end of the log:\n" + r.out[-3000:])
    try:
        os.remove(os.path.join(r.dir, "trace.ndjson"))
    except OSError:
        pass
    return res[0]


def hist_execute(ctx, cap, behaviours, tag, nchunks, par, detail=False):
    """Execute behaviours on the library (several worker processes) and validate every recording.
    Returns dict(bad=[...], lines={(b, s): trace line} for the behaviours named in bad, n, nobs, details)."""
    chunks, loads = [[] for _ in range(max(1, nchunks))], [0] * max(1, nchunks)
    for b in sorted(behaviours, key=lambda b: -len(b["steps"])):
        k = loads.index(min(loads))
        chunks[k].append(b)
        loads[k] += len(b["steps"]) + 1
    chunks = [sorted(c, key=lambda b: b["b"]) for c in chunks if c]

    def one(ci):
        chunk = chunks[ci]
        bp = os.path.join(ctx.scratch, "hist-%s-%d.beh.ndjson" % (tag, ci))
        tp = os.path.join(ctx.scratch, "hist-%s-%d.trace.ndjson" % (tag, ci))
        dp = os.path.join(ctx.scratch, "hist-%s-%d.detail.ndjson" % (tag, ci))
        write_ndjson(bp, chunk)
        t0 = time.time()
        ctx.run_worker(["c14", "hist", bp, tp] + ([dp] if detail else []), testing=True, timeout=3000)
        tw = time.time() - t0
        v = hist_validate(ctx, cap, tp, "caller-hist-trace-%s-%d" % (tag, ci))
        want = sum(len(b["steps"]) + 1 for b in chunk)
        lines = {}
        harness = [r for r in v["bad"] if r["why"] == "harness"]
        if v["bad"] or v["n"] != want:
            rows = read_ndjson(tp)
            herr = [r for r in rows if r.get("herr")]
            if herr:
                raise Undecided("history worker could not execute behaviour %d step %d as specified: %s" % (
                    herr[0]["b"], herr[0]["s"], herr[0]["herr"]))
            if harness:
                raise Undecided("history trace line %d (behaviour %s step %s) is not one the specification can judge: %s" % (
                    harness[0]["line"], harness[0]["b"], harness[0]["s"], harness[0].get("what")))
            if len(rows) != want:
                raise Undecided("history worker wrote %d lines, %d expected" % (len(rows), want))
            badb = set(r["b"] for r in v["bad"])
            lines = {(r["b"], r["s"]): r for r in rows if r["b"] in badb}
        if v["n"] != want:
            raise Undecided("history trace validation consumed %s lines, %d expected" % (v["n"], want))
        det = read_ndjson(dp) if detail else []
        for f in (tp, dp):
            try:
                os.remove(f)
            except OSError:
                pass
        return v, lines, tw, det

    out = dict(bad=[], lines={}, n=0, nobs=0, nbad=0, worker_s=0.0, details=[])
    with concurrent.futures.ThreadPoolExecutor(max_workers=max(1, par)) as ex:
        for v, lines, tw, det in ex.map(one, range(len(chunks))):
            out["bad"] += v["bad"]
            out["nbad"] += v["nbad"]
            out["lines"].update(lines)
            out["n"] += v["n"]
            out["nobs"] += v["nobs"]
            out["worker_s"] += tw
            out["details"] += det
    return out


def hist_relation(r, x):
    """Relation of handle x to the receiver of the failing call (par/obj: the tree after the call)."""
    par, obj = r["par"], r["obj"]
    o = lambda h: obj[h - 1] if 1 <= h <= len(obj) else 0
    p = lambda h: o(par[h - 1]) if 1 <= h <= len(par) and par[h - 1] else 0
    if o(x) == o(r["recv"]):
        return "receiver"
    if r["new"] and o(x) == o(r["new"]):
        return "returned"
    if p(r["recv"]) and p(r["recv"]) == o(x):
        return "parent"
    if p(x) and p(x) == o(r["recv"]):
        return "child"
    if p(x) and p(x) == p(r["recv"]):
        return "sibling"
    return "other"


HIST_REL_ORDER = ["receiver", "returned", "parent", "child", "sibling", "other"]


def hist_key(r):
    """Signature of a divergence.  When every diverging logger also issued a correctly attributed
    record after the same step the logger's count is right and an entry point is off: ep:<name>
    (the class the table component reports).  Otherwise the count of a logger is off:
    hist:<call>:<relation of the nearest diverging logger to the receiver of that call>."""
    if set(r["ls"]) <= set(r["okls"]):
        return "hist:ep:" + r["first"]["ep"]
    wrong = [x for x in r["ls"] if x not in r["okls"]]
    if r["op"] == "Init":           # a fresh root that does not attribute to the issuing statement
        return "hist:Init:" + ("default-root" if r["def"] in wrong else "root")
    rels = sorted((hist_relation(r, x) for x in wrong), key=HIST_REL_ORDER.index)
    return "hist:%s:%s" % (r["op"], rels[0])


def hist_story(lines, b, upto):
    """The calls of behaviour b up to step `upto` as the program would have written them."""
    out, n = [], 2
    for s in range(1, upto + 1):
        ln = lines.get((b, s))
        if not ln:
            break
        op, l = ln["op"], ln["l"]
        if op == "WithSkip":
            txt = "#%d.WithSkip(%d)" % (l, ln["n"])
        elif op == "PkgWithSkip":
            txt = "slog.WithSkip(%d) [default #%d]" % (ln["n"], l)
        elif op == "SetSkip":
            txt = "#%d.SetSkip(%d)" % (l, ln["n"])
        elif op == "PkgSetSkip":
            txt = "slog.SetSkip(%d) [default #%d]" % (ln["n"], l)
        elif op == "Derive":
            txt = "#%d.%s(..)" % (l, ln["how"].replace("NewAnon", "New").replace("NewKV", "New"))
        elif op == "SetDefault":
            txt = "slog.SetDefault(#%d)" % l
        else:
            txt = "#%d.%s" % (l, ln["how"])
        if op in ("WithSkip", "PkgWithSkip", "Derive"):
            n += 1
            txt += " -> #%d" % n
            if ln["alias"]:
                txt += " (the same object as #%d)" % ln["alias"]
        out.append(txt)
    return "; ".join(out) if out else "(no call yet)"


def hist_findings(ctx, cap, res, by_id, source):
    """Turn the monitor's rejected lines into findings: at most 3 reproducers per signature, each
    re-executed alone (truncated at the failing step) to confirm it and to collect the record."""
    per_key = {}
    for r in sorted(res["bad"], key=lambda r: (r["s"], r["b"])):
        per_key.setdefault(hist_key(r), []).append(r)
    picked = [(key, r) for key, rs in sorted(per_key.items(), key=lambda kv: (kv[1][0]["s"], kv[0])) for r in rs[:3]]
    if not picked:
        return [], {}
    # re-execution of the reproducers, with details
    reb = []
    for j, (key, r) in enumerate(picked):
        beh = by_id[r["b"]]
        reb.append(dict(beh, b=j, steps=beh["steps"][:r["s"]]))
    try:
        rr = hist_execute(ctx, cap, reb, "confirm-" + source, 1, 1, detail=True)
    except Undecided:               # the recording was judged already; only the details are missing
        rr = dict(bad=[dict(b=j) for j in range(len(reb))], details=[])
    confirmed = set(x["b"] for x in rr["bad"])
    findings = []
    for j, (key, r) in enumerate(picked):
        f, want = r["first"], r["want"]
        det = [d for d in rr["details"] if d["b"] == j and d["s"] == r["s"] and d["obs"]["l"] == f["l"] and d["obs"]["ep"] == f["ep"]]
        det = det[0] if det else None
        got = {"user": "user frame %d" % f["i"], "lib": "a frame outside the wrapper chain", "none": "no frame of the call stack",
               "missing": "nothing (no caller member)"}.get(f["k"], f["k"])
        if det and det.get("gotfunc"):
            got += " (%s, caller %s)" % (det["gotfunc"], json.dumps(det.get("caller")))
        rels = ", ".join("#%d (%s)" % (x, hist_relation(r, x)) for x in r["ls"])
        what = ("history [%s]: %s. After that call a record issued through logger #%d with %s (%d %s wrapper(s)) names %s; "
                "the skip count given to #%d is %d, so the property demands user frame %d. Diverging loggers: %s; "
                "%d of the observations after this step diverge, %d behaviour(s) with this signature.%s" % (
                    source, hist_story(res["lines"], r["b"], r["s"]), f["l"], f["ep"], f["d"],
                    "inlinable" if f.get("inl") else "noinline", got, f["l"], r["skip"][f["l"] - 1], want["i"], rels,
                    r["nobs"], len(per_key[key]), "" if j in confirmed else " (NOT reproduced when re-executed alone)"))
        replay = dict(kind="c14-hist", behaviour=reb[j], source=source, expected=want, skip_counts=r["skip"], parents=r["par"],
                      observed=dict(first=f, diverging=r["ls"], detail=det))
        findings.append((key, what, replay))
    return findings, {k: len(v) for k, v in per_key.items()}


def hist_behaviour(ctx, idx, steps, exact, k, dmin):
    plan = int(hashlib.sha256(("%d/%d" % (ctx.seed, idx)).encode()).hexdigest()[:7], 16)
    return dict(b=idx, fmt=HIST_FORMATS[(idx + ctx.seed) % 3], names=((idx + ctx.seed) // 3) % 3, plan=plan, k=k, dmin=dmin,
                exact=exact, steps=steps)


def run_hist(ctx, cap):
    """The history component.  Returns dict(findings=[(key, what, replay)], states, transitions, traces,
    evaluations, nontrivial, extra, samples); never touches ctx's findings (it runs in a thread)."""
    T = hist_tiers(ctx)
    mc = T["mc"]
    ph = {}
    if max(mc["HSkips"]) > cap["inl_depth"] or T["rand"]["skips"] > cap["inl_depth"] or cap["no_depth"] < T["rand"]["skips"] + 2:
        raise Undecided("worker chains are shallower than the history configuration asks for")
    if sorted(cap.get("hist_fams", [])) != sorted(HIST_FAMS):
        raise Undecided("entry-point families of the history worker and of the specification differ")

    # ---- 4a. witness: with the named deviation the isolation property must fail (runs beside 4b)
    wit = {}

    def witness():
        try:
            t0 = time.time()
            mch, cfg = hist_mc_files(mc, [HIST_DEV], invs=["HTypeOK"], props=["WithIsolates"])
            w = ctx.tlc("MCH", "MCH.cfg", files={"MCH.tla": mch, "MCH.cfg": cfg}, name="caller-hist-witness", workers=2,
                        allow_fail=True)
            if "Action property WithIsolates is violated" not in w.out:
                raise Undecided("history witness: WithIsolates did not fail with %s enabled:\n%s" % (HIST_DEV, w.out[-2000:]))
            ph["witness"] = round(time.time() - t0, 1)
        except BaseException as ex:
            wit["ex"] = ex

    wth = threading.Thread(target=witness)
    wth.start()

    # ---- 4b. exhaustive machine, action properties on every transition, graph dump
    t0 = time.time()
    dot = os.path.join(ctx.scratch, "hist-graph")
    mch, cfg = hist_mc_files(mc, [])
    try:
        r = ctx.tlc("MCH", "MCH.cfg", files={"MCH.tla": mch, "MCH.cfg": cfg}, name="caller-hist-mc", workers=T["mc_workers"],
                    extra=["-dump", "dot,actionlabels", dot], timeout=3000)
    finally:
        wth.join()
    if "ex" in wit:
        raise wit["ex"]
    ph["mc"] = round(time.time() - t0, 1)
    t0 = time.time()
    nodes, edges, inits, nemit = hist_graph(dot + ".dot")
    os.remove(dot + ".dot")
    if len(nodes) != r.distinct:
        raise Undecided("history graph has %d nodes, TLC found %d states" % (len(nodes), r.distinct))
    covers, unvisited = edge_cover(nodes, edges, inits, max_len=T["max_len"])
    if unvisited:
        raise Undecided("history edge cover incomplete: %d edges not reachable" % unvisited)
    steps_of = [hist_step(lbl) for (_, lbl, _) in edges]
    ph["cover"] = round(time.time() - t0, 1)

    dmin_cover = max(mc["HSkips"])
    behaviours = [hist_behaviour(ctx, i, [dict(steps_of[e]) for e in beh], True, T["cover_k"], dmin_cover)
                  for i, beh in enumerate(covers)]
    n_cover = len(behaviours)
    rng = random.Random(ctx.seed * 15485863 + 14)
    rc = T["rand"]
    withs = sorted(cap["hist_withs"])
    touches = sorted(cap["hist_touches"])
    for steps in hist_random(rng, rc, withs, touches):
        behaviours.append(hist_behaviour(ctx, len(behaviours), steps, False, rc["k"], rc["skips"]))
    by_id = {b["b"]: b for b in behaviours}

    # ---- 5./6. execute and validate
    t0 = time.time()
    res = hist_execute(ctx, cap, behaviours, "all", T["chunks"], T["par"])
    ph["execute+validate"] = round(time.time() - t0, 1)
    ph["worker_cpu"] = round(res["worker_s"], 1)
    t0 = time.time()
    cover_bad = dict(res, bad=[x for x in res["bad"] if x["b"] < n_cover])
    rand_bad = dict(res, bad=[x for x in res["bad"] if x["b"] >= n_cover])
    f1, k1 = hist_findings(ctx, cap, cover_bad, by_id, "edge-cover")
    f2, k2 = hist_findings(ctx, cap, rand_bad, by_id, "random")
    seen, findings = set(), []
    for key, what, rp in f1 + f2:           # at most 3 reproducers per signature over both sources
        if sum(1 for k in seen if k[0] == key) < 3:
            seen.add((key, len(seen)))
            findings.append((key, what, rp))
    ph["report"] = round(time.time() - t0, 1)

    rand_steps = set()
    for b in behaviours[n_cover:]:
        pre = ()
        for st in b["steps"]:
            pre = hash((pre, st["op"], st["l"], st["n"], st["how"]))
            rand_steps.add(pre)
    keys = dict(k1)
    for k, v in k2.items():
        keys[k] = keys.get(k, 0) + v
    return dict(findings=findings, states=r.distinct, transitions=r.generated, traces=len(behaviours), evaluations=res["nobs"],
                nontrivial=len(edges) + len(rand_steps),
                extra=dict(hist_graph_states=len(nodes), hist_graph_edges=len(edges), hist_graph_emit_edges=nemit,
                           hist_cover_behaviours=n_cover, hist_cover_steps=sum(len(b["steps"]) for b in behaviours[:n_cover]),
                           hist_random_behaviours=len(behaviours) - n_cover,
                           hist_random_steps=sum(len(b["steps"]) for b in behaviours[n_cover:]),
                           hist_trace_lines=res["n"], hist_observations_accepted=res["nobs"], hist_lines_rejected=res["nbad"],
                           hist_signatures=keys, hist_constants=mc, hist_random_constants=rc,
                           hist_witness="WithIsolates violated with HDevs={%s} (expected)" % HIST_DEV, hist_phase_s=ph),
                sample=dict(history=behaviours[n_cover]["steps"][:8] if len(behaviours) > n_cover else behaviours[0]["steps"][:8]))


def hist_apply(ctx, h):
    """Main thread: merge the history component's result into the context."""
    ctx.states += h["states"]
    ctx.transitions += h["transitions"]
    ctx.traces += h["traces"]
    ctx.evaluations += h["evaluations"]
    ctx.nontrivial += h["nontrivial"]
    ctx.extra.update(h["extra"])
    ctx.sample(h["sample"], limit=6)
    for key, what, rp in h["findings"]:
        ctx.finding(key, what, rp)
    ctx.assumptions += [
        "history component: a logger is a handle; two handles are the same object only where New's documentation says so "
        "(WithSkip(l, n) may return the child an earlier WithSkip(l, n) with the same n returned, which then carries n again); "
        "a child made by New/With...() was never given a count and attributes to the issuing statement whatever its parent carries",
        "history component: all loggers run at level Info and are observed through entry points that level admits"]



def run(ctx, replay):
    consts = tiers(ctx)
    if replay:
        with open(replay) as fh:
            rp = json.load(fh)["replay"]
        if rp.get("kind") == "c14-hist":
            cap = json.loads(ctx.run_worker(["c14", "list"], testing=True).stdout.strip().splitlines()[-1])
            beh = dict(rp["behaviour"], b=0)
            res = hist_execute(ctx, cap, [beh], "replay", 1, 1)
            fs, _ = hist_findings(ctx, cap, res, {0: beh}, rp.get("source", "replay"))
            for key, what, rp2 in fs:
                ctx.finding(key, what, rp2)
            ctx.traces += 1
            ctx.evaluations += res["nobs"]
            ctx.nontrivial += len(beh["steps"])
            ctx.sample(dict(history=beh["steps"][:8]))
            return ctx.finish(rule="replay of one recorded history", exhaustive=False)
        consts = rp.get("consts", consts)
        cells = [dict(dict(site="go", ua="none", route="direct"), **dict(c, id=i)) for i, c in enumerate(rp["cells"])]
        consts = dict(consts, LineSites=sorted(set(consts.get("LineSites", [])) | {c["site"] for c in cells if c["site"] != "go"}))
        rows, details, v = execute(ctx, consts, cells, "replay")
        ctx.traces += 1
        ctx.evaluations += len(cells)
        ctx.nontrivial += len(cells)
        ctx.sample(dict(cell=cells[0], observed=details[0]["got"], caller=details[0].get("caller")))
        return ctx.finish(rule="replay of recorded cells", exhaustive=False)

    # ---- 0. what the worker can execute
    t0 = time.time()
    p = ctx.run_worker(["c14", "list"], testing=True)
    ctx.extra.setdefault("phase_s", {})["build"] = round(time.time() - t0, 1)
    cap = json.loads(p.stdout.strip().splitlines()[-1])
    if consts["MaxDepthInl"] > cap["inl_depth"] or consts["MaxDepthNo"] > cap["no_depth"]:
        raise Undecided("worker chains are shallower than the configuration asks for")
    # the //line chains: generated from the table, and the toolchain took every directive as written
    want_sites = [(i, c, encoderlib_quote(f)) for i, c, f in line_site_ids()]
    if [(x["id"], x["cls"], x["file"]) for x in cap.get("line_sites") or []] != want_sites:
        raise Undecided("harness/fam_caller_lines.go is not generated from LINE_SITES (python3 checks/c14.py gen-sites)")
    wrong = [x for x in cap["line_sites"] if x["runtime"] != x["file"]]
    if wrong:
        raise Undecided("the runtime does not report the file name of the //line directive for chain %s: %s" % (
            wrong[0]["id"], wrong[0]["runtime"]))
    if sorted(cap.get("line_eps") or []) != sorted(LINE_EPS) or cap.get("line_depth") != LINE_DEPTH:
        raise Undecided("entry points / depth of the //line chains of the worker differ from LINE_EPS / LINE_DEPTH")
    if sorted(cap.get("ua_eps") or []) != sorted(UA_EPS) or sorted(cap.get("ua_rec_eps") or []) != sorted(UA_CALLS):
        raise Undecided("entry points with user-attribute cells of the worker differ from UA_EPS / UA_CALLS (python3 checks/c14.py gen-sites)")
    consts["LineSites"] = pick_line_sites(ctx, cap)

    # ---- 1a. non-vacuity + export: a short run over the bridge family with the named deviation
    #          enabled must violate AttributionAtIssuer; the same run exports the whole table
    #          (Export is an ASSUME of the MC module, evaluated by TLC before it starts).
    cell_file = os.path.join(ctx.scratch, "table.ndjson")
    w = ctx.tlc("MC", "MC.cfg", files=mc_files(consts, ["BridgeIgnoresSkip"], cell_file, init="InitBridge"),
                name="caller-witness", workers=4, allow_fail=True)
    if "AttributionAtIssuer" not in w.invariant_violated:
        raise Undecided("witness run: AttributionAtIssuer did not fail with BridgeIgnoresSkip enabled:\n" + w.out[-2000:])
    ctx.extra["witness"] = "AttributionAtIssuer violated with Devs={BridgeIgnoresSkip} (expected)"
    eps = w.prints("eps")
    ncells = w.prints("ncells")
    lineeps = w.prints("lineeps")
    if len(eps) != 1 or len(ncells) != 1 or len(lineeps) != 1:
        raise Undecided("table export did not run:\n" + w.out[-2000:])
    if sorted(lineeps[0]) != sorted(LINE_EPS):
        raise Undecided("LineEPNames of the specification and LINE_EPS of the worker generator differ")
    uaeps = w.prints("uaeps")
    if len(uaeps) != 1 or sorted(uaeps[0]) != sorted(UA_EPS):
        raise Undecided("UAEPNames of the specification and UA_EPS of the worker generator differ")
    termeps = w.prints("termeps")
    if len(termeps) != 1 or sorted(termeps[0]) != sorted(cap.get("term_eps") or []) or set(termeps[0]) != TERM_EPS:
        raise Undecided("TermEPNames of the specification and the terminating entry points of the worker / of this check differ")
    routeeps = w.prints("routeeps")
    if len(routeeps) != 1 or not ROUTE_ONLY_EPS <= set(routeeps[0]):
        raise Undecided("RouteEPNames of the specification does not hold the entry points this check takes as sub-table only")
    if sorted(eps[0]) != sorted(cap["eps"]):
        raise Undecided("entry points of the specification and of the worker differ: %s" % sorted(set(eps[0]) ^ set(cap["eps"])))
    table = read_ndjson(cell_file)
    if len(table) != ncells[0]:
        raise Undecided("table has %d rows, specification says %d cells" % (len(table), ncells[0]))
    if len(set(cell_key(c) for c in table)) != len(table):
        raise Undecided("exported table has duplicate cells")

    # ---- 1b. TLC: the invariants in every cell of the table, Devs = {} (runs while the cells are
    #          executed on the library; joined below)
    mc = {}

    def model_check():
        try:
            # non-vacuity of the user-attribute cells: with the built-in member written in FRONT of the attributes a
            # last-wins reader sees the program's attribute - the invariants must fail
            w2 = ctx.tlc("MC", "MC.cfg", files=mc_files(consts, [UA_DEV], init="InitUA"), name="caller-witness-ua", workers=2,
                         allow_fail=True)
            if not ({"AttributionAtIssuer", "CallerSurvivesUserAttr"} & set(w2.invariant_violated)):
                raise Undecided("witness run: no attribution invariant failed with %s enabled:\n%s" % (UA_DEV, w2.out[-2000:]))
            ctx.extra["witness_ua"] = "%s violated with Devs={%s} (expected)" % (",".join(sorted(w2.invariant_violated)), UA_DEV)
            # non-vacuity of the front-end cells: counting a fixed number of frames instead of skipping package log by name /
            # starting at the record's PC must break the attribution of some function of the front end / some route
            for dev, (init, invs) in sorted(DEV_WITNESS.items()):
                w3 = ctx.tlc("MC", "MC.cfg", files=mc_files(consts, [dev], init=init), name="caller-witness-" + dev, workers=2,
                             allow_fail=True)
                if not (invs & set(w3.invariant_violated)):
                    raise Undecided("witness run: none of %s failed with %s enabled:\n%s" % (sorted(invs), dev, w3.out[-2000:]))
                ctx.extra["witness_" + dev] = "%s violated with Devs={%s} (expected)" % (",".join(sorted(w3.invariant_violated)), dev)
            mc["r"] = ctx.model_check("MC", "MC.cfg", files=mc_files(consts, []), name="caller-mc", workers=8)
        except BaseException as ex:       # re-raised in the main thread
            mc["ex"] = ex

    # ---- 4.-6. the history component runs beside the table (own TLC runs, own worker processes)
    hist = {}

    def history():
        try:
            hist["r"] = run_hist(ctx, cap)
        except BaseException as ex:       # re-raised in the main thread
            hist["ex"] = ex

    th = threading.Thread(target=model_check)
    th2 = threading.Thread(target=history)
    th.start()
    th2.start()
    try:
        run_cells(ctx, consts, table, eps)
    finally:
        th.join()
        th2.join()
    if "ex" in mc:
        raise mc["ex"]
    if "ex" in hist:
        raise hist["ex"]
    if mc["r"].distinct < ncells[0]:
        raise Undecided("TLC visited %d states, the table has %d cells" % (mc["r"].distinct, ncells[0]))
    hist_apply(ctx, hist["r"])
    return ctx.finish(rule="(a) every cell of the TLC-enumerated table (entry point x 3 formats x logger kind x inlinable/noinline "
                           "wrappers x way the skip is given x skip x depth>=skip; plus, for 12 entry points (one per calling "
                           "convention), chains whose frames sit behind //line directives: every file-name class the toolchain "
                           "accepts x 3 formats x skip 0..2 x depth skip..2; plus, for 8 entry points, cells in which the record, "
                           "the logger or the log/slog handler carries an attribute keyed `caller` - plain or group - x 3 formats x "
                           "skip 0..2 x depth skip..2: a last-wins reader must still get the call site; plus the front-end sub-table: package log writing "
                           "into the bridge, log.Fatal* / Logger.Fatal* (a process per cell), log/slog records that reach the adapter through "
                           "log/slog.NewLogLogger, with a PC of the program's own (Handler.Handle), behind one or two middleware handlers) "
                           "is issued on the library and the recorded "
                           "attribution validated by TLC; non-trivial = distinct cells with skip>0 or at least one wrapper; "
                           "(b) every edge of the TLC-explored machine of logger configuration (WithSkip/SetSkip on any live "
                           "logger, package-level forms, New/With... children, SetDefault, other configuration) plus seeded "
                           "random deeper histories is executed, after every step records are issued through every live logger "
                           "and the attributions validated by TLC; non-trivial = distinct graph edges + distinct random prefixes",
                      exhaustive=True)


# entry points that end the process after the record was written (= TermEPNames of spec/Caller.tla) and entry points that
# have cells in the route sub-table only (= NarrowEPNames)
TERM_EPS = {p + v for p in ("stdlog.", "log.") for v in ("Fatal", "Fatalf", "Fatalln")}
ROUTE_ONLY_EPS = {"logslog.Handle", "logslog.std.Print"} | TERM_EPS | {
    "log." + v for v in ("Print", "Printf", "Println", "Output", "Panic", "Panicf", "Panicln", "Fatal", "Fatalf", "Fatalln")}


def run_cells(ctx, consts, table, eps):
    # ---- 2./3. execute all cells (seeded order: the library keeps pooled buffers and process
    #            globals between records, the order must not matter) and validate
    rng = random.Random(ctx.seed * 104729 + 14)
    rng.shuffle(table)
    cells = [dict(c, id=i) for i, c in enumerate(table)]
    rows, details, v = execute(ctx, consts, cells, "all")

    ctx.traces += 1
    ctx.evaluations += len(cells)
    # non-trivial = distinct cells in which the attributed frame is not simply the innermost user
    # frame of a depth-0 chain: something had to be skipped exactly (skip > 0) or wrappers exist
    ctx.nontrivial += len(set(cell_key(c) for c in cells if c["skip"] > 0 or c["depth"] > 0 or c["site"] != "go" or c["ua"] != "none"
                              or c["route"] != "direct"))
    route_cells = [c for c in cells if c["route"] != "direct" or c["ep"] in ROUTE_ONLY_EPS]
    ctx.extra["front_end_cells"] = dict(cells=len(route_cells), entry_points=sorted(set(c["ep"] for c in route_cells)),
                                        routes=sorted(set(c["route"] for c in route_cells)),
                                        own_process=sum(1 for c in route_cells if c["ep"] in TERM_EPS),
                                        full_table_entry_points_added=["stdlog.Panic", "stdlog.Panicf", "stdlog.Panicln"])
    ua_cells = [(c, d) for c, d in zip(cells, details) if c["ua"] != "none"]
    ua_seen = sum(1 for c, d in ua_cells if d.get("uaseen"))
    ctx.extra["user_attr_cells"] = dict(cells=len(ua_cells), attribute_found_in_the_record=ua_seen,
                                        entry_points=sorted(set(c["ep"] for c, _ in ua_cells)),
                                        placements=sorted(set(c["ua"] for c, _ in ua_cells)),
                                        colliding=sum(1 for c, d in ua_cells if d.get("uaseen") and (
                                            c["fmt"] == "json" or (c["fmt"] == "logfmt" and c["ua"].endswith("group")))))
    if ua_cells and ua_seen * 2 < len(ua_cells):
        raise Undecided("the attribute keyed `caller` shows up in %d of %d records that should carry it" % (ua_seen, len(ua_cells)))
    line_cells = [c for c in cells if c["site"] != "go"]
    ctx.extra["line_site_cells"] = dict(cells=len(line_cells), chains=len(set(c["site"] for c in line_cells)),
                                        file_name_classes=sorted(set(c["site"].split("/")[0] for c in line_cells)),
                                        entry_points=sorted(set(c["ep"] for c in line_cells)),
                                        refused_by_the_toolchain=["invalid UTF-8", "NUL", "U+FEFF"])
    inl_cells = [d for d, c in zip(details, cells) if c["inl"] and c["depth"] > 0]
    fully = sum(1 for d in inl_cells if all(f["inlined"] for f in d["user"][:-2]))
    ctx.extra.update(cells=len(cells), entry_points=len(eps[0]), accepted=v["ok"], divergent=v["nbad"],
                     deviation_cells=v["devn"],
                     inlinable_chain_cells=len(inl_cells), inlinable_chain_cells_really_inlined=fully)
    if inl_cells and fully == 0:
        raise Undecided("no inlinable wrapper chain was actually inlined by the compiler")
    for c, d in list(zip(cells, details))[:3]:
        ctx.sample(dict(cell={k: c[k] for k in CELL_FIELDS}, want=c["want"], got=d["got"], caller=d.get("caller")))
    ctx.assumptions += [
        "the user frames of a cell are identified in the real stack (captured inside the destination's Write) by function name (c14s*/c14w*/c14drive)",
        "the reported file is compared by base name (path hardening is C18), the function in the coloured line without import path; "
        "for the chains behind //line directives (file names with backslashes, quotes, blanks, TAB/CR/LF/other control characters, "
        "ESC, DEL, non-ASCII, U+2028, astral code points, markup, '=' - all the Go toolchain accepts; it refuses invalid UTF-8, NUL "
        "and U+FEFF) the decoded file must be EXACTLY slog.Safety(file the runtime reports for the frame), line and function exact; "
        "in the coloured line, which has no quoting, the frames of the real stack are the candidates (file:line func at the end of the line)",
        "cells with a user attribute keyed `caller`: the decoders take the LAST member of a name (encoding/json; the logfmt tokenizer: later keys "
        "win); the log/slog handler and the std-log bridge do not print the attributes the LOGGER carries (Entry.WriteThru), those cells are "
        "executed and judged but the attribute is not in the record (coverage.user_attr_cells.attribute_found_in_the_record)",
        "std-log bridge cells use logger level Info / bridge severity Info so that a record is emitted whichever way the admission comparison is written (C15)",
        "Verbose/VerboseContext (build tag verbose) are out of scope"]


# ---------------------------------------------------------------------------------------------
# generator of harness/fam_caller_sites.go (static, inlinable wrapper chains per entry point)

VERBS = ["Panic", "Fatal", "Error", "Warn", "Info", "Debug", "Trace", "Print", "OK", "Success", "Fail", "Println"]
CTXS = ["PanicContext", "FatalContext", "ErrorContext", "WarnContext", "InfoContext", "DebugContext", "TraceContext",
        "PrintContext", "PrintlnContext", "OKContext", "SuccessContext", "FailContext"]
INL_DEPTH = 4


def site_table():
    t = []
    for v in VERBS:
        t.append((v, v, 'c14L.%s(c14Args...)' % v if v == "Println" else 'c14L.%s("m")' % v))
    for v in CTXS:
        t.append((v, v, 'c14L.%s(c14Ctx, "m")' % v))
    t.append(("LogAttrs", "LogAttrs", 'c14L.LogAttrs(c14Ctx, slog.InfoLevel, "m")'))
    t.append(("Logit", "Logit", 'c14L.Logit(c14Ctx, slog.InfoLevel, "m")'))
    t.append(("Log", "Log", 'c14L.Log(c14Ctx, logslog.LevelInfo, "m")'))
    for v in ["Infof", "Warnf", "Errorf"]:
        t.append((v, v, '_ = c14L.%s("m")' % v))
    for v in VERBS:
        t.append(("slog." + v, "Pkg_" + v, 'slog.Println(c14Args...)' if v == "Println" else 'slog.%s("m")' % v))
    for v in CTXS:
        t.append(("slog." + v, "Pkg_" + v, 'slog.%s(c14Ctx, "m")' % v))
    for v in ["Debug", "Info", "Warn", "Error"]:
        t.append(("logslog." + v, "Sl_" + v, 'c14SL.%s("m")' % v))
    for v in ["DebugContext", "InfoContext", "WarnContext", "ErrorContext"]:
        t.append(("logslog." + v, "Sl_" + v, 'c14SL.%s(c14Ctx, "m")' % v))
    t.append(("logslog.Log", "Sl_Log", 'c14SL.Log(c14Ctx, logslog.LevelInfo, "m")'))
    t.append(("logslog.LogAttrs", "Sl_LogAttrs", 'c14SL.LogAttrs(c14Ctx, logslog.LevelInfo, "m")'))
    t.append(("stdlog.Print", "Std_Print", 'c14Std.Print(c14Args...)'))
    t.append(("stdlog.Printf", "Std_Printf", 'c14Std.Printf("m")'))
    t.append(("stdlog.Println", "Std_Println", 'c14Std.Println(c14Args...)'))
    t.append(("stdlog.Output", "Std_Output", '_ = c14Std.Output(1, "m")'))
    # the rest of the method set of the bridge's *log.Logger, and package log itself writing into the bridge
    # (log.SetOutput(bridge.Writer())): Panic* panic after the record was written (c14drive recovers), Fatal* end the
    # process (each such cell runs in a process of its own)
    for v in STD_REST:
        t.append(("stdlog." + v, "Std_" + v, std_call("c14Std", v)))
    for v in ["Print", "Printf", "Println", "Output"] + STD_REST:
        t.append(("log." + v, "Log_" + v, std_call("log", v)))
    # log/slog front ends other than a verb of a log/slog.Logger: a Record the program built itself (own PC) handed to
    # Handler.Handle (log/slog's wrapping pattern), and log/slog.NewLogLogger(handler, level).Print
    t.append(("logslog.Handle", "Sl_Handle", 'c14HelperSL("m")'))
    t.append(("logslog.std.Print", "SlStd_Print", 'c14Std.Print(c14Args...)'))
    return t


STD_REST = ["Panic", "Panicf", "Panicln", "Fatal", "Fatalf", "Fatalln"]


def std_call(recv, v):
    if v == "Output":
        return '_ = %s.Output(1, "m")' % recv
    return '%s.%s("m")' % (recv, v) if v.endswith("f") else '%s.%s(c14Args...)' % (recv, v)


def site_flags(name):
    v = name.split(".")[-1]
    if name.startswith(("stdlog.", "log.")) and v.startswith("Panic"):
        return ", pan: true"
    if name.startswith(("stdlog.", "log.")) and v.startswith("Fatal"):
        return ", term: true"
    return ""


def gen_sites(path=None):
    out = ["// Code generated by `python3 checks/c14.py gen-sites`; DO NOT EDIT.",
           "",
           "package main",
           "",
           "// C14: one issuing function (\"site\") per public entry point, once inlinable with a static chain",
           "// of inlinable wrappers (c14sI_X <- c14w1I_X <- .. <- c14w%dI_X) and once //go:noinline (c14sN_X," % INL_DEPTH,
           "// wrapped by the shared //go:noinline chain c14wN1.. of fam_caller.go).  Each inlinable function is",
           "// one statement so that the compiler's inlining budget admits the whole chain; the noinline ones",
           "// have a second statement on the next line.  c14sA_X (entry points of UA_CALLS): a //go:noinline site whose",
           "// call passes attributes of its own (c14KV / c14SLKV / c14SLAttrs: an attribute keyed `caller`).",
           "",
           "import (",
           '\t"log"',
           '\tlogslog "log/slog"',
           "",
           '\t"github.com/hedzr/logg/slog"',
           ")",
           "",
           "const c14InlDepth = %d" % INL_DEPTH,
           ""]
    reg = ["var c14Sites = map[string]*c14site{"]
    for name, ident, call in site_table():
        out.append("func c14sI_%s() { %s }" % (ident, call))
        prev = "c14sI_%s" % ident
        chain = [prev]
        for k in range(1, INL_DEPTH + 1):
            fn = "c14w%dI_%s" % (k, ident)
            out.append("func %s() { %s() }" % (fn, prev))
            prev = fn
            chain.append(fn)
        out.append("")
        out.append("//go:noinline")
        out.append("func c14sN_%s() {" % ident)
        out.append("\t" + call)
        out.append("\tc14After++ // a following statement on its own line: a return address taken as the call's line shows")
        out.append("}")
        out.append("")
        at = ""
        if name in UA_CALLS:
            # third issuing function: the call carries attributes of its own (cells with ua = rec-*)
            out.append("//go:noinline")
            out.append("func c14sA_%s() {" % ident)
            out.append("\t" + UA_CALLS[name])
            out.append("\tc14After++")
            out.append("}")
            out.append("")
            at = ", at: c14sA_%s" % ident
        reg.append('\t"%s": {inl: [c14InlDepth + 1]func(){%s}, no: c14sN_%s%s%s},' % (name, ", ".join(chain), ident, at, site_flags(name)))
    reg.append("}")
    path = path or os.path.join(os.path.dirname(HERE), "harness", "fam_caller_sites.go")
    with open(path, "w") as fh:
        fh.write("\n".join(out + reg) + "\n")
    import subprocess
    subprocess.run(["gofmt", "-w", path], check=False)
    print("wrote", path)


def line_site_ids():
    """(id, class, file name) of every //line chain: the table LINE_SITES of checks/encoderlib.py."""
    sys.path.insert(0, HERE)
    from encoderlib import LINE_SITES
    n, out = {}, []
    for cls, name, _ in LINE_SITES:
        out.append(("%s/%d" % (cls, n.get(cls, 0)), cls, name))
        n[cls] = n.get(cls, 0) + 1
    return out


def gen_line_sites(path=None):
    """harness/fam_caller_lines.go: for every file name of LINE_SITES a //go:noinline wrapper chain whose functions sit
    behind //line directives naming that file, with one issuing function per entry point of LINE_EPS.  NOT gofmt'ed."""
    from encoderlib import go_quote, line_directive
    fname = "fam_caller_lines.go"
    path = path or os.path.join(os.path.dirname(HERE), "harness", fname)
    calls = {name: (ident, call) for name, ident, call in site_table()}
    L = []

    def emit(text):
        L.extend(text.split("\n"))

    emit("// Code generated by `python3 checks/c14.py gen-sites`; DO NOT EDIT, DO NOT gofmt (the //line directives")
    emit("// carry raw TAB / CR / ESC / control bytes on purpose).")
    emit("")
    emit("package main")
    emit("")
    emit("// C14: wrapper chains whose frames sit behind //line directives - the file names of generated code:")
    emit("// Windows paths, quotes, blanks, control characters, non-ASCII (table LINE_SITES of checks/encoderlib.py).")
    emit("// c14sL<k>_<entry point> issues the record, c14wL<k>_<j> is the j-th //go:noinline wrapper of chain k.")
    emit("")
    emit("import (")
    emit('\tlogslog "log/slog"')
    emit("")
    emit('\t"github.com/hedzr/logg/slog"')
    emit(")")
    emit("")
    emit("var _ = logslog.LevelInfo")
    emit("var _ slog.Level")
    emit("")

    def fn(header, name, line, stmt):
        emit("//go:noinline")
        emit(header + " {")
        d, block = line_directive(name, line)
        emit(("\t" + d + stmt) if block else (d + "\t" + stmt))
        emit("\tc14After++")
        emit("//line %s:%d" % (fname, len(L) + 2))
        emit("}")
        emit("")

    reg = []
    for k, (sid, cls, name) in enumerate(line_site_ids()):
        sites = []
        for e, ep in enumerate(LINE_EPS):
            ident, call = calls[ep]
            fn("func c14sL%d_%s()" % (k, ident), name, 100 + 10 * e, call)
            sites.append("%s: c14sL%d_%s" % (go_quote(ep), k, ident))
        chain = ["nil"]
        for j in range(1, LINE_DEPTH + 1):
            fn("func c14wL%d_%d()" % (k, j), name, 1000 + 10 * j, "c14Next()" if j == 1 else "c14wL%d_%d()" % (k, j - 1))
            chain.append("c14wL%d_%d" % (k, j))
        reg.append("\t{id: %s, cls: %s, file: %s, k: %d, chain: [c14LineDepth + 1]func(){%s},\n\t\tsites: map[string]func(){%s}},"
                   % (go_quote(sid), go_quote(cls), go_quote(name), k, ", ".join(chain), ", ".join(sites)))
    emit("const c14LineDepth = %d" % LINE_DEPTH)
    emit("")
    emit("var c14LineSites = []*c14LineSite{")
    for r in reg:
        emit(r)
    emit("}")
    with open(path, "wb") as fh:
        fh.write(("\n".join(L) + "\n").encode("utf-8"))
    print("wrote", path)


if __name__ == "__main__":
    if len(sys.argv) > 1 and sys.argv[1] == "gen-sites":
        # (harness/ is compiled by every check: with a directory argument the two files are written there instead, to be
        # moved in once they build together with the rest of the package)
        d = sys.argv[2] if len(sys.argv) > 2 else None
        gen_sites(os.path.join(d, "fam_caller_sites.go") if d else None)
        gen_line_sites(os.path.join(d, "fam_caller_lines.go") if d else None)
    if len(sys.argv) > 2 and sys.argv[1] == "gen-line-sites":
        gen_line_sites(sys.argv[2])
