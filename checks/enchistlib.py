"""History component of the encoder family (C04 JSON, C05 logfmt, C06 colored console).

The per-record component (encoderlib.py) decides the three properties for single records.  This
component decides them over HISTORIES - spec/EncoderHist.tla: the encoding of a record must be a
function of the record and of the configuration the public API reports, not of what was formatted
before, of garbage collections, of the order of the configuration calls or of the record's size.

  1. The machine of EncoderHist.tla is explored exhaustively by TLC for several small constant
     sets ("groups": cfg = every order of the mode setters / New options / child creation;
     seq = every pair/triple of consecutive records and collections over loggers of the three
     formats; lvl = RegisterLevel / SetLevelOutputWidth between records; dbg = the process-wide
     debug/trace switches; big = size classes around powers of two; clr = SetLevelColors of a
     built-in and a custom severity with every combination {no fg, fg} x {none, bg, attribute}
     between records of 1..4 lines; nest = DESTINATIONS THAT LOG: every wiring of three loggers of the three
     formats to single passive / logging destinations, two destinations of which the first or the second logs,
     through another logger or the very logger the destination serves, chains of depth 2 and 3 - every payload
     handed to a destination must be the complete record of ITS logger and class), invariants and the
     history-independence action property are checked, the labelled graph is dumped;
     EncoderHistMech.tla shows which hidden-state disciplines leak (witnesses).
  2. An edge cover of each graph plus seeded random deeper histories over the union vocabulary
     ("mix") are executed by the worker (harness/fam_enchist.go), ONE process per group and
     process kind (go-test / production), public API only.
  3. TLC validates every recording against EncoderHistTrace.tla (a monitor that adopts what the
     getters report and judges each record with Encoder!Diag against ExpRecOf(model state, record)).
  4. A rejected record of the property's own format is shrunk (sub-histories re-executed in fresh
     processes and re-judged by TLC) and reported through ctx.finding with the key
         hist:<format>:<violated clauses>:<classes of the events of the minimal history>
"""
import concurrent.futures
import json
import os
import random
import time

from vlib import Undecided, edge_cover, parse_action, read_ndjson
from corelib import parse_dot_edges
from tlagen import gen_mc

FMTS = ["json", "logfmt", "color"]


def node(k, kind="int", v=1, vc="plain", sub=None, size=0):
    """One attribute of the abstract record of Encoder.tla (size: the text has a plain run of that many bytes)."""
    n = dict(k=k, kc="plain", kind=kind, vc=vc, v=v, sub=sub or [])
    if size:
        n["size"] = size
    return n


# ------------------------------------------------------------------ vocabulary

def call(op, arg):
    return dict(op=op, arg=arg)


J, JT, JF = call("json", "def"), call("json", "on"), call("json", "off")
C, CT, CF = call("color", "def"), call("color", "on"), call("color", "off")


def call_seqs(quick):
    if quick:
        singles = [[J], [JT], [JF], [C], [CF]]
        pairs = [[a, b] for a in (J, JF) for b in (CT, CF)] + [[b, a] for a in (J, JF) for b in (CT, CF)]
        same = [[J, JF], [CF, C]]
        triples = [[J, CT, JF], [CF, J, CT]]
    else:
        js, cs = (J, JT, JF), (C, CT, CF)
        singles = [[x] for x in js + cs]
        pairs = [[a, b] for a in js for b in cs] + [[b, a] for a in js for b in cs]
        same = [[a, b] for a in js for b in js if a is not b] + [[a, b] for a in cs for b in cs if a is not b]
        triples = [[a, b, c] for a in (J, JF) for b in (CT, CF) for c in (J, JF)] + \
                  [[b, a, c] for a in (J, JF) for b in (CT, CF) for c in (CT, CF)]
    return singles, pairs, same, triples


def cfg_forms(nslots, quick):
    singles, pairs, same, triples = call_seqs(quick)
    forms = [dict(how="set", p=0, calls=cs) for cs in singles + pairs + same + triples]
    forms += [dict(how="new", p=0, calls=cs) for cs in [[]] + singles + pairs]
    forms += [dict(how="newset", p=0, calls=cs) for cs in (pairs[::2] if quick else pairs + same)]
    for p in range(1, nslots + 1):
        some = pairs[::2] if quick else pairs
        forms += [dict(how="child", p=p, calls=cs) for cs in [[]] + singles + some]
        forms += [dict(how="with", p=p, calls=cs) for cs in [[]] + singles + some]
        forms += [dict(how="childset", p=p, calls=cs) for cs in (some[:2] if quick else some)]
    return forms


def rc(sev, msg, args, via="method", caller=False, cls="", sizes=None, cfile="plain"):
    """cfile (with caller): the issuing statement sits behind a //line directive whose file name carries a character of
    that class (harness/fam_encoder_sites.go; "plain": the worker's ordinary source file)."""
    return dict(sev=sev, msg=list(msg), sizes=list(sizes or [0] * len(msg)), args=args, caller=caller, cfile=cfile, cls=cls, via=via)


def passive():
    return dict(log=False, l=0, r=0)


def logs(l, r):
    """A destination that, inside Write and before it reads its argument, logs a record of class r through slot l."""
    return dict(log=True, l=l, r=r)


def dest_forms(g):
    """DestForms of the specification: form 1 is the single passive destination, g["destforms"] follow."""
    return [[passive()]] + [list(f) for f in g.get("destforms", [])]


M1 = ["plain"]
M3 = ["plain", "LF", "plain", "space", "plain", "LF", "plain"]
MT = ["plain", "LF"]


def rot(fmt, i):
    return FMTS[(FMTS.index(fmt) + i) % 3]


def big_classes(quick):
    out = []
    totals = [65535, 65536, 65537, 4096, 131072] if quick else \
        [1023, 1024, 1025, 4095, 4096, 4097, 8192, 16383, 16384, 32767, 32768, 32769, 65535, 65536, 65537,
         131071, 131072, 131073, 262144, 262145, 524288]
    for t in totals:
        # the part after the first line break has exactly t bytes: one huge and one small line
        out.append(rc(4, ["plain", "LF", "plain", "LF", "plain"], [node(1, "int", 1)], cls="big", sizes=[12, 0, t - 21, 0, 20]))
    for t in (totals if not quick else [65536, 65537]):
        n = min(48, max(2, t // 1024))
        per = t // n
        sizes, msg = [9, 0], ["plain", "LF"]
        left = t
        for i in range(n):
            ln = per - 1 if i < n - 1 else left
            msg += ["plain"] + (["LF"] if i < n - 1 else [])
            sizes += [ln] + ([0] if i < n - 1 else [])
            left -= ln + 1
        out.append(rc(3, msg, [node(1, "string", 1)], via="ctx", cls="big", sizes=sizes))
    for t in (totals if not quick else [65536]):
        out.append(rc(4, ["plain"], [], cls="big", sizes=[t]))                                  # a huge single line
        out.append(rc(2, ["plain", "LF", "plain"], [node(1, "error", 1)], cls="big", sizes=[7, 0, t]))   # the rest is ONE huge line
    for t in (totals if not quick else [4096, 65536]):
        out.append(rc(4, ["plain", "LF", "plain"], [node(1, "string", 1, size=t), node(2, "int", 2)], cls="big"))
    # a special character BEHIND a long plain run (message and value): escaping must not stop at a size
    for t in ([1024, 4096, 65536] if quick else totals):
        for cls in (("quote", "LF") if quick else ("quote", "LF", "bslash", "C0", "invalid")):
            out.append(rc(4, ["plain", cls, "plain"], [node(1, "string", 1, vc=cls, size=t)], cls="big", sizes=[t, 0, 5]))
    return out


def groups(fmt, quick):
    """The constant sets TLC explores; `fmt` is the format of the property (the focus logger)."""
    f0, f1, f2 = fmt, rot(fmt, 1), rot(fmt, 2)
    col_other = "color" if fmt != "color" else "json"
    own3 = [node(40, "int", 40), node(41, "string", 41), node(42, "bool", 42)]
    own1 = [node(45, "string", 45)]
    gs = []
    base = dict(customs=[], regforms=[], widths=[], minwidths=[], switchkinds=[], switchvias=[], gcs=[], forms=[], hist=1,
                kinds="split", colsevs=[], colfgs=[], colbgs=[], destforms=[])
    # --- cfg: how a logger got into its mode
    gs.append(dict(base, name="cfg", hist=0 if quick else 1,
                   slots=[dict(mode="color", named=False, own=[]), dict(mode="color", named=True, own=own1)],
                   forms=cfg_forms(2, quick),
                   classes=[rc(4, M1, [node(1, "int", 1)], cls="s"),
                            rc(3, M3, [node(1, "error", 1)], via="ctx", caller=True, cls="m"),
                            # a group whose members carry reserved field names (ordinary attributes: req.time, req.msg)
                            rc(9, MT, [node(1, "string", 1), node(2, "group", 2, sub=[node(3, "int", 3), node(98, "string", 4),
                                                                                       node(99, "time", 5)])],
                               via="logattrs", cls="t"),
                            # issued from a statement behind `//line C:\\work\\...` (a backslash in caller.file)
                            rc(4, M1, [node(1, "string", 1)], caller=True, cfile="bslash", cls="w")]))
    # --- seq: consecutive records / collections over loggers of all three formats
    seq_classes = [rc(4, M1, [], cls="bare"),
                   rc(3, M1, [node(1, "int", 1)], cls="a1"),
                   rc(2, M3, [node(1, "string", 1), node(2, "error", 2)], via="ctx", cls="multi"),
                   rc(5, M1, [node(1, "int", 1), node(2, "group", 2, sub=[node(3, "string", 3)]), node(4, "bool", 4)],
                      via="logattrs", caller=True, cls="grp")]
    # the same key twice (last one wins - one member per key) and a record bigger than a fresh formatter's buffer
    seq_classes += [rc(4, M1, [node(1, "int", 1), node(2, "string", 2), node(1, "int", 3)], cls="dup"),
                    rc(3, ["plain", "space", "plain"], [node(1, "string", 1, size=900), node(2, "string", 2, vc="quote", size=700)],
                       via="ctx", cls="mid", sizes=[800, 0, 700])]
    # the caller member with file names that need escaping, between records of the other shapes
    seq_classes += [rc(3, M1, [node(1, "int", 1)], via="ctx", caller=True, cfile="quote", cls="cq")]
    if not quick:
        seq_classes += [rc(4, M3, [node(1, "error", 1)], caller=True, cfile="TAB", cls="ct")]
    if not quick:
        seq_classes += [rc(8, MT, [], cls="trail"), rc(9, M1, [node(1, "int", 1), node(2, "int", 2)], via="ctx", cls="a2")]
    gs.append(dict(base, name="seq", hist=2, gcs=[1] if quick else [1, 2],
                   slots=[dict(mode=f0, named=False, own=own3), dict(mode=f1, named=True, own=[]),
                          dict(mode=f2, named=False, own=own1)],
                   classes=seq_classes))
    # --- lvl: registered / unregistered severities, output width
    gs.append(dict(base, name="lvl", hist=1, customs=[101, 102],
                   regforms=["title", "tags"] if quick else ["title", "titlecolor", "tags", "tagsbg"],
                   widths=[2, 3, 5] if quick else [1, 2, 3, 4, 5], minwidths=[] if quick else [16, 36, 80],
                   slots=[dict(mode=f0, named=False, own=[]), dict(mode=col_other, named=True, own=[])],
                   classes=[rc(4, M1, [], cls="b"),
                            rc(101, M1, [node(1, "int", 1)], via="logattrs", cls="c1"),
                            rc(102, M3, [node(1, "string", 1)], via="ctx", cls="c2")]))
    # --- dbg: process-wide debug / trace switches
    gs.append(dict(base, name="dbg", hist=1, kinds="both", switchkinds=["debug", "trace"],
                   switchvias=["set", "child", "new", "pkg", "ext"],
                   slots=[dict(mode=f0, named=False, own=[]), dict(mode="logfmt" if fmt != "logfmt" else "color", named=True, own=[])],
                   classes=[rc(2, M1, [node(1, "error", 1)], cls="err"),
                            rc(4, M1, [node(1, "int", 1)], cls="plain"),
                            rc(3, M3, [node(1, "string", 1), node(2, "error", 2, vc="LF")], via="ctx", cls="errlf"),
                            rc(5, M3, [node(1, "int", 1)], cls="multi")]))
    # --- big: size classes
    gs.append(dict(base, name="big", hist=1,
                   slots=[dict(mode=f0, named=False, own=[]), dict(mode=col_other, named=True, own=own1)],
                   classes=big_classes(quick) + [rc(4, M1, [node(1, "int", 1)], cls="small")]))
    # --- clr: the process-wide level colour table (SetLevelColors) between records of 1..4 lines
    clr_slots = [dict(mode="color", named=False, own=[]), dict(mode="json", named=True, own=own1)] if fmt == "color" else \
                [dict(mode=f0, named=False, own=[]), dict(mode="color", named=True, own=own1)]
    gs.append(dict(base, name="clr", hist=0 if quick else 1, customs=[101], regforms=["title", "tagsbg"], colsevs=[4, 101],
                   colfgs=["none", "fg"], colbgs=["none", "bg", "attr"], slots=clr_slots,
                   classes=[rc(4, M1, [], cls="i1"),
                            rc(4, ["plain", "LF", "plain"], [node(1, "int", 1)], via="ctx", cls="i2"),
                            rc(4, M3, [node(1, "string", 1)], cls="i3"),
                            rc(4, ["plain", "LF", "LF", "plain", "LF", "plain"], [node(1, "error", 1)], via="ctx", cls="i4"),
                            rc(101, M1, [node(1, "int", 1)], via="logattrs", cls="c1"),
                            rc(101, M3 + ["LF"], [node(1, "string", 1), node(2, "group", 2, sub=[node(3, "int", 3)])],
                               via="logattrs", caller=True, cls="c3")]))
    # --- nest: destinations that log from inside Write before they read their argument
    nest_classes = [rc(4, M1, [node(1, "int", 1)], cls="o1"),
                    # Warn goes to the error device (SetErrorWriter / AddErrorWriter)
                    rc(3, M3, [node(1, "string", 1), node(2, "error", 2)], via="ctx", cls="o2"),
                    rc(5, M1, [node(1, "int", 1), node(2, "group", 2, sub=[node(3, "string", 3)]), node(4, "bool", 4)],
                       via="logattrs", caller=True, cls="o3"),
                    # what an auditing / rotating writer reports: shorter ...
                    rc(4, ["plain", "space", "plain"], [node(5, "string", 1), node(6, "int", 2)], cls="n1"),
                    # ... and longer than the record it was handed
                    rc(2, M1, [node(5, "string", 1, size=300), node(6, "string", 2, vc="quote")], via="ctx", cls="n2")]
    more = [] if quick else [[logs(2, 4), logs(3, 5)],      # 7: two destinations, both log
                             [logs(1, 5), passive()]]       # 8: the first logs a long record through slot 1
    gs.append(dict(base, name="nest", hist=0,
                   slots=[dict(mode=f0, named=False, own=own1), dict(mode=f1, named=True, own=[]),
                          dict(mode=f2, named=False, own=[])],
                   destforms=[[logs(2, 4)],                 # 2: one destination, reports through the logger of slot 2
                              [logs(3, 5)],                 # 3: ... through slot 3, a record longer than most outer ones
                              [logs(1, 4)],                 # 4: ... through slot 1 (wired to slot 1: the logger it serves)
                              [logs(2, 4), passive()],      # 5: two destinations, the first logs
                              [passive(), logs(3, 4)]] + more,   # 6: two destinations, the second logs
                   classes=nest_classes))
    return gs


def mix_group(fmt, quick):
    """Union vocabulary for the random deeper histories (validated, not explored exhaustively)."""
    gs = {g["name"]: g for g in groups(fmt, quick)}
    classes = []
    for n in ("cfg", "seq", "lvl", "dbg", "clr"):
        classes += gs[n]["classes"]
    nest_at = len(classes)                  # the nest classes keep their order: the destination forms name them by index
    classes += gs["nest"]["classes"]
    bigs = [c for c in gs["big"]["classes"] if c["cls"] == "big"]
    classes += bigs[:3] + bigs[-2:]
    for i, cf in enumerate(["bslash", "space", "C0", "nonascii", "lsep", "CR", "DEL", "astral", "equals", "markup"]):
        if fmt == "color" and cf in ("C0", "CR", "DEL"):
            continue                # colored layout is claimed for file names without control characters
        classes.append(rc((4, 3, 2, 9)[i % 4], (M1, M3, MT)[i % 3], [node(1, ("int", "string", "error")[i % 3], 1)],
                          via=("method", "ctx", "logattrs")[i % 3], caller=True, cfile=cf, cls="c-" + cf))
    own3 = [node(40, "int", 40), node(41, "string", 41), node(42, "bool", 42)]
    destforms = [[dict(d, r=d["r"] + nest_at) if d["log"] else d for d in f] for f in gs["nest"]["destforms"]]
    return dict(name="mix", hist=0, kinds="split", customs=[101, 102, 103], regforms=["title", "titlecolor", "tags", "tagsbg"],
                destforms=destforms,
                widths=[1, 2, 3, 4, 5], minwidths=[16, 36, 80], switchkinds=["debug", "trace"],
                switchvias=["set", "child", "new", "pkg", "ext"], gcs=[1, 2], forms=cfg_forms(3, quick),
                colsevs=[2, 3, 4, 5, 9, 101, 102, 103], colfgs=["none", "fg"], colbgs=["none", "bg", "attr"],
                slots=[dict(mode=fmt, named=False, own=own3), dict(mode=rot(fmt, 1), named=True, own=[]),
                       dict(mode=rot(fmt, 2), named=False, own=[node(45, "error", 45)])],
                classes=classes)


# ------------------------------------------------------------------ TLC constants

def tla_consts(g):
    ns, nf, nr = len(g["slots"]), len(g["forms"]), len(g["classes"])
    return dict(
        KeyIds={0},
        Loggers=set(range(1, ns + 1)),
        InitMode=[s["mode"] for s in g["slots"]],
        InitNamed=[bool(s["named"]) for s in g["slots"]],
        Own=[s["own"] for s in g["slots"]],
        CfgIds=set(range(1, nf + 1)),
        CfgForms=[dict(how=f["how"], p=f["p"], calls=f["calls"]) for f in g["forms"]],
        RcIds=set(range(1, nr + 1)),
        RecClasses=[dict(sev=c["sev"], msg=c["msg"], args=c["args"], caller=c["caller"], cfile=c.get("cfile", "plain"), cls=c["cls"])
                    for c in g["classes"]],
        Customs=set(g["customs"]), RegForms=set(g["regforms"]), Widths=set(g["widths"]), MinWidths=set(g["minwidths"]),
        SwitchKinds=set(g["switchkinds"]), SwitchVias=set(g["switchvias"]), GCs=set(g["gcs"]),
        ColSevs=set(g.get("colsevs", [])), ColFgs=set(g.get("colfgs", [])), ColBgs=set(g.get("colbgs", [])),
        DestForms=dest_forms(g), DestIds=set(range(1, len(dest_forms(g)) + 1)) if g.get("destforms") else set(),
        ProcKinds={True, False},
    )


PLAIN = dict(MaxNodes=0, MaxDepth=0)


def label_to_event(label, counter):
    name, a = parse_action(label)
    if name == "Configure":
        return dict(op="Configure", l=a[0], f=a[1])
    if name == "Emit":
        return dict(op="Emit", l=a[0], r=a[1])
    if name == "GC":
        return dict(op="GC", n=a[0])
    if name == "Register":
        return dict(op="Register", c=a[0], g=a[1])
    if name == "Switch":
        counter[0] += 1
        return dict(op="Switch", k=a[0], v=a[1], l=1 + counter[0] % 2)
    if name == "SwitchOff":
        return dict(op="SwitchOff")
    if name == "SetWidth":
        return dict(op="SetWidth", w=a[0])
    if name == "SetMinW":
        return dict(op="SetMinW", m=a[0])
    if name == "SetColors":
        return dict(op="SetColors", c=a[0], fg=a[1], bg=a[2])
    if name == "Wire":
        return dict(op="Wire", l=a[0], w=a[1])
    raise Undecided("unknown action label %r" % label)


def explore(ctx, g):
    """Exhaustive TLC run of one group with graph dump -> cover behaviours (lists of events)."""
    mc, cfg = gen_mc("MC_EncH_" + g["name"], "EncoderHist", tla_consts(g),
                     ["INIT HInit", "NEXT HNext", "ALIAS DumpAlias", "CHECK_DEADLOCK FALSE",
                      "INVARIANTS TypeOK OblLive OthersDoNotMatter SwitchesDoNotMatter ColoursOfOthersDoNotMatter "
                      "DestinationsDoNotMatter NestBounded",
                      "PROPERTIES EmitsAreSilent"],
                     plain=dict(PLAIN, HistDepth=g["hist"]))
    dot = os.path.join(ctx.scratch, "ench-graph-" + g["name"])
    nm = "MC_EncH_" + g["name"]
    t0 = time.time()
    r = ctx.tlc(nm, nm + ".cfg", files={nm + ".tla": mc, nm + ".cfg": cfg},
                extra=["-dump", "dot,actionlabels", dot], name="ench-mc-" + g["name"], workers=4, heap="3g", timeout=900)
    nodes, edges, inits = parse_dot_edges(dot + ".dot")
    # the graph has one component per process kind (isomorphic: no label mentions the kind); cover one
    reach, todo = {inits[0]}, [inits[0]]
    out = {}
    for e in edges:
        out.setdefault(e[0], []).append(e)
    while todo:
        u = todo.pop()
        for (_, _, d) in out.get(u, ()):
            if d not in reach:
                reach.add(d)
                todo.append(d)
    sub = [e for e in edges if e[0] in reach]
    counter = [0]
    evs = [label_to_event(lbl, counter) for (_, lbl, _) in sub]
    covers, unvisited = edge_cover({n: True for n in reach}, sub, [inits[0]], max_len=90)
    if unvisited:
        raise Undecided("history group %s: edge cover incomplete (%d edges unreachable)" % (g["name"], unvisited))
    behaviours = [[dict(evs[i]) for i in beh] for beh in covers]
    info = dict(states=r.distinct, generated=r.generated, graph_states=len(reach), graph_edges=len(sub), cover_behaviours=len(behaviours),
                cover_events=sum(len(b) for b in behaviours), explore_s=round(time.time() - t0, 1))
    return behaviours, info


def mech_group():
    own2 = [node(40, "int", 40), node(41, "string", 41)]
    return dict(name="mech", hist=0, kinds="both", customs=[101], regforms=["tags"], widths=[2, 3], minwidths=[],
                switchkinds=["debug"], switchvias=["ext"], gcs=[1], colsevs=[2], colfgs=["none"], colbgs=["attr"],
                forms=[dict(how="set", p=0, calls=[J]), dict(how="set", p=0, calls=[CT]), dict(how="new", p=0, calls=[CF])],
                slots=[dict(mode="json", named=False, own=own2), dict(mode="color", named=True, own=[]),
                       dict(mode="logfmt", named=False, own=[node(45, "string", 45)])],
                classes=[rc(4, M1, [], cls="bare"), rc(3, M1, [node(1, "int", 1)], cls="a1"),
                         rc(2, M3, [node(1, "error", 1)], cls="multi"), rc(101, M1, [node(1, "int", 1)], cls="c1")])


def mech_nest_group():
    """The vocabulary of the early-release witness: wiring and records only (the other disciplines need no destinations
    that log, so their group has none and keeps its size)."""
    return dict(name="mechnest", hist=0, kinds="both", customs=[], regforms=[], widths=[], minwidths=[], switchkinds=[], switchvias=[],
                gcs=[1], colsevs=[], colfgs=[], colbgs=[], forms=[],
                destforms=[[logs(2, 2)], [passive(), logs(1, 1)]],
                slots=[dict(mode="json", named=False, own=[node(40, "int", 40)]), dict(mode="logfmt", named=True, own=[])],
                classes=[rc(4, M1, [], cls="bare"), rc(3, M1, [node(1, "int", 1)], cls="a1")])


MECH_VARIANTS = ["faithful", "keep-restlines", "memo-tags", "alias-own", "debug-live", "fg-only-close", "early-release"]


def mech_check(ctx):
    """EncoderHistMech: the faithful disciplines do not leak, six sloppy ones do (vacuity of NoLeak)."""
    res = {}
    runs = [(v, mech_group()) for v in MECH_VARIANTS if v != "early-release"]
    runs += [("faithful", mech_nest_group()), ("early-release", mech_nest_group())]

    def one(item):
        variant, g = item
        nm = "MC_EncHM_" + variant.replace("-", "_") + ("_nest" if g["name"] == "mechnest" else "")
        mc, cfg = gen_mc(nm, "EncoderHistMech", dict(tla_consts(g), Variant=variant),
                         ["INIT MInit", "NEXT MNext", "CHECK_DEADLOCK FALSE", "INVARIANTS NoLeak"],
                         plain=dict(PLAIN, HistDepth=0))
        r = ctx.tlc(nm, nm + ".cfg", files={nm + ".tla": mc, nm + ".cfg": cfg}, name="ench-mech-" + variant + "-" + g["name"], workers=2,
                    heap="2g", allow_fail=True, timeout=600)
        return variant, g["name"], r

    counts = [0, 0]
    with concurrent.futures.ThreadPoolExecutor(max_workers=8) as ex:
        for variant, gname, r in ex.map(one, runs):
            violated = "NoLeak" in r.invariant_violated
            if variant == "faithful":
                if not r.ok:
                    raise Undecided("EncoderHistMech (faithful, %s) failed:\n%s" % (gname, r.out[-3000:]))
                counts[0] += r.distinct
                counts[1] += r.generated
                if gname == "mechnest":
                    res["faithful (destinations that log)"] = "holds"
                    continue
            elif not violated:
                raise Undecided("EncoderHistMech witness %s: NoLeak was expected to be violated\n%s" % (variant, r.out[-2000:]))
            res[variant] = "holds" if not violated else "violated (as expected)"
    res["_counts"] = tuple(counts)
    return res


# ------------------------------------------------------------------ behaviours

def epilogue(g, beh, salt):
    """Every live logger logs once more at the end of a behaviour (lingering corruption shows up)."""
    small = [i + 1 for i, c in enumerate(g["classes"]) if c["cls"] != "big"] or [1]
    return beh + [dict(op="Emit", l=s + 1, r=small[(salt + s) % len(small)]) for s in range(len(g["slots"]))]


def random_behaviours(g, rng, count, depth):
    ns, nf, nr = len(g["slots"]), len(g["forms"]), len(g["classes"])
    small = [i + 1 for i, c in enumerate(g["classes"]) if c["cls"] != "big"]
    big = [i + 1 for i, c in enumerate(g["classes"]) if c["cls"] == "big"]
    res = []
    for _ in range(count):
        beh, reg = [], set()
        for _ in range(depth):
            x = rng.random()
            if x < 0.55 or not beh:
                r = rng.choice(big) if big and rng.random() < 0.04 else rng.choice(small)
                beh.append(dict(op="Emit", l=rng.randint(1, ns), r=r))
            elif x < 0.63 and g["gcs"]:
                beh.append(dict(op="GC", n=rng.choice(g["gcs"])))
            elif x < 0.68 and g.get("destforms"):
                beh.append(dict(op="Wire", l=rng.randint(1, ns), w=rng.randint(1, len(g["destforms"]) + 1)))
            elif x < 0.80 and nf:
                beh.append(dict(op="Configure", l=rng.randint(1, ns), f=rng.randint(1, nf)))
            elif x < 0.85 and g["customs"]:
                free = [c for c in g["customs"] if c not in reg]
                if free:
                    c = rng.choice(free)
                    reg.add(c)
                    beh.append(dict(op="Register", c=c, g=rng.choice(g["regforms"])))
            elif x < 0.90 and g["switchkinds"]:
                beh.append(dict(op="Switch", k=rng.choice(g["switchkinds"]), v=rng.choice(g["switchvias"]), l=rng.randint(1, ns)))
            elif x < 0.92 and g["switchkinds"]:
                beh.append(dict(op="SwitchOff"))
            elif x < 0.945 and g.get("colsevs"):
                c = rng.choice(g["colsevs"])
                if c < 100 or c in g["customs"]:
                    beh.append(dict(op="SetColors", c=c, fg=rng.choice(g["colfgs"]), bg=rng.choice(g["colbgs"])))
            elif x < 0.97 and g["widths"]:
                beh.append(dict(op="SetWidth", w=rng.choice(g["widths"])))
            elif g["minwidths"]:
                beh.append(dict(op="SetMinW", m=rng.choice(g["minwidths"])))
        res.append(beh)
    return res


def long_run(g, rng, n):
    """Nth-use effects: one behaviour with many records of a few shapes through the same loggers."""
    small = [i + 1 for i, c in enumerate(g["classes"]) if c["cls"] != "big"]
    pick = [rng.choice(small) for _ in range(3)]
    return [dict(op="Emit", l=1 + (i % len(g["slots"])) if i % 7 else 1, r=pick[i % 3]) for i in range(n)]


# ------------------------------------------------------------------ execution

def assign_salts(behaviours, start):
    """Every Emit gets a number of its own: it seeds the concretisation of the record."""
    n = start
    for beh in behaviours:
        for ev in beh:
            if ev["op"] == "Emit" and "s" not in ev:
                n += 1
                ev["s"] = n
    return n


def script_of(ctx, g, behaviours, base=0):
    return dict(seed=ctx.seed, base=base, slots=g["slots"], forms=g["forms"], classes=g["classes"], destforms=dest_forms(g),
                behaviours=behaviours)


def run_script(ctx, script, testing, name, timeout=1500):
    sp = os.path.join(ctx.scratch, name + "-script.json")
    tp = os.path.join(ctx.scratch, name + "-trace.ndjson")
    dp = os.path.join(ctx.scratch, name + "-details.ndjson")
    with open(sp, "w") as fh:
        json.dump(script, fh)
    ctx.run_worker(["enchist", sp, tp, dp], testing=testing, timeout=timeout)
    want = sum(len([e for e in b if e["op"] != "Init"]) + 1 for b in script["behaviours"])
    with open(tp) as fh:
        n = sum(1 for _ in fh)
    if n != want:
        raise Undecided("history worker wrote %d trace lines for %d events (%s)" % (n, want, name))
    return tp, dp


CHUNK = 120000


def validate(ctx, g, trace_paths, name):
    """TLC judges the concatenation of the given traces (in chunks that start at a Reset line, a few
    TLC processes at a time); returns (bad, skipped, notes) with line numbers of the concatenation."""
    lines = []
    for p in trace_paths:
        with open(p) as fh:
            lines += fh.readlines()
    chunks, cur, start = [], [], 0
    for i, ln in enumerate(lines):
        if cur and len(cur) >= CHUNK and '"op":"Reset"' in ln:
            chunks.append((start, cur))
            cur, start = [], i
        cur.append(ln)
    if cur:
        chunks.append((start, cur))
    consts = dict(tla_consts(g), TraceFile="trace.ndjson")

    def one(item):
        ci, (off, part) = item
        cname = "%s-%d" % (name, ci)
        cat = os.path.join(ctx.scratch, "ench-" + cname + "-part.ndjson")
        with open(cat, "w") as out:
            out.writelines(part)
        nm = "MCT_EncH_" + cname.replace("-", "_")
        mct, cfg = gen_mc(nm, "EncoderHistTrace", consts, ["SPECIFICATION TSpec", "INVARIANTS Done", "CHECK_DEADLOCK FALSE"],
                          plain=dict(PLAIN, HistDepth=0))
        r = ctx.tlc(nm, nm + ".cfg", files={nm + ".tla": mct, nm + ".cfg": cfg}, copy={cat: "trace.ndjson"}, workers=1,
                    name="ench-trace-" + cname, timeout=3000, heap="6g", allow_fail=True)
        if not r.ok:
            raise Undecided("history trace validation failed (%s):\n%s" % (cname, r.out[-5000:]))
        done = r.prints("done")
        if not done:
            raise Undecided("history trace validation did not reach the end of the log (%s):\n%s" % (cname, r.out[-3000:]))
        shape = r.prints("shape")
        if shape:
            raise Undecided("history trace validation: the deliveries of an Emit are not the ones the model lists (%s): %s"
                            % (cname, json.dumps(shape[0])[:600]))
        bad = r.prints("bad")
        if len(bad) != done[-1][0]:
            raise Undecided("history trace validation: %d @@bad lines but counter says %d" % (len(bad), done[-1][0]))
        for b in bad:
            b["line"] += off
        notes = r.prints("note")
        for n in notes:
            n["line"] += off
        return bad, done[-1][1], notes

    if len(chunks) == 1:
        results = [one((0, chunks[0]))]
    else:
        with concurrent.futures.ThreadPoolExecutor(max_workers=4) as ex:
            results = list(ex.map(one, enumerate(chunks)))
    bad = sorted([b for r in results for b in r[0]], key=lambda b: b["line"])
    return bad, sum(r[1] for r in results), [n for r in results for n in r[2]]


def getter_mode(jm, cm):
    return "json" if jm else "color" if cm else "logfmt"


def calls_str(calls):
    return ",".join(("J" if c["op"] == "json" else "C") + {"def": "", "on": "t", "off": "f"}[c["arg"]] for c in calls) or "-"


def event_classes(g, events, rows):
    """Readable class of every event of one executed behaviour (rows: its trace lines after Reset)."""
    modes = None
    out = []
    for ev, row in zip(events, rows):
        op = ev["op"]
        if op == "Emit":
            out.append("E(%s,%s)" % (modes[ev["l"] - 1] if modes else "?", g["classes"][ev["r"] - 1]["cls"]))
        elif op == "Configure":
            f = g["forms"][ev["f"] - 1]
            out.append("Cfg(%s:%s)" % (f["how"], calls_str(f["calls"])))
            if modes:
                modes[ev["l"] - 1] = getter_mode(row["jm"], row["cm"])
        elif op == "Register":
            out.append("Reg(%s)" % ev["g"])
        elif op == "Switch":
            out.append("Sw(%s,%s)" % (ev["k"], ev["v"]))
        elif op == "GC":
            out.append("GC")
        elif op == "SetWidth":
            out.append("W")
        elif op == "SetMinW":
            out.append("MW")
        elif op == "SetColors":
            out.append("Col(%s,%s+%s)" % ("builtin" if ev["c"] < 100 else "custom", ev["fg"], ev["bg"]))
        elif op == "Wire":
            out.append("Wire(%s)" % wire_class(g, ev, modes))
        else:
            out.append(op)
    return out


def wire_class(g, ev, modes):
    """Shape of a destination form: per destination 'passive' or 'logs' (+ ':self' when it logs through the logger it
    serves, else the format of the logger it logs through when known)."""
    forms = dest_forms(g)
    w = ev["w"]
    if not 1 <= w <= len(forms):
        return "?"
    out = []
    for d in forms[w - 1]:
        if not d["log"]:
            out.append("passive")
        elif d["l"] == ev["l"]:
            out.append("logs:self")
        elif modes and 1 <= d["l"] <= len(modes):
            out.append("logs:" + modes[d["l"] - 1])
        else:
            out.append("logs")
    return "+".join(out)


def classes_with_modes(g, events, reset_row, rows):
    modes = [getter_mode(m[0], m[1]) for m in reset_row["modes"]]
    out = []
    for ev, row in zip(events, rows):
        if ev["op"] == "Emit":
            out.append("E(%s,%s)" % (modes[ev["l"] - 1], g["classes"][ev["r"] - 1]["cls"]))
        elif ev["op"] == "Wire":
            out.append("Wire(%s)" % wire_class(g, ev, modes))
        else:
            out.append(event_classes(g, [ev], [row])[0])
            if ev["op"] == "Configure":
                modes[ev["l"] - 1] = getter_mode(row["jm"], row["cm"])
    return out


# ------------------------------------------------------------------ shrinking

def fails_same(bad, last_line, fmt, diag):
    for b in bad:
        if b["line"] == last_line and b["fmt"] == fmt and set(b["diag"]) & set(diag):
            return b
    return None


def try_histories(ctx, g, testing, candidates, fmt, diag, tag):
    """Run every candidate history in its own fresh process, judge all with one TLC run.
    Returns the list of booleans 'the last record is rejected for the same format and clause'."""
    paths, lasts = [], []
    total = 0
    for i, evs in enumerate(candidates):
        tp, _ = run_script(ctx, script_of(ctx, g, [evs], base=900 + i), testing, "ench-shrink-%s-%d" % (tag, i), timeout=300)
        paths.append(tp)
        total += len(evs) + 1
        lasts.append(total)
    bad, _, _ = validate(ctx, g, paths, "shrink-%s" % tag)
    return [fails_same(bad, ln, fmt, diag) is not None for ln in lasts]


def shrink(ctx, g, testing, events, fmt, diag, tag, budget_s=45):
    """events: one behaviour truncated at the rejected Emit.  Returns (minimal history, reproduced alone?)."""
    t0 = time.time()
    if not try_histories(ctx, g, testing, [events], fmt, diag, tag + "a")[0]:
        return events, False
    n = len(events)
    ks = [k for k in (1, 2, 3, 4, 6, 8, 12, 16, 24, 32, 48, 64) if k < n]
    cur = events
    if ks:
        res = try_histories(ctx, g, testing, [events[-k:] for k in ks], fmt, diag, tag + "s")
        for k, ok in zip(ks, res):
            if ok:
                cur = events[-k:]
                break
    rounds = 0
    while len(cur) > 1 and time.time() - t0 < budget_s and rounds < 8:
        rounds += 1
        cands = [cur[:i] + cur[i + 1:] for i in range(len(cur) - 1)]
        res = try_histories(ctx, g, testing, cands, fmt, diag, tag + "r%d" % rounds)
        removable = [i for i, ok in enumerate(res) if ok]
        if not removable:
            break
        # try to drop all individually removable events at once, else only the first one
        allgone = [e for i, e in enumerate(cur) if i not in set(removable)]
        if len(removable) > 1 and try_histories(ctx, g, testing, [allgone], fmt, diag, tag + "x%d" % rounds)[0]:
            cur = allgone
        else:
            cur = cands[removable[0]]
    return cur, True


# ------------------------------------------------------------------ differential: same record, no history

def differential(ctx, fmt, g, run, rows, limit, tag):
    """A sample of the records of the property's format is logged again by FRESH loggers in a fresh
    process that is put into the same model state by the shortest canonical calls (loggers created
    directly in their mode, registrations, widths, switches) - no other record before it in its
    behaviour.  The abstract observations (what the decoders project, which is all the specification
    ever sees) of the two executions are compared.  This produces no verdict of its own - the
    verdict on either record is HDiag's - it measures how much of what the specification looks at
    is history-invariant on this tree and is the first step of shrinking a rejected record."""
    picks = []
    st = None
    k = 0
    for i, row in enumerate(rows):
        op = row["op"]
        if op == "Reset":
            st = dict(modes=[getter_mode(m[0], m[1]) for m in row["modes"]], named=list(row["named"]), width=row["width"],
                      minw=row["minw"], reg={}, col={}, dbg=row["dbg"], trc=row["trc"], dest={})
            k = -1
        else:
            k += 1
        if op == "Configure":
            st["modes"][row["l"] - 1] = getter_mode(row["jm"], row["cm"])
            st["named"][row["l"] - 1] = row["named"]
        elif op == "Register" and row["ok"]:
            st["reg"][row["c"]] = row["g"]
            if row["g"] in ("titlecolor", "tags", "tagsbg"):
                st["col"].pop(str(row["c"]), None)
        elif op == "SetColors":
            st["col"][str(row["c"])] = [row["fg"], row["bg"]]
        elif op == "Wire":
            st["dest"][str(row["l"])] = row["w"]
        elif op in ("Switch", "SwitchOff"):
            st["dbg"], st["trc"] = row["dbg"], row["trc"]
        elif op == "SetWidth" and 1 <= row["w"] <= 5:
            st["width"] = row["w"]
        elif op == "SetMinW" and row["m"] >= 16:
            st["minw"] = row["m"]
        elif op == "Emit" and st["modes"][row["l"] - 1] == fmt and k > 0:
            picks.append((i, json.loads(json.dumps(st))))
    if not picks:
        return dict(compared=0, identical=0, different=0)
    step = max(1, len(picks) // limit)
    picks = picks[::step][:limit]
    # the events of the history run, by trace line
    evs = {}
    pos = 0
    for beh in run["behaviours"]:
        for j, ev in enumerate(beh):
            evs[pos + 1 + j] = ev
        pos += len(beh) + 1
    behs = []
    for i, s0 in picks:
        ev = evs[i]
        beh = [dict(op="Init", modes=s0["modes"], named=s0["named"])]
        beh += [dict(op="Register", c=int(c), g=f) for c, f in sorted(s0["reg"].items())]
        beh += [dict(op="SetColors", c=int(c), fg=v[0], bg=v[1]) for c, v in sorted(s0["col"].items())]
        beh += [dict(op="Wire", l=int(l), w=w) for l, w in sorted(s0["dest"].items()) if w != 1]
        if s0["width"] != 3:
            beh.append(dict(op="SetWidth", w=s0["width"]))
        if s0["minw"] != 36:
            beh.append(dict(op="SetMinW", m=s0["minw"]))
        if s0["dbg"]:
            beh.append(dict(op="Switch", k="debug", v="ext", l=1))
        if s0["trc"]:
            beh.append(dict(op="Switch", k="trace", v="ext", l=1))
        beh.append(dict(ev))
        behs.append(beh)
    tp, _ = run_script(ctx, script_of(ctx, g, behs, base=400), run["testing"], "ench-diff-" + tag, timeout=600)
    ref = read_ndjson(tp)
    out = dict(compared=0, identical=0, different=0)
    pos = 0
    for (i, _), beh in zip(picks, behs):
        pos += len(beh)                      # Reset + events without Init -> the Emit is the last line
        a, b = rows[i]["obs"], ref[pos - 1]["obs"]
        out["compared"] += 1
        if a == b:
            out["identical"] += 1
        else:
            out["different"] += 1
            ex = ctx.extra.setdefault("hist_differential_examples", [])
            if len(ex) < 6:
                ex.append(dict(group=g["name"], line=i + 1, differs_in=sorted(k2 for k2 in set(a) | set(b) if a.get(k2) != b.get(k2))))
    return out


ATTR_DIAGS = {"invalid-json", "members", "top-level-members", "unparsable", "pairs"}


def known_matches(key, fmt, b):
    """Does a rejected record (TLC's @@bad entry) carry the feature a listed per-record finding names?
    Only reserved-member-key findings reach histories (<fmt>:member-key:<name>:<kind>)."""
    p = key.split(":")
    if len(p) < 4 or p[0] != fmt or p[1] != "member-key" or not set(b["diag"]) <= ATTR_DIAGS:
        return False
    return any(f.split(":")[0] == "member-key" and p[2] in (f.split(":")[1], "*") and p[3] in (f.split(":")[2], "*")
               for f in b["feats"])


# ------------------------------------------------------------------ the component

def plan(ctx, fmt):
    """Explore all groups (parallel TLC runs), build the scripts per group and process kind."""
    quick = ctx.quick()
    gs = groups(fmt, quick)
    with concurrent.futures.ThreadPoolExecutor(max_workers=8) as ex:
        t0 = time.time()
        futs = [ex.submit(explore, ctx, g) for g in gs]
        mech = ex.submit(mech_check, ctx)
        covers = [f.result() for f in futs]
        mres = mech.result()
        ctx.extra["hist_mech_s"] = round(time.time() - t0, 1)
    # counters are added here, in the main thread (the TLC runs above were exhaustive model checks)
    d, gnr = mres.pop("_counts")
    ctx.states += d + sum(info["states"] for _, info in covers)
    ctx.transitions += gnr + sum(info["generated"] for _, info in covers)
    ctx.extra["hist_mech_noleak"] = mres
    plans = []
    rng = random.Random(ctx.seed * 104729 + 7 + FMTS.index(fmt))
    for g, (behs, info) in zip(gs, covers):
        behs = [epilogue(g, b, i) for i, b in enumerate(behs)]
        nrand = (6 if quick else 60) if g["name"] != "big" else (2 if quick else 10)
        rnd = [epilogue(g, b, i) for i, b in enumerate(random_behaviours(g, rng, nrand, 40 if quick else 80))]
        ctx.extra.setdefault("hist_groups", {})[g["name"]] = dict(info, random_behaviours=len(rnd))
        plans.append((g, behs, rnd))
    mg = mix_group(fmt, quick)
    rnd = [epilogue(mg, b, i) for i, b in enumerate(random_behaviours(mg, rng, 36 if quick else 600, 60 if quick else 120))]
    rnd.append(epilogue(mg, long_run(mg, rng, 700 if quick else 5000), 0))
    ctx.extra.setdefault("hist_groups", {})["mix"] = dict(random_behaviours=len(rnd), events=sum(len(b) for b in rnd))
    plans.append((mg, [], rnd))
    return plans


def execute(ctx, fmt, g, cover, rnd):
    """Run one group's behaviours in one process per process kind; returns list of runs."""
    quick = ctx.quick()
    allb = [[dict(e) for e in b] for b in cover + rnd]
    assign_salts(allb, 0)
    kinds = g["kinds"]
    runs = []
    if kinds == "both" or not quick:
        parts = [(False, allb), (True, allb)]
    else:
        # quick tier: the behaviours are dealt to the two processes alternately (each edge of the
        # graph is executed in one of the process kinds; the thorough tier runs everything in both)
        first = ctx.seed % 2 == 0
        if fmt == "logfmt":
            first = False                # C05 claims the single line for production processes
        a = [b for i, b in enumerate(allb) if i % 2 == 0]
        b = [b for i, b in enumerate(allb) if i % 2 == 1]
        parts = [(first, a), (not first, b)]
    for testing, behs in parts:
        if not behs:
            continue
        name = "ench-%s-%s" % (g["name"], "gotest" if testing else "prod")
        tp, dp = run_script(ctx, script_of(ctx, g, behs), testing, name)
        runs.append(dict(testing=testing, behaviours=behs, trace=tp, details=dp))
    return runs


def run_history(ctx, fmt):
    t0 = time.time()
    plans = plan(ctx, fmt)
    ctx.extra["hist_plan_s"] = round(time.time() - t0, 1)
    t1 = time.time()
    executed = []
    for g, cover, rnd in plans:
        executed.append((g, execute(ctx, fmt, g, cover, rnd)))
    ctx.extra["hist_exec_s"] = round(time.time() - t1, 1)
    t2 = time.time()

    def val(item):
        g, runs = item
        return validate(ctx, g, [r["trace"] for r in runs], g["name"])

    with concurrent.futures.ThreadPoolExecutor(max_workers=6) as ex:
        results = list(ex.map(val, executed))
    ctx.extra["hist_validate_s"] = round(time.time() - t2, 1)

    sigs = set()
    diffstats = {}
    reported = set()
    nshrunk = 0
    seen_pre = {}
    stats = dict(events=0, emits=0, emits_own_format=0, deliveries=0, deliveries_own_format=0, nested_records=0,
                 max_nesting_depth=0, behaviours=0, rejected_own_format=0, rejected_other_format=0,
                 skipped_outside_domain=0, mode_notes=0)
    for (g, runs), (bad, skipped, notes) in zip(executed, results):
        stats["skipped_outside_domain"] += skipped
        stats["mode_notes"] += len(notes)
        # line number (1-based, over the concatenation) -> (run, behaviour index, event index)
        index = []
        rows_all = []
        for ri, run in enumerate(runs):
            rows = read_ndjson(run["trace"])
            rows_all.append(rows)
            pos = 0
            for bi, beh in enumerate(run["behaviours"]):
                index.append((ri, bi, -1, pos))
                for ei in range(len(beh)):
                    index.append((ri, bi, ei, pos))
                pos += len(beh) + 1
            stats["behaviours"] += len(run["behaviours"])
            stats["events"] += len(rows)
            modes = None
            prev = "start"
            for row in rows:
                if row["op"] == "Reset":
                    modes = [getter_mode(m[0], m[1]) for m in row["modes"]]
                    prev = "start"
                    continue
                if row["op"] == "Configure":
                    modes[row["l"] - 1] = getter_mode(row["jm"], row["cm"])
                    cur = "Cfg%d" % row["f"]
                elif row["op"] == "Emit":
                    stats["emits"] += 1
                    m = modes[row["l"] - 1]
                    if m == fmt:
                        stats["emits_own_format"] += 1
                    sub = row.get("sub") or []
                    stats["deliveries"] += 1 + len(sub)
                    for x in sub:
                        if x["d"] > 0:
                            stats["nested_records"] += 1
                            stats["max_nesting_depth"] = max(stats["max_nesting_depth"], x["d"])
                        if modes[x["l"] - 1] == fmt:
                            stats["deliveries_own_format"] += 1
                            # what kind of delivery of the property's format was judged (nested record / outer record whose
                            # destination logs / copy for a second destination)
                            sigs.add((g["name"], run["testing"], "delivery", x["d"] > 0, x["k"], row["l"], row["r"], x["l"], x["r"]))
                    cur = "E(%s,%d,%d)" % (m, row["l"], row["r"])
                else:
                    cur = row["op"] + str(row.get("g", "")) + str(row.get("k", "")) + str(row.get("v", "")) + str(row.get("w", "")) + \
                        str(row.get("fg", "")) + str(row.get("bg", ""))
                sigs.add((g["name"], run["testing"], prev, cur))
                prev = cur
        for ri, run in enumerate(runs):
            d = differential(ctx, fmt, g, run, rows_all[ri], 60 if ctx.quick() else 1500,
                             "%s-%s" % (g["name"], "gotest" if run["testing"] else "prod"))
            for k2, v in d.items():
                diffstats[k2] = diffstats.get(k2, 0) + v
        for b in bad:
            ri, bi, ei, pos = index[b["line"] - 1]
            if b["fmt"] != fmt:
                stats["rejected_other_format"] += 1
                ctx.extra.setdefault("hist_other_format_examples", [])
                if len(ctx.extra["hist_other_format_examples"]) < 5:
                    ctx.extra["hist_other_format_examples"].append(dict(group=g["name"], fmt=b["fmt"], diag=b["diag"]))
                continue
            stats["rejected_own_format"] += 1
            # a listed finding of the per-record component (reserved member key) whose feature the record carries
            kn = [k["key"] for k in ctx.known if known_matches(k["key"], fmt, b)]
            if kn:
                run = runs[ri]
                ctx.finding(kn[0], "%s record inside a history (group %s) carries the feature of the listed finding; violated %s"
                            % (fmt, g["name"], ",".join(sorted(b["diag"]))),
                            dict(kind="enchist", fmt=fmt, testing=run["testing"], seed=ctx.seed, key=kn[0], diag=sorted(b["diag"]),
                                 group=g, base=0, behaviours=run["behaviours"][:bi] + [run["behaviours"][bi][:ei + 1]]))
                continue
            run = runs[ri]
            beh = run["behaviours"][bi]
            rows = rows_all[ri]
            reset_row = rows[pos]
            beh_rows = rows[pos + 1: pos + 2 + ei]
            events = beh[:ei + 1]
            diag = sorted(b["diag"])
            pre = (g["name"], tuple(diag))
            seen_pre[pre] = seen_pre.get(pre, 0) + 1
            percls = ctx.extra.setdefault("hist_rejected_per_class", {})
            percls["%s:%s" % pre] = seen_pre[pre]
            if seen_pre[pre] > 1 or nshrunk >= 6:
                continue                 # one minimal reproducer per (group, violated clauses); the rest is counted
            details = read_ndjson(run["details"])[pos + 1 + ei]
            if b.get("sub", 0) > 0 and len(details.get("sub") or []) >= b["sub"]:
                details = details["sub"][b["sub"] - 1]          # the rejected delivery is not the line's own one
            nest = sorted(f.split(":", 1)[1] for f in b["feats"] if f.startswith("nest:"))
            classes = classes_with_modes(g, events, reset_row, beh_rows)
            nshrunk += 1
            try:
                minimal, alone = shrink(ctx, g, run["testing"], events, fmt, diag, "%s%d" % (g["name"], nshrunk))
                if alone:
                    # classes of the minimal history, from a fresh execution of it
                    tp, _ = run_script(ctx, script_of(ctx, g, [minimal], base=990), run["testing"], "ench-min-%d" % nshrunk,
                                       timeout=300)
                    mrows = read_ndjson(tp)
                    mclasses = classes_with_modes(g, minimal, mrows[0], mrows[1:])
            except Undecided as ex:
                # shrinking is a convenience: the rejection in the recorded run stands on its own
                ctx.extra.setdefault("hist_shrink_problems", []).append(str(ex)[:300])
                minimal, alone = events, False
            if alone:
                hist_key = ">".join(mclasses[-6:])
                replay_behs = [minimal]
                base = 990
            else:
                # does not reproduce in a fresh process: the whole history of the process is the reproducer
                hist_key = "process-history>" + ">".join(classes[-3:])
                replay_behs = run["behaviours"][:bi] + [events]
                base = 0
            key = "hist:%s:%s:%s" % (fmt, "+".join(diag), hist_key)
            if nest:
                key += ":" + "+".join(nest)
            if key in reported:
                continue
            reported.add(key)
            what = ("%s record (%s process, group %s) rejected by EncoderHist after the history [%s]: violated %s; "
                    "%spayload=%s msg=%s" % (fmt, "go-test" if run["testing"] else "production", g["name"],
                                             " > ".join(classes[-8:]), ",".join(diag),
                                             ("delivery %s of the last Emit (%s) - what the destination found in the argument of "
                                              "its Write when it read it; " % (b.get("sub", 0), ", ".join(nest))) if nest else "",
                                             details.get("payload", "")[:600], details.get("msg", "")[:120]))
            ctx.finding(key, what, dict(kind="enchist", fmt=fmt, testing=run["testing"], seed=ctx.seed, key=key, diag=diag,
                                        group=g, base=base, behaviours=replay_behs))
    ctx.traces += stats["behaviours"]
    ctx.evaluations += stats["deliveries"]
    ctx.nontrivial += len(sigs)
    ctx.extra["hist"] = stats
    ctx.extra["hist_differential"] = diffstats
    ctx.extra["hist_wall_s"] = round(time.time() - t0, 1)
    if stats["emits_own_format"] == 0:
        raise Undecided("history component: no record of format %s was emitted" % fmt)
    ctx.assumptions += [
        "history component, destinations that log: a destination owns the argument of its Write until it returns - what is judged is "
        "what it finds there when it reads it, after the record it logged itself is out (single goroutine, GOMAXPROCS 1); a "
        "destination never re-enters itself; concurrency between writers is C08's",
        "history component: which mode a call sequence produces is C11's property - records are judged in the mode the "
        "getters JSONMode()/ColorMode() report (JSON first); records of the other two formats inside a history are context "
        "and are not reported by this property's check",
        "history component: the level tag / level name of a custom severity is classified by its source (registered short "
        "tag, title, generic L#n); the timestamp must lie in the second-window of the call",
    ]


def replay(ctx, fmt, rp):
    g = rp["group"]
    script = dict(seed=rp.get("seed", ctx.seed), base=rp.get("base", 0), slots=g["slots"], forms=g["forms"],
                  classes=g["classes"], destforms=dest_forms(g), behaviours=rp["behaviours"])
    ctx.seed = rp.get("seed", ctx.seed)
    tp, dp = run_script(ctx, script, rp.get("testing", False), "ench-replay", timeout=600)
    bad, skipped, _ = validate(ctx, g, [tp], "replay")
    details = read_ndjson(dp)
    rows = read_ndjson(tp)
    ctx.traces += len(rp["behaviours"])
    ctx.evaluations += sum(1 for r in rows if r["op"] == "Emit")
    ctx.nontrivial += 1
    ctx.states += 1
    ctx.transitions += len(rows)
    print("last payload now: " + details[-1].get("payload", "")[:1200])
    for b in bad:
        if b["fmt"] != fmt:
            continue
        ctx.finding(rp.get("key") or "hist:%s:%s:replay" % (fmt, "+".join(sorted(b["diag"]))),
                    "replayed history still violates %s at line %d; payload=%s" % (
                        ",".join(sorted(b["diag"])), b["line"], details[b["line"] - 1].get("payload", "")[:1200]), rp)
    return ctx.finish(rule="replay of one recorded history", exhaustive=False)
