"""C12: Panic and Fatal write the record first, then terminate as documented (spec/Term.tla).

  1. TLC explores the per-call mechanism machine of Term.tla over EVERY cell of the table
     (entry point x receiver kind x severity x logger level x noInterrupt x interruptAlways x
     way the process was started (no sign / both signs / only one of the two signs of a go-test binary)
     x format x other flags x input class x destination class x message size x call site (top level,
     nested in a destination's Write of a record of the same / another logger, nested in a value's
     String / MarshalText / LogValue)), checks that the mechanism implements the statement (invariants
     + action properties; among them: termination does not depend on where the record goes, on how
     long the message is, on where the call comes from or on a single start-up sign) and exports
     the table with the outcome the statement demands for each cell.
  2. Deliberately wrong mechanisms (Mut) must be rejected by TLC - the invariants are not vacuous.
  3. The Go worker executes every cell on the library in child processes started the cell's way
     (batches; a cell expected to exit is the last of its batch; write-ahead markers and
     write-through recorders; a child that is stuck inside a call is killed after a time limit
     and the call recorded as "hang") and records what it observed.
  4. TLC validates the recording against the statement predicates (TermTrace.tla); the "record
     written first" clause is evaluated where the cell has a recording destination for the severity.
Expected outcomes exist only in the specification; Python uses them for scheduling batches.
"""
import concurrent.futures
import json
import os
import random
import subprocess

from vlib import Undecided, write_ndjson, read_ndjson, NCPU
from tlagen import Fn, gen_mc

FORMATS = ["logfmt", "json", "color"]
CUSTOMS = {13: 2, 14: 1}          # registered custom levels: 13 treated as Error, 14 treated as Fatal
CUSTOM_TITLES = {13: "swell", 14: "doom"}
SEV = {0: "Panic", 1: "Fatal", 2: "Error", 3: "Warn", 4: "Info", 5: "Debug", 6: "Trace", 7: "Off", 8: "Always",
       9: "OK", 10: "Success", 11: "Fail", 12: "Max", 13: "Custom13asError", 14: "Custom14asFatal"}
INVARIANTS = "TypeOK WriteThenTerminate OnlyWhenStated FinalMatchesStatement NotAdmittedSilent Ends DestinationsDoNotMatter"
PROPERTIES = "TermOrder NothingAfterEnd"
# wrong mechanisms and what must reject them
WITNESSES = {"exitFirst": "exit before the record is printed", "status": "other exit status",
             "panicValue": "panic value is not the message", "anyBits": "noInterrupt tested with any-bits on both flags",
             "errTerm": "Error terminates under interruptAlways", "noGate": "FatalContext without level gate",
             "discardGate": "the gate also skips a call whose destinations are all io.Discard / empty",
             "truncate": "a message longer than 64 KiB is clamped before it is printed and handed to panic",
             # the same two against the relational invariant alone
             "discardGate@DestinationsDoNotMatter": "outcome depends on the destination class",
             "truncate@DestinationsDoNotMatter": "outcome depends on the message size",
             "waitInFlight@Ends": "a nested Fatal waits for the record in the making before it exits - for ever",
             "waitInFlight@DestinationsDoNotMatter": "outcome depends on the call site",
             "eitherSign@FinalMatchesStatement": "one start-up sign (name *.test or a -test.* argument) is taken for go test",
             "eitherSign@DestinationsDoNotMatter": "outcome depends on a single start-up sign"}
MAX_BATCH = 250
# A child that is alive inside a call while its log has not grown for HANG_S seconds (of time during which the
# driver itself was being scheduled) is killed and the call recorded as "hang" - provided the call's record is
# in the log already (twice as long otherwise); see termRunBatch in harness/fam_term.go.
HANG_S = 30
CELL_KEYS = ["ep", "recv", "r", "L", "ni", "ia", "testing", "start", "fmt", "base", "inp", "dst", "size", "from"]


BASES = ["std", "empty", "all"]
INPUTS = ["plain", "kv", "attr"]
ALL_INPUTS = INPUTS + ["huge", "nilctx"]
# destination classes (Term.tla DstCfg) and message sizes (Term.tla MsgSizes); the default is ("rec", 0)
DSTS = ["rec", "dflt", "discN", "discE", "discBoth", "emptied", "lvlrec", "lvldisc", "lvlemptied", "mixed"]
SIZES = [0, 65535, 65536, 65537, 102400, 307200]
# call sites (Term.tla Sites) and ways of starting the process (Term.tla Starts)
SITES = ["top", "writeSame", "writeOther", "string", "marshalText", "logValue"]
NESTED = SITES[1:]
STARTS = ["prod", "gotest", "nameOnly", "argOnly"]
HALF_STARTS = STARTS[2:]
ARG_SIGN = "-test.endpoint=http://localhost:1"       # what an "argOnly" process is started with
ALL_DIMS = {(f, b, x, "rec", 0, "top") for f in FORMATS for b in BASES for x in ALL_INPUTS}


def nested_dims(s, thorough):
    """The tuples whose call is nested in the production of another record (default destination; flag
    sets with Lattrs).  quick: every site once (format, flags, input rotate with the seed); thorough:
    every site with every format and both flag sets, and once with a message longer than 64 KiB."""
    nb = ["std", "all"]
    if not thorough:
        return {(FORMATS[(k + s) % 3], nb[(k + s) % 2], INPUTS[(k + 2 * s) % 3], "rec", 0, site) for k, site in enumerate(NESTED)}
    dims, k = set(), 0
    for site in NESTED:
        for f in FORMATS:
            for b in nb:
                dims.add((f, b, ALL_INPUTS[(k + s) % 5], "rec", 0, site)); k += 1
        dims.add((FORMATS[(k + s) % 3], nb[k % 2], "plain", "rec", 65537, site)); k += 1
    return dims


def wide_dims(s, thorough):
    """The tuples that vary destination class / message size.  quick: every other destination class
    once with the short message and every size once with recording writers (format, flags and input
    rotate with the position and the seed), plus two destination x size pairs.  thorough: every class
    and every size with every format, and every destination x size pair once."""
    def rot(k):
        return FORMATS[(k + s) % 3], BASES[(k // 3 + s) % 3], ALL_INPUTS[(k + 2 * s) % 5]
    dims, k = set(), 0
    other, big = DSTS[1:], SIZES[1:]
    if not thorough:
        for d in other:
            dims.add(rot(k) + (d, 0, "top")); k += 1
        for z in big:
            dims.add(rot(k) + ("rec", z, "top")); k += 1
        dims.add(rot(k) + (other[s % len(other)], big[s % len(big)], "top")); k += 1
        dims.add(rot(k) + ("discBoth", 65537, "top")); k += 1
        return dims
    for d in other:
        for j in range(3):
            dims.add((FORMATS[j],) + rot(k)[1:] + (d, 0, "top")); k += 1
    for z in big:
        for j in range(3):
            dims.add((FORMATS[j],) + rot(k)[1:] + ("rec", z, "top")); k += 1
    for d in other:
        for z in big:
            dims.add(rot(k) + (d, z, "top")); k += 1
    return dims


def table_consts(ctx, full=False):
    """thorough: the full product.  quick: all levels that separate the admission classes of
    Panic/Fatal plus two more (rotating with the seed); the <<format, base flags, input>> triples
    of Panic/Fatal cells reduced to a pairwise-covering Latin square (rotating with the seed), one triple
    for the negative severities.  Both tiers: the nested call sites (nested_dims) at the WideLevels;
    the half start-up signs (HalfDims) with two (thorough: nine) default triples, the nested tuple of one
    site (thorough: of every site) and, thorough, one triple of the negative severities."""
    s = ctx.seed
    latin = sorted((FORMATS[i], BASES[j], INPUTS[(i + j + s) % 3], "rec", 0, "top") for i in range(3) for j in range(3))
    if ctx.quick() and not full:
        levels = {0, 1, 2, 4, 7, 8} | {[3, 5, 6][s % 3], [9, 10, 11, 12][s % 4]}
        dims = set(latin)
        dims |= {(FORMATS[i], BASES[(i + s) % 3], "huge", "rec", 0, "top") for i in range(3)}       # > 1024 attributes in one call
        dims |= {(FORMATS[i], BASES[(i + s + 1) % 3], "nilctx", "rec", 0, "top") for i in range(3)}   # nil context + registered context keys
        nest = nested_dims(s, False)
        dims |= wide_dims(s, False) | nest
        half = {latin[s % 9], latin[(s + 4) % 9]} | {d for d in nest if d[5] == NESTED[s % len(NESTED)]}
        neg = {(FORMATS[s % 3], "std", "plain", "rec", 0, "top"),
               (FORMATS[(s + 1) % 3], ["std", "all"][s % 2], INPUTS[s % 3], "rec", 0, NESTED[(s + 2) % len(NESTED)])}   # other severities, nested
        return dict(LoggerLevels=levels, Dims=dims, NegDims=neg,
                    WideLevels={0, 1, 7, [2, 4, 8][s % 3]}, HalfDims=half, NegHalfDims=set(), Customs=Fn(CUSTOMS))
    neg = ALL_DIMS | {(FORMATS[k % 3], BASES[k % 3], "plain", d, z, "top") for k, (d, z) in
                      enumerate([("discBoth", 0), ("emptied", 0), ("lvldisc", 0), ("rec", 65537)])}
    neg |= {d for d in nested_dims(s + 1, False) if d[5] in (NESTED + NESTED)[s % 5:s % 5 + 3]}     # three of the five sites
    half = set(latin) | nested_dims(s, False)
    return dict(LoggerLevels=set(range(13)), Dims=ALL_DIMS | wide_dims(s, True) | nested_dims(s, True) | nested_dims(s, False),
                NegDims=neg, WideLevels={0, 1, 2, 4, 7, 8}, HalfDims=half,
                NegHalfDims={(FORMATS[s % 3], "std", "plain", "rec", 0, "top")}, Customs=Fn(CUSTOMS))


def replay_consts(cells):
    """constants of a table that contains exactly the dimensions of the given cells"""
    dims = {(c["fmt"], c["base"], c["inp"], c["dst"], c["size"], c["from"]) for c in cells}
    levels = {c["L"] for c in cells}
    return dict(LoggerLevels=levels, Dims=dims, NegDims=dims, WideLevels=levels, HalfDims=dims, NegHalfDims=dims, Customs=Fn(CUSTOMS))


def witness_consts():
    return dict(LoggerLevels={0, 1, 4, 7}, WideLevels={0, 1, 4, 7},
                Dims={("logfmt", "std", "plain", "rec", 0, "top"), ("logfmt", "std", "kv", "rec", 0, "top"),
                      ("logfmt", "std", "plain", "discBoth", 0, "top"), ("logfmt", "std", "plain", "emptied", 0, "top"),
                      ("logfmt", "std", "plain", "rec", 65536, "top"), ("logfmt", "std", "plain", "rec", 65537, "top"),
                      ("logfmt", "std", "plain", "rec", 0, "writeSame"), ("logfmt", "std", "plain", "rec", 0, "string")},
                HalfDims={("logfmt", "std", "plain", "rec", 0, "top")}, NegHalfDims=set(),
                NegDims={("logfmt", "std", "plain", "rec", 0, "top")}, Customs=Fn(CUSTOMS))


def mc_files(name, extends, consts, cfg_lines, plain):
    t, c = gen_mc(name, extends, consts, cfg_lines, plain=plain)
    return {name + ".tla": t, name + ".cfg": c}


def model_check(ctx, consts):
    files = mc_files("MC_Term", "Term", consts,
                     ["INIT Init", "NEXT Next", "CHECK_DEADLOCK FALSE", "INVARIANTS " + INVARIANTS,
                      "PROPERTIES " + PROPERTIES], dict(ExportFile='"cells.json"', Mut='"none"'))
    r = ctx.model_check("MC_Term", "MC_Term.cfg", files=files, workers=4 if ctx.quick() else max(4, min(8, NCPU // 2)),
                        name="term-mc", timeout=1500)
    stats = r.prints("stats")
    if len(stats) != 1:
        raise Undecided("Term: no @@stats line:\n" + r.out[-2000:])
    stats = stats[0]
    empty = [k for k, v in stats.items() if not v]
    if empty:
        raise Undecided("Term: outcome classes %s are empty in this table - the run would be vacuous" % empty)
    if r.distinct < 3 * stats["cells"] // 2 or r.depth != 4:
        raise Undecided("Term: unexpected state graph (distinct=%d depth=%d)" % (r.distinct, r.depth))
    with open(os.path.join(r.dir, "cells.json")) as fh:
        table = json.load(fh)
    if len(table) != stats["cells"]:
        raise Undecided("Term: exported table has %d cells, the model %d" % (len(table), stats["cells"]))
    for k, c in enumerate(table):
        c["id"] = k + 1
    return table, stats


def witnesses_start(ctx, ex):
    """Every deliberately wrong mechanism must make TLC report a violated invariant/property.
    Started in the background (they are independent of the main run); see witnesses_result."""
    def one(mut):
        name, _, only = mut.partition("@")
        files = mc_files("MC_W", "Term", witness_consts(),
                         ["INIT Init", "NEXT Next", "CHECK_DEADLOCK FALSE", "INVARIANTS " + (only or INVARIANTS)] +
                         ([] if only else ["PROPERTIES " + PROPERTIES]), dict(ExportFile='""', Mut='"%s"' % name))
        r = ctx.tlc("MC_W", "MC_W.cfg", files=files, workers=1, name="term-witness-" + mut.replace("@", "-"), timeout=300,
                    allow_fail=True, heap="1g")
        import re
        hit = r.invariant_violated + re.findall(r"Action property (\S+) is violated", r.out)
        return mut, hit, r
    return [ex.submit(one, mut) for mut in sorted(WITNESSES)]


def witnesses_result(futures):
    res = {}
    for f in futures:
        mut, hit, r = f.result()
        if not hit:
            raise Undecided("witness run %s (%s) was not rejected by TLC:\n%s" % (mut, WITNESSES[mut], r.out[-1500:]))
        res[mut] = hit[0]
    return res


def cell_of(c):
    return {k: c[k] for k in ["id"] + CELL_KEYS}


def plan_batches(cells, rng):
    """Shuffled; a cell whose specified outcome is "exit" ends its process, so it ends its batch."""
    cells = list(cells)
    rng.shuffle(cells)
    batches, cur = [], []
    for c in cells:
        cur.append(cell_of(c))
        if c["exp"]["out"] == "exit" or len(cur) >= MAX_BATCH:
            batches.append(cur)
            cur = []
    if cur:
        batches.append(cur)
    return batches


def execute(ctx, batches_by_start, seed):
    """Run the driver once per way of starting the process (it starts its children the way it was
    started itself: same executable name, same -test.* arguments); returns the observation rows."""
    w = ctx.worker()
    big = max(2, min(8, NCPU // 2))

    def one(start):
        d = ctx.sub("run-%s" % start)
        n = sum(len(b) for b in batches_by_start[start])
        par = big if n > 4000 else max(2, big // 2)
        plan = dict(seed=seed, par=par, start=start, hang_s=HANG_S,
                    customs=[dict(v=v, title=CUSTOM_TITLES[v], treat=t) for v, t in CUSTOMS.items()],
                    batches=batches_by_start[start])
        pp, op = os.path.join(d, "plan.json"), os.path.join(d, "obs.ndjson")
        with open(pp, "w") as fh:
            json.dump(plan, fh)
        if start in ("prod", "gotest"):
            # the go-test mode runs in a REAL, coverage-instrumented go test binary of the worker: such a
            # process is "under go test" for every means of detection (argv, package testing, cover mode)
            p = ctx.run_worker(["term-run", pp, op], testing=(start == "gotest"), timeout=3000, check=False,
                               testbin=("cover" if start == "gotest" else None))
        else:
            # one sign only: the production build under a name ending in .test without any -test.* argument /
            # under its ordinary name with a -test.* argument
            argv = [w + ".test", "term-run", pp, op] if start == "nameOnly" else [w, "term-run", pp, op, ARG_SIGN]
            e = dict(os.environ)
            e.pop("DEBUG", None)
            try:
                p = subprocess.run(argv, capture_output=True, text=True, timeout=3000, env=e, cwd=ctx.scratch, errors="replace")
            except subprocess.TimeoutExpired:
                raise Undecided("worker timeout: term-run (%s)" % start)
        if p.returncode != 0:
            raise Undecided("term-run (start=%s) failed rc=%s\n%s\n%s" % (start, p.returncode, p.stdout[-2000:], p.stderr[-3000:]))
        info = json.loads(p.stdout.strip().splitlines()[-1])
        if info["start"] != start or info["testing"] != (start == "gotest"):
            raise Undecided("driver process was started as %s (is.InTesting()=%s), wanted %s" % (info["start"], info["testing"], start))
        return read_ndjson(op), info
    rows, spawns = [], 0
    starts = [m for m in STARTS if batches_by_start.get(m)]
    with concurrent.futures.ThreadPoolExecutor(max_workers=4) as ex:
        for r, info in ex.map(one, starts):
            rows += r
            spawns += info["spawns"]
    rows.sort(key=lambda o: o["id"])
    return rows, spawns


def validate(ctx, consts, rows, expect_all, name="term-trace"):
    tp = os.path.join(ctx.scratch, name + ".ndjson")
    write_ndjson(tp, rows)
    tc = dict(consts)
    tc["TraceFile"] = "trace.ndjson"
    files = mc_files("MCT_Term", "TermTrace", tc,
                     ["SPECIFICATION TSpec", "CHECK_DEADLOCK FALSE",
                      "INVARIANTS Done " + INVARIANTS.replace(" DestinationsDoNotMatter", "")],   # (a property of the mechanism)
                     dict(ExportFile='""', Mut='"none"', ExpectAll="TRUE" if expect_all else "FALSE"))
    r = ctx.tlc("MCT_Term", "MCT_Term.cfg", files=files, copy={tp: "trace.ndjson"}, workers=1, name=name,
                timeout=3000, heap="12g", allow_fail=True)
    if r.invariant_violated:
        raise Undecided("trace run: model invariant %s violated:\n%s" % (r.invariant_violated, r.out[-3000:]))
    if not r.ok:
        raise Undecided("trace validation failed:\n" + r.out[-4000:])
    res = r.prints("bad")
    if len(res) != 1 or res[0]["lines"] != len(rows):
        raise Undecided("trace validation did not consume the whole log:\n" + r.out[-3000:])
    return res[0]


def describe(o):
    return ("%s%s(%s) on a %s logger at level %s, noInterrupt=%s interruptAlways=%s, %s process%s, %s, flags=%s, input=%s, "
            "destinations=%s, message of %s, %s") % (
        "slog." if o["recv"].startswith("pkg") else "", o["ep"], SEV.get(o["r"], o["r"]), o["recv"], SEV.get(o["L"], o["L"]),
        o["ni"], o["ia"], "go-test" if o["testing"] else "production", START_TEXT.get(o.get("start"), ""),
        o["fmt"], o["base"], o["inp"], o.get("dst", "rec"),
        "%d bytes" % o["size"] if o.get("size") else "a few bytes", SITE_TEXT[o.get("from", "top")])


CALL_KEYS = ["ep", "recv", "r", "L", "ni", "ia", "testing"]
START_TEXT = {"nameOnly": " (executable named *.test, no -test.* argument)",
              "argOnly": " (ordinary executable name, started with " + ARG_SIGN + ")"}
SITE_TEXT = {"top": "called at top level",
             "writeSame": "called from inside a destination's Write of another record of the same logger",
             "writeOther": "called from inside a destination's Write of a record of another logger",
             "string": "called from the String method of a value of another record being formatted",
             "marshalText": "called from the MarshalText/MarshalJSON method of a value of another record being formatted",
             "logValue": "called from the LogValue method of a value of another record (log/slog handler)"}


def is_default(o):
    return (o.get("dst", "rec") == "rec" and not o.get("size") and o.get("from", "top") == "top"
            and o.get("start", "prod") in ("prod", "gotest"))


def size_class(z):
    return "<=64KiB" if z <= 65536 else ">64KiB"


def report(ctx, verdict, rows, seed, prefixes=None, recorded_key=None):
    by_id = {o["id"]: o for o in rows}
    bad_ids = {b["id"] for b in verdict["bad"]}
    # naming only: a failing cell with another destination class / a long message / a nested call site / a
    # single start-up sign is filed under that class when the same call with the default dimensions
    # (recording writers, short message, top level, process started with no sign or both) passed
    # (call site and start-up sign: each is named unless the same call with only THAT dimension at its default - top
    # level / started with no sign or both - is in the table and failed as well)
    default_ok, default_bad, twin_bad = set(), set(), set()

    def twin(o, **kw):
        t = dict(dst=o.get("dst", "rec"), size=o.get("size", 0), start=o.get("start", "prod"))
        t["from"] = o.get("from", "top")
        t.update(kw)
        return tuple(o[k] for k in CALL_KEYS) + (t["dst"], t["size"], t["from"], t["start"])
    for o in rows:
        if is_default(o):
            (default_bad if o["id"] in bad_ids else default_ok).add(tuple(o[k] for k in CALL_KEYS))
        if o["id"] in bad_ids:
            twin_bad.add(twin(o))
    split = {tuple(k) for k in verdict.get("split", [])}
    items = []
    for b in sorted(verdict["bad"], key=lambda b: b["id"]):
        o = by_id[b["id"]]
        exp = b["expected"]
        try:
            exp_out = json.loads(exp)["out"]
        except Exception:
            exp_out = "?"
        key = "%s:%s:%s:%s->%s" % (o["ep"], "pkg" if o["recv"].startswith("pkg") else "method", "+".join(b["why"]), exp_out, o["out"])
        outer_only = b["why"] == ["OuterTerminates"]
        if outer_only:      # the nested call was fine, the outer call (another severity) panicked / exited
            key = "outer-%s:OuterTerminates:ret->%s:from=%s" % ("Print" if o["from"] == "writeSame" else "Info", o.get("oout"), o["from"])
        call = tuple(o[k] for k in CALL_KEYS)
        if not outer_only and not is_default(o) and call in default_ok and call not in default_bad:
            if o.get("dst", "rec") != "rec":
                key += ":dst=" + o["dst"]
            if o.get("size"):
                key += ":msg" + size_class(o["size"])
            if o.get("from", "top") != "top" and twin(o, **{"from": "top"}) not in twin_bad:
                key += ":from=" + o["from"]
            if o.get("start", "prod") not in ("prod", "gotest") and twin(o, start="gotest" if o["testing"] else "prod") not in twin_bad:
                key += ":start=" + o["start"]
        if recorded_key and recorded_key.startswith(key):     # replay: the class the original run filed it under
            key = recorded_key
        b = dict(b, split=tuple(o[k] for k in ("r", "L", "ni", "ia", "testing")) in split)
        items.append((key, o, b, exp))
    # one representative of every failure class first, so that the printed head shows the classes
    seen, first, rest = set(), [], []
    for it in items:
        (rest if it[0] in seen else first).append(it)
        seen.add(it[0])
    for key, o, b, exp in first + rest:
        obs = {k: o.get(k) for k in ("out", "status", "pv", "nrec", "rec", "note", "pos", "stall_ms", "oout")}
        what = "%s: observed %s ; the specification expects %s (failed: %s)%s" % (
            describe(o), json.dumps(obs), exp, ", ".join(b["why"]),
            " ; calls of this severity/level/flags/mode did not all end the same way" if b["split"] else "")
        ctx.finding(key, what, dict(kind="term", seed=seed, cell=cell_of(o), prefix=(prefixes or {}).get(o["id"], []),
                                    observed=obs, expected=exp, key=key))
    if items:
        ctx.extra["failure_classes"] = sorted(seen)


def run(ctx, replay):
    if replay:
        return do_replay(ctx, replay)
    consts = table_consts(ctx)
    pool = concurrent.futures.ThreadPoolExecutor(max_workers=len(WITNESSES) + 1)
    build = pool.submit(ctx.worker)            # go build overlaps with TLC
    wfut = witnesses_start(ctx, pool)
    table, stats = model_check(ctx, consts)
    build.result()
    rng = random.Random(ctx.seed * 1000003 + 12)
    batches = {m: plan_batches([c for c in table if c["start"] == m], rng) for m in STARTS}
    rows, spawns = execute(ctx, batches, ctx.seed)
    if [o["id"] for o in rows] != [c["id"] for c in table]:
        raise Undecided("worker observed %d cells, the table has %d (or ids differ)" % (len(rows), len(table)))
    # the log handed to TLC has one line per cell of the table, with the cell's own coordinates (TermTrace
    # counts the lines that are cells of the table; that they are pairwise different is established here)
    if any(o[k] != c[k] for o, c in zip(rows, table) for k in CELL_KEYS) or \
            len({tuple(c[k] for k in CELL_KEYS) for c in table}) != len(table):
        raise Undecided("the observation log does not carry the coordinates of the table's cells")
    verdict = validate(ctx, consts, rows, True)
    wit = witnesses_result(wfut)
    pool.shutdown()
    if verdict["missing"]:
        raise Undecided("%d cells of the table were not observed" % verdict["missing"])
    # prefix of the planned batch, so that a replay re-creates the history inside the process
    prefixes = {}
    bad_ids = {b["id"] for b in verdict["bad"]}
    if bad_ids:
        for m in batches:
            for b in batches[m]:
                for k, c in enumerate(b):
                    if c["id"] in bad_ids:
                        prefixes[c["id"]] = b[:k]
    report(ctx, verdict, rows, ctx.seed, prefixes)

    ctx.traces += sum(len(b) for b in batches.values())
    ctx.evaluations += len(rows)
    ctx.nontrivial += len({tuple(o[k] for k in CELL_KEYS) for o in rows if o["r"] in (0, 1)})
    term = [o for o in rows if o["out"] != "ret"]
    for o in ([x for x in term if x["out"] == "exit"][:1] + [x for x in term if x["out"] == "panic"][:1] +
              [x for x in rows if x["r"] in (0, 1) and x["out"] == "ret" and x["nrec"] == 1][:1] +
              [x for x in rows if x["r"] in (0, 1) and x["nrec"] == 0][:1] +
              [x for x in term if x["dst"] in ("discBoth", "emptied", "lvldisc")][:1] + [x for x in term if x["size"] > 65536][:1] +
              [x for x in term if x["from"] in ("writeSame", "writeOther")][:1] + [x for x in term if x["from"] in ("string", "logValue")][:1] +
              [x for x in rows if x["r"] in (0, 1) and x["start"] in HALF_STARTS and x["out"] != "ret" and not x["ia"]][:2]):
        ctx.sample({k: o[k] for k in CELL_KEYS + ["out", "status", "pv", "nrec", "rec"]})
    ctx.extra.update(table_stats=stats, process_spawns=spawns,
                     outcome_is_a_function_of_severity_level_flags_mode=not verdict.get("split"),
                     destination_classes=sorted({o["dst"] for o in rows}), message_sizes=sorted({o["size"] for o in rows}),
                     call_sites={f: sum(1 for o in rows if o["from"] == f) for f in SITES},
                     process_starts={m: sum(1 for o in rows if o["start"] == m) for m in STARTS},
                     terminated_nested=sum(1 for o in term if o["from"] != "top"),
                     terminated_with_one_sign=sum(1 for o in term if o["start"] in HALF_STARTS),
                     hang_limit_s=HANG_S,
                     unobservable_record_cells=sum(1 for c in table if c["exp"]["rec"] == "unobservable"),
                     observed=dict(exit=sum(1 for o in rows if o["out"] == "exit"), panic=sum(1 for o in rows if o["out"] == "panic"),
                                   ret=sum(1 for o in rows if o["out"] == "ret"), hang=sum(1 for o in rows if o["out"] == "hang"),
                                   complete_records=sum(1 for o in rows if o["rec"] == "complete")),
                     witness_mechanisms_rejected=wit,
                     table_constants={k: sorted(v) if isinstance(v, set) else dict(v) for k, v in consts.items()})
    ctx.assumptions += [
        "process modes are produced by the worker's name/arguments: 'gotest' = a real go test binary (go test -c -cover) "
        "started with a -test.* argument, 'prod' = the production build; 'nameOnly' = the production build under a name "
        "ending in .test without any -test.* argument, 'argOnly' = the production build started with " + ARG_SIGN + "; "
        "'under go test' means BOTH signs (as hedzr/is InTestingT decides), so the two half-sign starts are production "
        "processes; the child reports is.InTesting() and the signs of its own argv, a mismatch is an infrastructure error",
        "a nested cell's call is issued from inside the Write of a wrapper around the recording writer / from the String, "
        "MarshalText (MarshalJSON in JSON format) or LogValue method of a value while an outer record (severity Always on the "
        "same logger, Info on another logger) is produced; markers and recover sit around the nested call, a recovered panic "
        "is not re-raised into the library; of the outer call only 'it neither panics nor exits' (another severity) is judged, "
        "not what becomes of its record",
        "'does not terminate' (out = hang): the child is alive inside the call and its log has not grown for %d s of time "
        "during which the driver itself got scheduled (poll intervals longer than 250 ms do not count), with the call's record "
        "already in the log (twice as long without it); after two such verdicts in one driver run the limit drops to 1.5 s; a "
        "child that has not begun any cell by the absolute limit is an infrastructure error (undecided)" % HANG_S,
        "an exit is observed as: write-ahead marker of the cell present, end marker absent, child exit status; records are "
        "observed through write-through recorders (one write(2) per record), so 'written first' means present in the file "
        "when the process has ended / when the panic is recovered",
        "record completeness is judged by independent decoders (encoding/json, own logfmt tokenizer + strconv.Unquote, "
        "SGR stripping) on the whole message (whatever its size), level name and the call's attributes; timestamps and "
        "caller are not compared here",
        "the 'record written first' clause is evaluated where the destination class has a recording writer for the severity "
        "(Term.tla Recording; which device carries Panic/Fatal is property C03's error class) and skipped where every "
        "destination is io.Discard or the list is empty - termination is checked in every cell",
        "debug/trace modes are switched off after SetLevel (the model's gate has debug mode off)"]
    return ctx.finish(rule="every cell of the TLC-exported table executed once on the library in a child process of its mode "
                           "(cells shuffled per seed into batches, a cell specified to exit ends its batch); outcomes validated by "
                           "TLC against the statement predicates; non-trivial = distinct cells of Panic/Fatal severity",
                      exhaustive=True)


def do_replay(ctx, path):
    with open(path) as fh:
        rp = json.load(fh)["replay"]
    cell, prefix, seed = rp["cell"], rp.get("prefix", []), rp.get("seed", 1)
    cells = prefix + [cell]
    for c in cells:            # replay files written before the destination / size / site / start dimensions existed
        c.setdefault("dst", "rec")
        c.setdefault("size", 0)
        c.setdefault("from", "top")
        c.setdefault("start", "gotest" if c["testing"] else "prod")
    consts = replay_consts(cells)
    rows, spawns = execute(ctx, {cell["start"]: [cells]}, seed)
    verdict = validate(ctx, consts, rows, False, name="term-replay")
    ctx.traces += 1
    ctx.evaluations += len(rows)
    ctx.nontrivial += 1
    ctx.states += 1
    ctx.transitions += len(rows)
    verdict["bad"] = [b for b in verdict["bad"] if b["id"] == cell["id"]] or verdict["bad"]
    report(ctx, verdict, rows, seed, {cell["id"]: prefix}, recorded_key=rp.get("key"))
    return ctx.finish(rule="replay of one recorded cell (with the cells that preceded it in its process)", exhaustive=False)
