"""C18: path hardening never lets a protected directory prefix through.

Pipeline (spec/Paths.tla is the oracle, spec/PathsTrace.tla the trace monitor):
  1. per scenario (= one process environment: $HOME, working directory at start, testing/production
     mode) TLC explores every history of Add/Remove/Reset of mappings (absolute AND relative
     directories), of the two privacy flags and of changes of the working directory (Chdir; LoseWd:
     the directory is removed underneath the process, os.Getwd fails from then on) within
     the bounds, checks the property invariants over ALL input paths of the scenario (absolute and
     relative) in every reachable state, and dumps the labelled state graph; the prefix stage of the
     specification is a FUNCTION (the innermost covering directory is replaced): nested directories -
     cwd "/" above $HOME from the first state on, $HOME above the start directory, user mappings below
     $HOME and below each other - have one allowed result "for every iteration order of the table";
     with Lprivacypathregexp off no regexp rule (registered or hard-wired) is in force;
  2. witness runs: each named deviation of the pinned code must make TLC FAIL an invariant
     (the invariants are not vacuous, the deviations really contradict the property);
  3. an edge cover of every dumped graph (every transition at least once, all inputs queried
     after every transition through Safety, SafetyFiles and call sites with chosen compile-time
     file names in JSON/logfmt/colored records) plus seeded random histories over random
     directories, regexps and byte strings are executed by the Go worker, each query repeated
     (Go randomises map iteration order: a library that folds the table in map order shows its other
     results within a few repetitions) and the distinct results recorded;
  4. TLC validates the recording: every observed result must be in Outputs(state, input, {});
     a result outside it is classified by the spec (known deviation class / unexplained).
"""
import concurrent.futures
import json
import os
import random
import sys
import time

import corelib
from vlib import Undecided, edge_cover, parse_action, read_ndjson
from tlagen import tla

INVARIANTS = ["TypeOK", "Total", "NoProtectedPrefix", "ShortFormUsed", "InnerDirHidden", "OutsideUnchanged", "OrderIndependent",
              "OrderOnlyIfNested", "RegexpGated", "LostWdHardened"]
# deviation -> the invariant TLC must report as violated when only that deviation is enabled
WITNESS = {"NoBoundary": "OutsideUnchanged", "ReplaceAll": "ShortFormUsed", "RawTable": "NoProtectedPrefix",
           "StopRel": "NoProtectedPrefix", "StaleWd": "OutsideUnchanged", "LostWdRaw": "NoProtectedPrefix",
           "MapOrder": "InnerDirHidden", "HardVol": "OutsideUnchanged"}
# class printed by the trace spec -> finding key
KEYS = {"empty-prefix": "empty-home-prefix", "root-prefix": "root-dir-prefix",
        "home-exposed": "home-exposed-after-unregister", "prefix-without-boundary": "prefix-without-boundary",
        "inner-occurrence-rewritten": "inner-occurrence-rewritten", "panic": "panic", "length": "SafetyFiles:length",
        "privacy-flag-off-by-default": "privacy-flag-off-by-default",
        "stale-working-directory": "stale-working-directory", "relative-path-not-hardened": "relative-path-not-hardened",
        "unhardened-without-working-directory": "unhardened-without-working-directory",
        "nested-mappings-order": "nested-mappings-order", "hardwired-volumes-rule": "hardwired-volumes-rule"}
VIAS = ["Safety", "SafetyFiles", "caller-json", "caller-logfmt", "caller-color"]


def note(ctx, msg):
    if os.environ.get("C18_TIMING"):
        print("[%6.1fs] %s" % (time.time() - ctx.t0, msg), file=sys.stderr, flush=True)


def B(s):
    return list(s.encode("latin-1")) if isinstance(s, str) else list(s)


def S(b):
    return bytes(b).decode("latin-1")


VOLRX = dict(anch=False, lit=B("/Volumes/"), wild=True, repl=B("~"))
HOME, CWD = "/vhome/user", "/usr/lib"

# (the third differs from the first in letter case only: keys are compared byte for byte)
STD_MAPS = [("/srv/secret", "$S"), ("/vhome/user/work", "~work"), ("/srv/Secret", "$U"), ("/srv/sec", "$C"),
            ("/srv/secret/app", "$A"), ("/srv/secret", "$T"), ("/usr/lib/go", "$G")]
# relative directories (the file names of a -trimpath build are relative): a nested pair and one that
# shares only a string prefix with the first
REL_MAPS = [("build/secretproj", "~sp"), ("build/secretproj/cmd", "~cmd"), ("build/sec", "%b")]
# directories the process changes to after start (they must exist: the worker really calls os.Chdir)
STD_DIRS = ["/usr", "/etc", CWD, "/", "/usr/share"]
STD_RXS = [VOLRX, dict(anch=True, lit=B("/srv/"), wild=True, repl=B("@")),
           dict(anch=False, lit=B("/secret/"), wild=False, repl=B("/S/"))]
STD_INPUTS = ["/vhome/user/a.go", "/vhome/userx/a.go", "/vhome/user/p/vhome/user/q.go", "/vhome/user",
              "/vhome/user/work/w.go", "/vhome/user/workshop/w.go", "/srv/secret/app/m.go", "/srv/secretx/m.go",
              "/srv/secret/k/srv/secret/m.go", "/srv/sec/z.go", "/usr/lib/go/x.go", "/usr/lib64/x.go", "/usr/lib",
              "/usr/x.go", "/opt/other/z.go", "rel/a.go", "", "/", "/Volumes/vWork/work/a.go", "/Volumes/solo",
              "/x/Volumes/v/w/a.go", "/vhome/user/Volumes/v/w.go", "/opt//other/./z.go", "/usr/lib/../x.go",
              "/vhome/user/", "vhome/user/a.go", "/mnt/vhome/user/a.go", "/srv/Secret/app/m.go",
              # relative paths under / only string-prefixed by a relative directory, outside; the absolute twin
              "build/secretproj/cmd/main.go", "build/secretprojx/main.go", "build/other/a.go", "/build/secretproj/a.go", "/etc/x.go"]
# the universe of the scenario that concentrates on relative paths and on the working directory
RELWD_INPUTS = ["/vhome/user/a.go", "/usr/lib/go/x.go", "/usr/lib64/x.go", "/usr/lib", "/usr/x.go", "/opt/other/z.go", "rel/a.go",
                "", "/", "/usr/lib/../x.go", "vhome/user/a.go",
                # relative paths: under / equal to / only string-prefixed by / containing a relative directory, outside
                "build/secretproj/cmd/main.go", "build/secretproj/x.go", "build/secretproj", "build/secretprojx/main.go",
                "build/secretproj/k/build/secretproj/m.go", "x/build/secretproj/a.go", "build/other/a.go", "./a.go", "../x/y.go",
                # the absolute twin of a relative directory; paths near the directories the process changes to
                "/build/secretproj/a.go", "/usr/share/doc/x.go", "/etc/x.go", "/x.go"]
STD_SITES = ["homeA", "homeX", "homeInner", "homeWork", "homeWorkshop", "secApp", "secX", "secInner", "cwdIn", "cwdX",
             "cwdUp", "other", "vol", "volInner", "homeVol"]
RX_ASSUMES = ["HasCovered", "HasShorterRel", "HasRxMatch"]
RELWD_ASSUMES = ["HasRelCovered", "HasRelTwin", "HasRelStringPrefix", "HasRelOutside", "HasWdSensitive", "HasShorterRel",
                 "WitnessStopRel", "WitnessStaleWd", "WitnessLostWd"]
ALL_ASSUMES = ["HasCovered", "HasStringPrefix", "HasInner", "HasNested", "HasShorterRel", "HasRxMatch",
               "WitnessNoBoundary", "WitnessReplaceAll", "WitnessRawTable", "WitnessIdeal", "WitnessMapOrder", "WitnessHardVol"]


def scenarios(ctx):
    """The process environments and, per environment, the universes TLC explores."""
    q = ctx.quick()
    scratch = os.path.realpath(ctx.scratch)
    os.makedirs(os.path.join(scratch, "harness"), exist_ok=True)      # cwd sharing a string prefix with harness-src
    real_site = os.path.join(scratch, "harness-src", "fam_paths.go")
    tab_acts = ["AddMap", "RemoveMap", "ResetMap", "SetFlag"]
    rx_acts = ["AddRx", "RemoveRx", "ResetRx", "SetFlag", "ResetMap"]
    relwd_acts = ["AddMap", "RemoveMap", "SetFlag", "Chdir", "LoseWd"]
    nmaps = 3 if q else 6
    std = dict(home=HOME, cwd=CWD, maps=STD_MAPS[:nmaps], rxs=STD_RXS, inputs=STD_INPUTS, sites=STD_SITES,
               assumes=ALL_ASSUMES, dirs=STD_DIRS)
    # the two dimensions "relative directories / relative paths" and "the working directory changes after
    # start": a nested pair of relative directories added and removed, the preset cwd entry removed, chdir
    # to every directory of `dirs` (the start directory among them: leaving and coming back)
    relwd = dict(name="relwd", acts=relwd_acts if q else relwd_acts + ["ResetMap"], maxtab=4 if q else 5, maxrx=1,
                 maps=REL_MAPS[:2] if q else REL_MAPS, keys=[CWD, REL_MAPS[0][0]],
                 dirs=STD_DIRS[:3] if q else STD_DIRS, rxs=[VOLRX], assumes=RELWD_ASSUMES)
    res = []
    res.append(dict(std, name="std-test", testing=True, rand=(30, 12) if q else (400, 24),
                    mcs=[dict(name="tab", acts=tab_acts, maxtab=5 if q else 8, maxrx=1, maps=std["maps"], rxs=[VOLRX])] +
                        ([] if q else [dict(name="rx", acts=rx_acts, maxtab=8, maxrx=3, maps=[], rxs=STD_RXS, assumes=RX_ASSUMES)])))
    res.append(dict(std, name="std-prod", testing=False, rand=(30, 12) if q else (400, 24),
                    mcs=[dict(name="rx", acts=rx_acts, maxtab=8, maxrx=2 if q else 3, maps=[], rxs=STD_RXS[1:] if q else STD_RXS,
                              assumes=RX_ASSUMES)] +
                        ([] if q else [dict(name="tab", acts=tab_acts, maxtab=8, maxrx=1, maps=STD_MAPS[:3] + REL_MAPS[:1], rxs=[VOLRX])])))
    res.append(dict(std, name="std-relwd", testing=False, rand=(10, 12) if q else (200, 24), mcs=[relwd], inputs=RELWD_INPUTS,
                    sites=["homeA", "cwdIn", "cwdX", "cwdUp", "other"]))
    small_inputs = ["/srv/secret/app/m.go", "/srv/secretx/m.go", "/opt/other/z.go", "/usr/x.go", "rel/a.go", "", "/",
                    "/vhome/user/a.go", "/usr/lib/go/x.go", "/usr/lib64/x.go", "/Volumes/vWork/work/a.go",
                    "build/secretproj/cmd/main.go", "build/secretprojx/main.go", "/build/secretproj/a.go", "/etc/x.go"]
    small_maps = [("/srv/secret", "$S")] if q else [("/srv/secret", "$S"), ("/srv/sec", "$C"), REL_MAPS[0]]
    # $HOME unset: the library registers the empty string as the home prefix
    res.append(dict(name="nohome", home="", cwd=CWD, testing=True, maps=small_maps, rxs=[VOLRX], inputs=small_inputs,
                    sites=["secApp", "secX", "other", "cwdIn", "vol"], assumes=["HasCovered", "HasStringPrefix", "WitnessHardVol"],
                    rand=(6, 8) if q else (60, 16), ascii_only=True, dirs=["/usr", CWD],
                    mcs=[dict(name="tab", acts=tab_acts, maxtab=4 if q else 5, maxrx=1, maps=small_maps, rxs=[VOLRX])]))
    # working directory "/" (daemons, containers) which the process leaves later
    res.append(dict(name="rootcwd", home=HOME, cwd="/", testing=False, maps=small_maps, rxs=[VOLRX], inputs=small_inputs,
                    sites=["secApp", "secX", "other", "cwdIn", "homeA", "homeX"],
                    # every absolute path lies under the cwd entry "/" here - and $HOME is nested in it from the start
                    assumes=["HasCovered", "HasStringPrefix", "HasNested", "WitnessLostWd", "WitnessMapOrder"],
                    rand=(6, 8) if q else (60, 16), dirs=["/usr", "/", "/etc"],
                    mcs=[dict(name="tab", acts=tab_acts + ["Chdir", "LoseWd"], maxtab=4 if q else 5, maxrx=1, maps=small_maps, rxs=[VOLRX],
                              dirs=["/usr"] if q else ["/usr", "/", "/etc"])]))
    # $HOME = the scratch directory, cwd = <scratch>/harness: the real source file of the worker
    # (<scratch>/harness-src/fam_paths.go) lies under home and shares only a string prefix with cwd;
    # a mapping for <scratch>/harness-src nests inside home
    # the process later changes into the source directory and into the parent of the scratch directory
    sm = [(os.path.join(scratch, "harness-src"), "$H")]
    sd = [os.path.join(scratch, "harness-src"), os.path.dirname(scratch), os.path.join(scratch, "harness")]
    res.append(dict(name="scratch", home=scratch, cwd=os.path.join(scratch, "harness"), testing=True, maps=sm, rxs=[VOLRX],
                    inputs=[real_site, scratch + "/harness/x.go", scratch + "x/y.go", "/opt/other/z.go", scratch + "/z.go",
                            "harness-src/fam_paths.go", "fam_paths.go"],
                    sites=["real", "other"], assumes=["HasCovered", "HasStringPrefix", "HasNested", "HasWdSensitive", "WitnessLostWd", "WitnessMapOrder"],
                    rand=(4, 8) if q else (40, 16), scratch=scratch, dirs=sd,
                    mcs=[dict(name="tab", acts=tab_acts + ["Chdir", "LoseWd"], maxtab=4, maxrx=1, maps=sm, rxs=[VOLRX],
                              dirs=sd[:2] if q else sd)]))
    for sc in res:
        for d in set(sc["dirs"] + [sc["cwd"]] + [d for mc in sc["mcs"] for d in mc.get("dirs", [])]):
            if not os.path.isdir(d) or os.path.realpath(d) != d:
                raise Undecided("scenario %s needs the directory %s (existing, no symbolic links) for os.Chdir" % (sc["name"], d))
    return res


# ---------------------------------------------------------------------------- TLC side

def consts_of(sc, mc, devs=()):
    maps = [dict(k=B(k), v=B(v)) for k, v in mc["maps"]]
    keys = []
    for k in ([B(k) for k in mc["keys"]] if "keys" in mc else [m["k"] for m in maps] + [B(sc["home"]), B(sc["cwd"])]):
        if k not in keys:                 # the empty directory (HOME unset) can be removed as well
            keys.append(k)
    return dict(Home=B(sc["home"]), Cwd=B(sc["cwd"]), Testing=sc["testing"], MapSeq=maps, KeySeq=keys,
                DirSeq=[B(d) for d in mc.get("dirs", [])], RxSeq=mc["rxs"], Inputs=set(tuple(B(x)) for x in sc["inputs"]), MaxTab=mc["maxtab"],
                MaxRx=mc["maxrx"], Acts=set(mc["acts"]), Devs=set(devs))


def gen(module, extends, consts, cfg_lines, assumes=(), comments=()):
    body = ["---- MODULE %s ----" % module, "EXTENDS %s" % extends, ""]
    body += ["\\* " + c for c in comments]
    cfg = ["CONSTANTS"]
    for k, v in consts.items():
        body.append("c_%s == %s" % (k, tla(v)))
        cfg.append("  %s <- c_%s" % (k, k))
    body += ["ASSUME " + a for a in assumes]
    body.append("====")
    return "\n".join(body) + "\n", "\n".join(cfg + list(cfg_lines)) + "\n"


def label_to_event(label, consts):
    name, a = parse_action(label)
    if name == "AddMap":
        m = consts["MapSeq"][a[0] - 1]
        return dict(op="AddMap", k=m["k"], v=m["v"])
    if name == "RemoveMap":
        return dict(op="RemoveMap", k=consts["KeySeq"][a[0] - 1])
    if name in ("AddRx", "RemoveRx"):
        return dict(op=name, r=consts["RxSeq"][a[0] - 1])
    if name in ("ResetMap", "ResetRx"):
        return dict(op=name)
    if name == "Chdir":
        return dict(op="Chdir", d=consts["DirSeq"][a[0] - 1])
    if name == "LoseWd":
        return dict(op="LoseWd")
    if name == "SetFlag":
        return dict(op="SetFlag", f=a[0], on=a[1])
    raise Undecided("unknown action label %r" % label)


def model_check(ctx, sc, mc):
    """Exhaustive run of one configuration; returns edge-cover behaviours (lists of events)."""
    consts = consts_of(sc, mc)
    comments = ["scenario %s / %s: HOME=%r cwd=%r testing=%s" % (sc["name"], mc["name"], sc["home"], sc["cwd"], sc["testing"])]
    comments += ["input %r" % x for x in sc["inputs"]]
    mod, cfg = gen("MC", "Paths", consts, ["INIT Init", "NEXT Next", "ALIAS DumpAlias", "INVARIANTS " + " ".join(INVARIANTS)],
                   assumes=mc.get("assumes", sc["assumes"]) + ["UnderAgree"], comments=comments)
    name = "mc-%s-%s" % (sc["name"], mc["name"])
    dot = os.path.join(ctx.scratch, name)
    # ctx.tlc, not ctx.model_check: this runs in a thread, the caller adds the counts
    r = ctx.tlc("MC", "MC.cfg", files={"MC.tla": mod, "MC.cfg": cfg}, extra=["-dump", "dot,actionlabels", dot],
                name=name, workers=4, timeout=1500)
    note(ctx, "%s: %d distinct states in %.1fs" % (name, r.distinct, r.wall))
    nodes, edges, inits = corelib.parse_dot_edges(dot + ".dot")
    covers, unvisited = edge_cover(nodes, edges, inits, max_len=40)
    if unvisited:
        raise Undecided("%s: edge cover incomplete (%d edges)" % (name, unvisited))
    evs = [label_to_event(lbl, consts) for (_, lbl, _) in edges]
    kinds = set(e["op"] for e in evs)
    missing = set(mc["acts"]) - kinds
    if missing:
        raise Undecided("%s: actions never taken in the model: %s" % (name, sorted(missing)))
    return dict(name=name, states=len(nodes), edges=len(edges), behaviours=[[evs[i] for i in b] for b in covers],
                distinct=r.distinct, generated=r.generated)


def witness(ctx, sc, mc, dev):
    consts = consts_of(sc, mc, devs=[dev])
    mod, cfg = gen("MCW", "Paths", consts, ["INIT Init", "NEXT Next", "INVARIANTS " + WITNESS[dev]])
    r = ctx.tlc("MCW", "MCW.cfg", files={"MCW.tla": mod, "MCW.cfg": cfg}, name="witness-" + dev, workers=2,
                allow_fail=True, timeout=600)
    if WITNESS[dev] not in r.invariant_violated:
        raise Undecided("witness run: deviation %s does not violate %s (vacuous invariant?)\n%s" % (dev, WITNESS[dev], r.out[-2000:]))
    return dev


# ---------------------------------------------------------------------------- scripts

def queries(sc, reps_sites, turn=None):
    """The probe issued after a configuration call: every input through Safety, and (all of them in a
    start state, otherwise taking turns) every input through SafetyFiles and every call site in the
    three record formats."""
    n = len(sc["inputs"])
    ix = list(range(1, n + 1))
    qs = [dict(op="Q", via="Safety", ix=ix)]
    others = [dict(op="Q", via="SafetyFiles", ix=ix, reps=8)]
    for via in ("caller-json", "caller-logfmt", "caller-color"):
        others.append(dict(op="Q", via=via, site=sc["sites"], reps=reps_sites))
    return qs + (others if turn is None else [others[turn % len(others)]])


SEGS = ["a", "ab", "abc", "b", "a.b", "c-d", "~", "x y", "src", "go"]
REL_HEADS = ["build", "pkg", "github.com", "src", "a", "usr"]      # first segment of a random relative directory
SHORTS = ["~", "$K", "@w", ".", "#", "~proj", "%"]


def random_behaviours(sc, rng, count, depth):
    """Seeded random histories over random directories / regexps / paths (wider than the model's universe)."""
    home, cwd = sc["home"], sc["cwd"]
    ascii_only = sc.get("ascii_only", False)

    def rdir():
        base = rng.choice(["", "", "", home, cwd if cwd != "/" else "", "/srv"])
        d = base + "".join("/" + rng.choice(SEGS) for _ in range(rng.randint(0 if base else 1, 2)))
        return d or "/a"

    def rreldir():
        return rng.choice(REL_HEADS) + "".join("/" + rng.choice(SEGS) for _ in range(rng.randint(0, 2)))

    def near(d):
        """an absolute path in, next to or above directory d"""
        up = os.path.dirname(d)
        return rng.choice([d, d, up, up, os.path.dirname(up)]).rstrip("/") + rng.choice(["", "/" + rng.choice(SEGS)]) + "/"

    def rpath(dirs):
        c = rng.random()
        d = rng.choice(dirs) if dirs else "/a"
        leaf = rng.choice(["f.go", "main.go", "x", "a"])
        if c < 0.07:
            return near(rng.choice([wd[0], wd[0], cwd])) + leaf                       # close to the current / the start directory
        if c < 0.10 and not d.startswith("/"):
            return "/" + d + "/" + leaf                                               # absolute twin of a relative directory
        if c < 0.25:
            return d + "/" + leaf
        if c < 0.40:
            return d + rng.choice(["x", "2", ".bak", "-src"]) + "/" + leaf            # string prefix only
        if c < 0.50:
            return d + "/p" + d + "/" + leaf                                          # inner occurrence
        if c < 0.53:
            return "/q" + d + "/" + leaf                                              # occurrence in the middle only
        if c < 0.55:
            return d
        if c < 0.60:
            return d + "/"
        if c < 0.68:
            return rdir() + "/" + leaf
        if c < 0.74:
            return rng.choice(["", ".", "..", "a/b.go", "./a.go", "../x/y.go", d[1:] + "/" + leaf])
        if c < 0.82:
            return rng.choice(["/Volumes/v1/w/" + leaf, "/Volumes/v1", "/Volumes//x/" + leaf, "/q/Volumes/v/w/" + leaf,
                               d + "/Volumes/v/" + leaf, "/Volumes/v1/"])
        if c < 0.90:
            return d + rng.choice(["//", "/./", "/../", "/a/../"]) + leaf                # unclean
        n = rng.randint(1, 12)
        if ascii_only:
            return "/" + "".join(chr(rng.choice([47, 46, 97, 98, 126, 32, 92, 34])) for _ in range(n))
        return rng.choice(["/", ""]) + "".join(chr(rng.randint(1, 255)) for _ in range(n))   # arbitrary bytes

    res = []
    wd = [cwd]
    for _ in range(count):
        tab = {home: "~", cwd: "."}
        dirs = [d for d in (home, cwd) if d]
        wd[0] = cwd
        rxs = [VOLRX]
        beh = []
        for _ in range(depth):
            c = rng.random()
            if c < 0.34 and len(tab) < 5:
                d = rng.choice(dirs) if dirs and rng.random() < 0.3 else rdir()
                if rng.random() < 0.25:
                    d = rreldir()                                                       # relative directory
                if rng.random() < 0.3 and dirs:
                    d = rng.choice(dirs).rstrip("/") + "/" + rng.choice(SEGS)           # nested
                v = rng.choice(SHORTS)
                tab[d] = v
                if d not in dirs:
                    dirs.append(d)
                beh.append(dict(op="AddMap", k=B(d), v=B(v)))
            elif c < 0.50:
                d = rng.choice(sorted(tab) or dirs or ["/a"]) if rng.random() < 0.8 else rdir()
                tab.pop(d, None)
                beh.append(dict(op="RemoveMap", k=B(d)))
            elif c < 0.55:
                tab.clear()
                beh.append(dict(op="ResetMap"))
            elif c < 0.67 and len(rxs) < 4:
                r = dict(anch=rng.random() < 0.5, lit=B(rng.choice(["/" + rng.choice(SEGS) + "/", rdir() + "/", "/Volumes/"])),
                         wild=rng.random() < 0.6, repl=B(rng.choice(["~", "@", "/R/", "", "%v"])))
                rxs.append(r)
                beh.append(dict(op="AddRx", r=r))
            elif c < 0.75:
                r = rng.choice(rxs) if rxs else VOLRX
                rxs = [x for x in rxs if x is not r]
                beh.append(dict(op="RemoveRx", r=r))
            elif c < 0.78:
                rxs = []
                beh.append(dict(op="ResetRx"))
            elif c < 0.88:
                beh.append(dict(op="SetFlag", f=rng.choice(["path", "regexp"]), on=rng.random() < 0.6))
            elif c < 0.95:
                wd[0] = rng.choice(sc["dirs"])
                beh.append(dict(op="Chdir", d=B(wd[0])))
            elif c < 0.98:
                wd[0] = cwd                                 # (only used to draw paths "near" a directory)
                beh.append(dict(op="LoseWd"))
            else:
                continue
            ins = [B(rpath(dirs)) for _ in range(rng.randint(3, 8))]
            beh.append(dict(op="Q", via="Safety", ins=ins))
            if rng.random() < 0.3:
                k = rng.randint(0, len(ins))
                beh.append(dict(op="Q", via="SafetyFiles", ins=ins[:k], reps=8))
            if rng.random() < 0.15 and sc["sites"]:
                beh.append(dict(op="Q", via=rng.choice(VIAS[2:]), site=rng.sample(sc["sites"], min(3, len(sc["sites"]))), reps=8))
        if beh:
            res.append(beh)
    return res


# ---------------------------------------------------------------------------- execute + validate

def execute(ctx, sc, behaviours, tag, reps=64):
    script = dict(reps=reps, inputs=[B(x) for x in sc["inputs"]], behaviours=behaviours)
    sp = os.path.join(ctx.scratch, "script-%s.json" % tag)
    with open(sp, "w") as fh:
        json.dump(script, fh)
    tp = os.path.join(ctx.scratch, "trace-%s.ndjson" % tag)
    ctx.run_worker(["paths", sp, tp], testing=sc["testing"], timeout=1800, cwd=sc["cwd"],
                   env={"HOME": sc["home"], "PWD": sc["cwd"]})
    return tp


CHUNK = 800      # trace lines validated by one TLC process


def validate_chunk(ctx, sc, lines, tag):
    consts = dict(Home=B(sc["home"]), Cwd=B(sc["cwd"]), Testing=sc["testing"], MapSeq=[], KeySeq=[], DirSeq=[], RxSeq=[],
                  Inputs=set(), MaxTab=999, MaxRx=999, Acts=set(), Devs=set(), TraceFile="trace.ndjson",
                  InputSeq=[B(x) for x in sc["inputs"]])
    mod, cfg = gen("MCT", "PathsTrace", consts, ["SPECIFICATION TSpec", "INVARIANTS Done TTypeOK", "CHECK_DEADLOCK FALSE"])
    r = ctx.tlc("MCT", "MCT.cfg", files={"MCT.tla": mod, "MCT.cfg": cfg, "trace.ndjson": "".join(lines)}, workers=1,
                name="trace-" + tag, timeout=3000, heap="3g", allow_fail=True)
    if r.invariant_violated:
        raise Undecided("trace %s: model invariant %s violated on a recorded behaviour:\n%s" % (tag, r.invariant_violated, r.out[-3000:]))
    if not r.ok:
        raise Undecided("trace validation %s failed:\n%s" % (tag, r.out[-5000:]))
    bad, stats = r.prints("bad"), r.prints("stats")
    if len(bad) != 1 or len(stats) != 1:
        raise Undecided("trace validation %s did not reach the end of the log:\n%s" % (tag, r.out[-3000:]))
    return bad[0], stats[0]


def validate(ctx, sc, tp, tag, pool=None):
    """TLC validation of a recorded trace; behaviours are independent (each starts with Init/Reset), so
    the log is cut at behaviour boundaries and the pieces are validated in parallel."""
    with open(tp) as fh:
        lines = fh.readlines()
    chunks, cur, start = [], [], 0
    for n, line in enumerate(lines):
        if cur and len(cur) >= CHUNK and (line.startswith('{"cwd"') or '"op":"Reset"' in line[-40:] or '"op":"Init"' in line[-40:]):
            chunks.append((start, cur))
            cur, start = [], n
        cur.append(line)
    if cur:
        chunks.append((start, cur))
    if pool is None or len(chunks) == 1:
        results = [validate_chunk(ctx, sc, c, "%s-%d" % (tag, k)) for k, (_, c) in enumerate(chunks)]
    else:
        results = [f.result() for f in [pool.submit(validate_chunk, ctx, sc, c, "%s-%d" % (tag, k)) for k, (_, c) in enumerate(chunks)]]
    bad, stats = {}, dict(alts=0, seen=0, queries=0)
    for (off, _), (b, st) in zip(chunks, results):
        for cls, info in b.items():
            t = bad.setdefault(cls, dict(n=0, ex=[]))
            t["n"] += info["n"]
            for ex in info["ex"]:
                if len(t["ex"]) < 8:
                    t["ex"].append(dict(ex, line=ex["line"] + off))
        for k in stats:
            stats[k] += st[k]
    return bad, stats


def ins_of(sc, row):
    if "ix" in row:
        return [B(sc["inputs"][x - 1]) for x in row["ix"]]
    return row.get("ins", [])


def locate(behaviours, line):
    """Trace line number (1-based) -> (behaviour index, number of events of it consumed)."""
    n = 0
    for bi, beh in enumerate(behaviours):
        if line <= n + 1 + len(beh):
            return bi, line - n - 1
        n += 1 + len(beh)
    raise Undecided("trace line %d beyond the script" % line)


def account(ctx, sc, behaviours, rows, bad, stats, tag, counts):
    for row in rows:
        if "harness_error" in row:
            raise Undecided("worker could not decode a record: %s" % row["harness_error"])
    if bad["environment"]["n"]:
        raise Undecided("%s: process environment differs from the scenario: %s" % (tag, bad["environment"]["ex"][:1]))
    for cls, info in sorted(bad.items()):
        if not info["n"] or cls == "environment":
            continue
        counts[cls] = counts.get(cls, 0) + info["n"]
        for ex in info["ex"]:
            bi, upto = locate(behaviours, ex["line"])
            row = rows[ex["line"] - 1]
            via = row.get("via", "")
            key = KEYS.get(cls, "unexplained:" + via)
            inp = S(ins_of(sc, row)[ex["idx"] - 1]) if ex["idx"] else ""
            got = [S(g) if g and isinstance(g[0], int) else g for g in ex["got"]]
            what = "scenario %s (HOME=%r cwd=%r testing=%s), after %d call(s), %s(%r) gave %r; the specification allows %r%s" % (
                sc["name"], sc["home"], sc["cwd"], sc["testing"], upto - 1, via or row["op"], inp, got,
                sorted(S(e) for e in ex["expected"]), (" [panic: %s]" % row["panic"]) if "panic" in row else "")
            beh = behaviours[bi][:upto]
            # keep the configuration calls and the failing query only
            beh = [e for e in beh[:-1] if e["op"] != "Q"] + beh[-1:]
            ctx.finding(key, what, dict(kind="paths", scenario=sc["name"], tier=ctx.tier, scratch=sc.get("scratch"),
                                        behaviour=beh, inputs=[B(x) for x in sc["inputs"]], observed=got, input=inp,
                                        expected=sorted(S(e) for e in ex["expected"]), cls=cls))
    counts["_alts"] = counts.get("_alts", 0) + stats["alts"]
    counts["_seen"] = counts.get("_seen", 0) + stats["seen"]


def measure(sc, rows, nontrivial):
    for row in rows:
        if row["op"] != "Q" or "outs" not in row:
            continue
        via = row["via"]
        for x, inp in enumerate(ins_of(sc, row)):
            for o in (row["outs"][x] if x < len(row.get("outs", [])) else []):
                if o != inp:
                    nontrivial.add((via, bytes(inp), bytes(o)))


def run_scenario(ctx, sc, mcs, pool):
    """Steps 3 and 4 for one scenario (runs in a thread; touches no shared counters)."""
    q = ctx.quick()
    reps = 32 if q else 64
    rs = 4 if q else 8
    behaviours, turn = [], 0
    for m in mcs:
        for bi, beh in enumerate(m["behaviours"]):
            b2 = list(queries(sc, rs)) if bi == 0 else []          # the genuine start state
            for ev in beh:
                b2.append(ev)
                b2.extend(queries(sc, rs, turn))
                turn += 1
            behaviours.append(b2)
    n_cover = len(behaviours)
    rng = random.Random(ctx.seed * 1000003 + sum(map(ord, sc["name"])))
    behaviours += random_behaviours(sc, rng, *sc["rand"])
    note(ctx, "%s: executing %d behaviours" % (sc["name"], len(behaviours)))
    tp = execute(ctx, sc, behaviours, sc["name"], reps=reps)
    note(ctx, "%s: executed, trace %d bytes" % (sc["name"], os.path.getsize(tp)))
    rows = read_ndjson(tp)
    events = [ev for b in behaviours for ev in [None] + b]
    if len(rows) != len(events):
        raise Undecided("%s: worker wrote %d lines for %d events" % (sc["name"], len(rows), len(events)))
    bad, stats = validate(ctx, sc, tp, sc["name"], pool)
    note(ctx, "%s: validated" % sc["name"])
    calls = sum(len(ins_of(sc, row)) * (ev.get("reps") or reps) for row, ev in zip(rows, events)
                if ev is not None and row["op"] == "Q")
    info = dict(scenario=sc["name"], graphs=[dict(name=m["name"], states=m["states"], edges=m["edges"],
                                                  cover_behaviours=len(m["behaviours"])) for m in mcs],
                random_behaviours=len(behaviours) - n_cover, trace_lines=len(rows),
                query_lines=sum(1 for r in rows if r["op"] == "Q"),
                order_dependent_results_allowed=stats["alts"], order_dependent_results_seen=stats["seen"],      # queries under nested mappings / answered as specified
                init_fr=rows[0].get("fr"))
    return dict(sc=sc, behaviours=behaviours, rows=rows, bad=bad, stats=stats, calls=calls, info=info)


def run(ctx, replay):
    ctx.worker()                                # also creates <scratch>/harness-src used by the "scratch" scenario
    if replay:
        return run_replay(ctx, replay)
    scs = scenarios(ctx)
    counts, nontrivial, infos = {}, set(), []
    wmc = dict(name="w", acts=["AddMap", "RemoveMap", "ResetMap", "SetFlag", "Chdir", "LoseWd"], maxtab=6, maxrx=1,
               maps=STD_MAPS[:3] + REL_MAPS[:1], dirs=STD_DIRS[:2], rxs=[VOLRX])
    with concurrent.futures.ThreadPoolExecutor(max_workers=10) as tlc_pool, \
            concurrent.futures.ThreadPoolExecutor(max_workers=8) as sc_pool:
        wf = [] if ctx.quick() else [tlc_pool.submit(witness, ctx, scs[0], wmc, d) for d in sorted(WITNESS)]
        mf = [[tlc_pool.submit(model_check, ctx, sc, mc) for mc in sc["mcs"]] for sc in scs]
        sf = [sc_pool.submit(lambda sc=sc, fs=fs: run_scenario(ctx, sc, [f.result() for f in fs], tlc_pool)) for sc, fs in zip(scs, mf)]
        ctx.extra["deviation_witnesses"] = ["ASSUME WitnessNoBoundary WitnessReplaceAll WitnessRawTable WitnessIdeal (std scenario)",
                                             "ASSUME WitnessStopRel WitnessStaleWd WitnessLostWd (std scenario, configuration relwd; "
                                             "WitnessLostWd also in rootcwd and scratch)"] + \
            ["TLC run: %s violates %s" % (f.result(), WITNESS[f.result()]) for f in wf]
        results = [f.result() for f in sf]
    for fs in mf:
        for f in fs:
            ctx.states += f.result()["distinct"]
            ctx.transitions += f.result()["generated"]
    for res in results:
        sc = res["sc"]
        if res["info"]["init_fr"] != (not sc["testing"]):
            raise Undecided("scenario %s: Lprivacypathregexp at start is %s, the model assumes %s" % (
                sc["name"], res["info"]["init_fr"], not sc["testing"]))
        account(ctx, sc, res["behaviours"], res["rows"], res["bad"], res["stats"], sc["name"], counts)
        measure(sc, res["rows"], nontrivial)
        ctx.traces += len(res["behaviours"])
        ctx.evaluations += res["calls"]
        infos.append(res["info"])
    ctx.nontrivial = len(nontrivial)
    ctx.extra["scenarios"] = infos
    ctx.extra["deviation_observations"] = {KEYS.get(k, k): v for k, v in counts.items() if not k.startswith("_")}
    # the queries of paths that NESTED mappings cover (a fold in map iteration order would have several
    # results there; the specification allows one): how many were issued - each repeated 32/64 times, the
    # order of the map being drawn anew by the runtime for every call - and for how many the implementation
    # showed the allowed result
    ctx.extra["order_coverage"] = dict(order_sensitive_queries=counts.get("_alts", 0), with_allowed_result=counts.get("_seen", 0))
    need = [r["info"] for r in results if r["sc"]["name"] in ("std-test", "std-prod", "rootcwd", "scratch")]
    if not ctx.violations and any(not i["order_dependent_results_allowed"] for i in need):
        raise Undecided("no query of a path under nested mappings in some scenario: %s" % [
            (i["scenario"], i["order_dependent_results_allowed"]) for i in need])
    for t in sorted(nontrivial)[:3]:
        ctx.sample(dict(via=t[0], input=t[1].decode("latin-1"), output=t[2].decode("latin-1")))
    ctx.assumptions += [
        "registered directories are clean byte strings, absolute or relative; 'lies under' is the textual (segment prefix) relation, a relative directory covers relative paths only; short forms do not start with '/' (a short form that is itself a protected directory is outside the model)",
        "regexp mappings are of the shape ^?<literal>([^/]+/)? with a literal replacement",
        "HOME and the working directory at start are set by the check; the process changes its working directory only through the Chdir events of the script, to existing directories without symbolic links (the worker records os.Getwd() after each and the trace specification compares)",
        "LoseWd: the worker changes into a fresh directory of the check's scratch space and removes it; os.Getwd() must fail afterwards (recorded, compared by the trace specification: a platform where it does not is an Undecided run, not a violation)",
        "relative file names reach the library through Safety/SafetyFiles only: the call sites of the worker are compiled without -trimpath, so their compile-time file names are absolute",
        "map iteration order cannot be forced: every query is repeated (32/64 times; the runtime draws the start of a map iteration at random for every call) and histories with removals/re-insertions permute slot order; the specification allows ONE hardened string whatever the order, so an order-dependent result is missed only if all repetitions of all queries of a nested path drew the same order",
        "with nested registered directories the innermost one is the one to be replaced (the only result for which no covering directory is reported, as prefix or by name); the hardened string is not hardened a second time (a short form that makes the result lie under another registered relative directory is outside the model)",
        "Lprivacypathregexp off means no regexp rule is in force: a path under no prefix mapping is then 'outside all mappings', also one that a registered regexp would match",
        "$HOME is treated as always protected while Lprivacypath is on (literal reading of the statement); exposure after Reset/Remove is reported under its own key",
    ]
    return ctx.finish(rule="per scenario (HOME/cwd/process mode): every transition of the exhaustive TLC graphs over "
                           "Add/Remove/Reset of mappings (absolute and relative directories), regexps, both privacy flags, "
                           "os.Chdir and the loss of the working directory executed on the library with all input paths (absolute and relative) queried after each (Safety, SafetyFiles, call sites in 3 formats, each repeated), plus "
                           "seeded random histories; every distinct observed result validated by TLC against Outputs(); "
                           "non-trivial = distinct (via, input, output) with output != input",
                      exhaustive=True)


def run_replay(ctx, path):
    with open(path) as fh:
        rp = json.load(fh)["replay"]
    scs = {s["name"]: s for s in scenarios(ctx)}
    sc = scs[rp["scenario"]]
    beh, inputs = rp["behaviour"], rp["inputs"]
    if rp.get("scratch") and rp["scratch"] != sc.get("scratch"):
        old, new = B(rp["scratch"]), B(sc["scratch"])

        def fix(v):
            if isinstance(v, list) and v and all(isinstance(x, int) for x in v):
                s = bytes(v)
                return list(s.replace(bytes(old), bytes(new)))
            if isinstance(v, list):
                return [fix(x) for x in v]
            if isinstance(v, dict):
                return {k: fix(x) for k, x in v.items()}
            return v
        beh, inputs = fix(beh), fix(inputs)
    sc = dict(sc, inputs=[S(x) for x in inputs])
    tp = execute(ctx, sc, [beh], "replay", reps=256)
    rows = read_ndjson(tp)
    bad, stats = validate(ctx, sc, tp, "replay")
    counts = {}
    account(ctx, sc, [beh], rows, bad, stats, "replay", counts)
    ctx.traces += 1
    ctx.evaluations += sum(len(ins_of(sc, r)) for r in rows if r["op"] == "Q")
    return ctx.finish(rule="replay of one recorded behaviour", exhaustive=False)
