"""Shared pipeline of the encoder family: C04 (JSON), C05 (logfmt), C06 (colored console).

  1. TLC checks spec/Encoder.tla exhaustively (escape-class table: Legal, OneLine, RoundTrip,
     NoForgery, NoRawControl; every attribute tree of the builder machine: MergeSorted,
     MergeLastWins, MergeIdempotent, MembersCount, PairsAscending, PairsComplete, ColourOK) and
     prints every tree it enumerated plus the vocabulary (classes, kinds, must-escape sets);
     witness runs show that the invariants can fail (Go-syntax escaper under the JSON grammar,
     CR inside the coloured first line).
  2. Abstract records are generated: one cell per (position, character class), one per value
     kind, one per TLC-enumerated tree, a presentation grid (severity x tag width x minimal
     width x message shape x caller x name), CALLER-SITE cells (the record is attributed to a real call site
     of the worker behind a //line directive - table LINE_SITES below, generated into
     harness/fam_encoder_sites.go by `python3 checks/encoderlib.py gen-sites`: one cell per class of the
     file name (backslash / Windows path, quote, blank, TAB, CR, LF, control, ESC, non-ASCII ...) x site x
     message / attribute shapes; caller.file must decode to exactly slog.Safety(runtime's file)), RESERVED-NAME cells (time / level / msg / logger /
     caller as the own key of a group member at depth 1..3 x every value kind incl. group; every
     tree TLC enumerated over the keys {k01, time}; colored: the same names at top level), LEVEL
     COLOUR cells (SetLevelColors(sev, fg, bg): {no fg, fg} x {nothing, background, attribute} x
     built-in / registered / unregistered severities x messages of 1, 2, 3, 4 lines, blank lines,
     trailing breaks x attribute lists) and seeded random big records (<= 64 attributes, depth
     <= 4, reserved member keys and colour configurations mixed in).  Only ABSTRACT data is
     generated here - no expected output.
  3. The Go worker (harness/fam_encoder*.go) concretises each record, logs it through the real
     library, and projects the payload with independent decoders.
  4. TLC validates the recording against spec/EncoderTrace.tla: Diag(rec, obs) is the set of
     violated clauses, computed from the specification only.
  5. Every rejected record is named  <format>:<position>:<class-or-kind>[:<mode>]  from the cell
     it belongs to / the features TLC reports, and goes through ctx.finding().
  6. The same three properties over HISTORIES (spec/EncoderHist.tla, EncoderHistTrace.tla,
     EncoderHistMech.tla, harness/fam_enchist.go): see checks/enchistlib.py.
"""
import json
import os
import random

from vlib import Undecided, read_ndjson
from tlagen import gen_mc
import enchistlib

SEVS = [0, 1, 2, 3, 4, 5, 6, 8, 9, 10, 11, 17, 18, 33]      # Off (7) is not a severity to log at
TEXT_POS = ["string", "error", "stringer", "strs", "fallback", "bytes"]
SLICES = ["strs", "bools", "ints", "uints", "floats", "complexes", "durations", "times"]
KEY_CLASSES_TEXTFMT = ["plain", "nonascii", "astral", "markup", "bslash"]     # legal logfmt keys
ATTR_DIAGS = {"invalid-json", "members", "top-level-members", "unparsable", "pairs"}   # "the attribute list is wrong"
IMPLIED = {"after-group": {"group"}, "empty-group": {"group"}, "nested-group": {"group"}}
RESERVED = {"caller": -1, "level": 96, "logger": 97, "msg": 98, "time": 99}      # ReservedIds of Encoder.tla
RES_NAME = {v: k for k, v in RESERVED.items()}
RES_PLACES = ("member-key", "top-key", "empty-group-member")   # where a reserved name can be a key (feature prefixes of EncoderTrace)
SEV_COLOURED_UNREG = 34        # an unregistered severity whose colours get set (33 stays without any)
LC_COMBOS = [(f, b) for f in ("none", "fg") for b in ("none", "bg", "attr")]
NO_LC = dict(set=False, fg="none", bg="none")


# ------------------------------------------------------------------ call sites behind //line directives

ENC_S1, ENC_S2 = "pQz7", "7zQp"           # the sentinels of harness/fam_encoder.go


def _sp(ch, tail="main.go"):
    return "/opt/gen/%s%s%s/%s" % (ENC_S1, ch, ENC_S2, tail)


# (character class of Encoder.tla, file name of the directive, special character between the sentinels or "")
# What the Go toolchain (1.23) accepts in `//line file:line` / `/*line file:line*/`: any UTF-8 text - backslashes,
# quotes, blanks, TAB, CR, every other control character, ESC, DEL, non-ASCII, U+2028, astral code points; a line
# break in the block form only.  It refuses invalid UTF-8 ("invalid UTF-8 encoding"), NUL ("invalid NUL
# character") and U+FEFF ("invalid BOM in the middle of the file").  A relative name is reported as written.
LINE_SITES = [
    ("plain", "/opt/gen/app/cmd/main.go", ""),                       # the control: an ordinary POSIX path
    ("plain", _sp("w"), "w"),
    ("space", "/opt/My Projects/app/main.go", ""),
    ("space", _sp(" "), " "),
    ("quote", '/opt/gen/say "hi"/main.go', ""),
    ("quote", _sp('"'), '"'),
    ("bslash", "C:\\work\\app\\cmd\\main.go", ""),                 # \w \a \c \m: no JSON escapes
    ("bslash", "D:\\tmp\\new\\bin\\r.go", ""),                      # \t \n \b \r: JSON escapes of OTHER characters
    ("bslash", _sp("\\"), "\\"),
    ("bslash", 'C:\\Program Files\\"app"\\main.go', ""),
    ("TAB", _sp("\t"), "\t"),
    ("TAB", "/opt/gen/a\tb/main.go", ""),
    ("BSFF", _sp("\b"), "\b"),
    ("BSFF", _sp("\f"), "\f"),
    ("C0", _sp("\a"), "\a"),
    ("C0", _sp("\x01"), "\x01"),
    ("C0", _sp("\x1f"), "\x1f"),
    ("ESC", _sp("\x1b"), "\x1b"),
    ("ESC", "/opt/gen/a\x1b[31mb/main.go", ""),
    ("DEL", _sp("\x7f"), "\x7f"),
    ("CR", _sp("\r"), "\r"),
    ("LF", _sp("\n"), "\n"),                                          # block form /*line ...*/
    ("nonascii", _sp("\u00e9"), "\u00e9"),
    ("nonascii", "/opt/gen/caf\u00e9/\u4e2d\u6587.go", ""),
    ("npbmp", _sp("\u200b"), "\u200b"),
    ("C1", _sp("\u0085"), "\u0085"),                                 # a C1 control (NEL) in UTF-8
    ("lsep", _sp("\u2028"), "\u2028"),
    ("astral", _sp("\U0001f600"), "\U0001f600"),
    ("astralnp", _sp("\U000e0001"), "\U000e0001"),
    ("markup", _sp("<b>"), "<b>"),
    ("markup", _sp("&"), "&"),
    ("equals", _sp("="), "="),
]
SITE_VARIANTS = {}
for _c, _f, _pr in LINE_SITES:
    SITE_VARIANTS.setdefault(_c, []).append((_f, _pr))


def go_quote(s):
    out = ['"']
    for ch in s:
        o = ord(ch)
        if ch in '"\\':
            out.append("\\" + ch)
        elif 0x20 <= o < 0x7f:
            out.append(ch)
        elif o < 0x80:
            out.append("\\x%02x" % o)
        elif o < 0x10000:
            out.append("\\u%04x" % o)
        else:
            out.append("\\U%08x" % o)
    return "".join(out) + '"'


def line_directive(name, line):
    """The directive that attributes what follows to name:line (block form when the name has a line break)."""
    if "\n" in name:
        return "/*line %s:%d*/ " % (name, line), True
    return "//line %s:%d\n" % (name, line), False


def gen_line_sites(path=None):
    """Writes harness/fam_encoder_sites.go (`python3 checks/encoderlib.py gen-sites`).  NOT gofmt'ed: the
    directives carry raw TAB / CR / ESC / control bytes on purpose."""
    fname = "fam_encoder_sites.go"
    path = path or os.path.join(os.path.dirname(os.path.dirname(os.path.abspath(__file__))), "harness", fname)
    L = []           # physical lines (strings without the newline; a string may hold a raw CR etc. but no LF ...)

    def emit(text):
        # text may contain LF (block form of a directive): count physical lines faithfully
        L.extend(text.split("\n"))

    emit("// Code generated by `python3 checks/encoderlib.py gen-sites`; DO NOT EDIT, DO NOT gofmt (the //line")
    emit("// directives carry raw TAB / CR / ESC / control bytes on purpose).")
    emit("")
    emit("package main")
    emit("")
    emit("// Encoder family (C04 / C05 / C06): real call sites whose source position carries an unusual file")
    emit("// name - a Windows path, quotes, blanks, control characters, non-ASCII - exactly as generated code")
    emit("// with //line directives has them.  encSiteAt<k> captures a program counter of such a statement")
    emit("// (handed to Entry.WriteThru by the per-record component), enchSiteDo<k> logs from such a statement")
    emit("// through the public entry points (history component).  Table: LINE_SITES of checks/encoderlib.py.")
    emit("")
    emit("import (")
    emit('\t"runtime"')
    emit("")
    emit('\t"github.com/hedzr/logg/slog"')
    emit(")")
    emit("")
    call = ('_, f, ln, _ := runtime.Caller(0); if via == "ctx" { l.Logit(encBg, lvl, msg, args...) } else if via == "method" && '
            'lvl == slog.InfoLevel { l.Info(msg, args...) } else if via == "method" && lvl == slog.WarnLevel { l.Warn(msg, args...) } '
            'else { l.LogAttrs(encBg, lvl, msg, args...) }')
    for k, (cls, name, probe) in enumerate(LINE_SITES):
        for kind in ("at", "do"):
            line = 40 + k if kind == "at" else 140 + k
            emit("//go:noinline")
            if kind == "at":
                emit("func encSiteAt%d() (uintptr, string, int, string) {" % k)
                stmt = "return encSiteHere()"
            else:
                emit("func enchSiteDo%d(l *slog.Entry, via string, lvl slog.Level, msg string, args []any) (int, string, string) {" % k)
                stmt = call
            d, block = line_directive(name, line)
            if block:
                emit("\t" + d + stmt)
            else:
                emit(d + "\t" + stmt)
            if kind == "do":
                emit("\tpc, _, _, _ := runtime.Caller(0)")
                emit("\treturn ln, f, runtime.FuncForPC(pc).Name()")
            emit("//line %s:%d" % (fname, len(L) + 2))
            emit("}")
            emit("")
    emit("var encLineSites = []encLineSite{")
    for k, (cls, name, probe) in enumerate(LINE_SITES):
        emit("\t{cls: %s, file: %s, probe: %s, at: encSiteAt%d, do: enchSiteDo%d}," % (go_quote(cls), go_quote(name), go_quote(probe), k, k))
    emit("}")
    with open(path, "wb") as fh:
        fh.write(("\n".join(L) + "\n").encode("utf-8"))
    print("wrote", path)


# ------------------------------------------------------------------ model checking

def model_check(ctx, fmt):
    quick = ctx.quick()
    files = {}
    vocab_expr = ('[classes |-> Classes, kinds |-> Kinds, textkinds |-> TextKinds, control |-> ColorUnsafe, '
                  'layout |-> LayoutClasses, forms |-> Forms, envs |-> Envs, '
                  'must |-> [json |-> Classes \\ JsonRawOK, logfmt |-> Classes \\ GoRawOK, color |-> ColorUnsafe], '
                  'mechjsonbad |-> MechJsonBad, reserved |-> ReservedIds, fgonlybad |-> FgOnlyCloseBad, '
                  'siteclasses |-> SiteClasses, symbolcopybad |-> SymbolCopyBad, barelistbad |-> BareListBad, '
                  'halfswitchbad |-> HalfSwitchBad, topexcluded |-> [json |-> TopExcluded("json"), '
                  'logfmt |-> TopExcluded("logfmt"), color |-> TopExcluded("color")]]')
    mc = ("---- MODULE MC_Enc ----\nEXTENDS Encoder, Json\n"
          "c_KeyIds == {0, 1, 2, 3}\nc_KeyIds2 == {1, 2}\nc_KeyIdsR == {1, 99}\nc_KeyIdsR2 == {-1, 1, 98, 99}\n"
          'Export == PrintT("@@tree " \\o ToJson(flat))\n'
          'ASSUME PrintT("@@vocab " \\o ToJson(%s))\n====\n' % vocab_expr)
    invs = ("Legal RoundTrip OneLine NoForgery NoRawControl CallerRoundTrip StrListsAreOneToken PlainIsClean MergeSorted "
            "MergeLastWins MergeIdempotent MembersCount PairsAscending PairsComplete KeyNamesDoNotMatter FormDoesNotMatter "
            "ColourOK Export")
    cfg = ("CONSTANTS\n  KeyIds <- c_KeyIds\n  MaxNodes = %d\n  MaxDepth = %d\nINIT Init\nNEXT Next\n"
           "CHECK_DEADLOCK FALSE\nINVARIANTS %s\n" % (3 if quick else 4, 2 if quick else 3, invs))
    files["MC_Enc.tla"] = mc
    files["MC_Enc.cfg"] = cfg
    r = ctx.model_check("MC_Enc", "MC_Enc.cfg", files=files, name="enc-mc", timeout=800)
    trees = r.prints("tree")
    vocab = r.prints("vocab")
    if not vocab or len(trees) != r.distinct:
        raise Undecided("model run did not export vocabulary / all trees (%d of %d)" % (len(trees), r.distinct))
    vocab = vocab[0]
    # the same machine over the keys {k01, time}: the reserved name at every place of every small tree
    rcfg = ("CONSTANTS\n  KeyIds <- c_KeyIdsR\n  MaxNodes = %d\n  MaxDepth = %d\nINIT Init\nNEXT Next\n"
            "CHECK_DEADLOCK FALSE\nINVARIANTS %s\n" % (3 if quick else 4, 2 if quick else 3,
                                                         invs.replace("ColourOK ", "")))
    rr = ctx.model_check("MC_Enc", "R.cfg", files={"MC_Enc.tla": mc, "R.cfg": rcfg}, name="enc-mc-reserved", timeout=800)
    rtrees = rr.prints("tree")
    if len(rtrees) != rr.distinct:
        raise Undecided("model run did not export all reserved-key trees (%d of %d)" % (len(rtrees), rr.distinct))
    vocab["rtrees"] = rtrees
    if not quick:
        # TLC only: caller / msg / time next to an ordinary key, <= 4 nodes
        r2cfg = ("CONSTANTS\n  KeyIds <- c_KeyIdsR2\n  MaxNodes = 4\n  MaxDepth = 3\nINIT Init\nNEXT Next\n"
                 "CHECK_DEADLOCK FALSE\nINVARIANTS MergeSorted MergeLastWins MergeIdempotent MembersCount "
                 "PairsAscending PairsComplete KeyNamesDoNotMatter\n")
        ctx.model_check("MC_Enc", "R2.cfg", files={"MC_Enc.tla": mc, "R2.cfg": r2cfg}, name="enc-mc-reserved-deep", timeout=1500)
    if not quick:
        # deeper, TLC only (no export): every tree of <= 6 nodes over two keys, depth <= 3
        dcfg = ("CONSTANTS\n  KeyIds <- c_KeyIds2\n  MaxNodes = 6\n  MaxDepth = 3\nINIT Init\nNEXT Next\n"
                "CHECK_DEADLOCK FALSE\nINVARIANTS MergeSorted MergeLastWins MergeIdempotent MembersCount "
                "PairsAscending PairsComplete ColourOK\n")
        ctx.model_check("MC_Enc", "D.cfg", files={"MC_Enc.tla": mc, "D.cfg": dcfg}, name="enc-mc-deep", timeout=1500)
    # vacuity: the invariants must be able to fail
    wcfg = ("CONSTANTS\n  KeyIds <- c_KeyIds\n  MaxNodes = 1\n  MaxDepth = 0\nINIT Init\nNEXT Next\n"
            "CHECK_DEADLOCK FALSE\nINVARIANTS %s\n")
    for inv in (["MechIsJson", "SymbolCopyIsLegal"] if fmt == "json" else
                ["CRIsClean", "FgOnlyCloseIsClean", "HalfSwitchIsClean"] if fmt == "color"
                else ["MechIsJson", "SymbolCopyIsLegal", "BareListIsOneToken"]):
        w = ctx.tlc("MC_Enc", "W.cfg", files={"MC_Enc.tla": mc, "W.cfg": wcfg % inv}, name="enc-witness-" + inv,
                    allow_fail=True, workers=1, timeout=300)
        if inv not in w.invariant_violated and ("invariant of %s is equal to FALSE" % inv) not in w.out:
            raise Undecided("witness invariant %s was expected to be violated by TLC but was not" % inv)
        ctx.extra.setdefault("witness_violations", []).append(inv)
    ctx.extra["model_predicted_json_bad_classes"] = sorted(vocab["mechjsonbad"])
    # the caller member: which (format, class of the call site's file name) pairs the discipline "copy a symbol-table
    # string between the quotes unless it carries a quote" breaks, according to the model
    ctx.extra["model_predicted_symbol_copy_breaks"] = {f: sorted(c for ff, c in vocab["symbolcopybad"] if ff == f)
                                                       for f in ("json", "logfmt")}
    if fmt != "color" and "bslash" not in ctx.extra["model_predicted_symbol_copy_breaks"][fmt]:
        raise Undecided("witness SymbolCopyBad does not contain the backslash class for " + fmt)
    # where the discipline "closing reset only after a foreground" leaks, according to the model:
    # exactly the configurations without foreground but with a background / attribute, >= 2 lines
    ctx.extra["model_predicted_fg_only_close_leaks"] = sorted([list(x[0]), x[1]] for x in vocab["fgonlybad"])
    if fmt == "color" and not any(x[1] >= 3 for x in vocab["fgonlybad"]):
        raise Undecided("witness FgOnlyCloseBad is empty for >= 3 lines")
    # a string slice written "[" quoted elements "]" as a BARE logfmt value: the classes whose character cuts the token
    ctx.extra["model_predicted_bare_list_cuts"] = sorted(vocab["barelistbad"])
    if fmt == "logfmt" and "space" not in vocab["barelistbad"]:
        raise Undecided("witness BareListBad does not contain the blank")
    # the no-colour process switch honoured by halves: where colour stays on, according to the model
    ctx.extra["model_predicted_half_switch_leaks"] = sorted([list(x[0]), x[1]] for x in vocab["halfswitchbad"])
    if fmt == "color" and not any(x[1] >= 2 for x in vocab["halfswitchbad"]):
        raise Undecided("witness HalfSwitchBad is empty for >= 2 lines")
    return vocab, trees


# ------------------------------------------------------------------ abstract records

def node(k, kind="int", v=1, kc="plain", vc="plain", sub=None):
    return dict(k=k, kc=kc, kind=kind, vc=vc, v=v, sub=sub or [])


def nest(flat):
    """TLC's preorder-with-depth list -> nested attribute list (same as Nest in the spec)."""
    root = []
    stack = [(-1, root)]
    for n in flat:
        while stack[-1][0] >= n["d"]:
            stack.pop()
        x = node(n["k"], "group" if n["g"] else "int", n["v"])
        stack[-1][1].append(x)
        if n["g"]:
            stack.append((n["d"], x["sub"]))
    return root


class Gen:
    def __init__(self, fmt, seed):
        self.fmt = fmt
        self.cases = []
        self.tags = []
        self.rng = random.Random(seed)

    def add(self, tag, msg=None, attrs=None, name=None, caller=False, sev=4, width=3, minw=36, probe=None, salt=0, lc=None,
            cfile="plain", site=0, form="thru", env="default"):
        # (severity Always with a blank message: C02's blank line when it is a logging CALL - the specification's
        # BlankPrint, skipped by InDomain; a record like any other when it is handed over through WriteThru)
        if form != "thru":
            site = 0          # a logging call is issued from the worker's own call site
            cfile = "plain"
        c = dict(id=len(self.cases), fmt=self.fmt, testing=False, form=form, env=env,
                 name=dict(has=name is not None, cls=list(name or [])), sev=sev, caller=caller, cfile=cfile, site=site,
                 width=width, minw=minw, msg=list(msg if msg is not None else ["plain"]), attrs=attrs or [], salt=salt,
                 lc=dict(set=True, fg=lc[0], bg=lc[1]) if lc else dict(NO_LC))
        if probe:
            c["probe"] = probe
        self.cases.append(c)
        self.tags.append(tag)
        return c


def quoted_at(fmt, pos):
    if fmt == "json":
        return True
    if pos in ("key", "gkey"):
        return False
    if fmt == "color":
        return pos not in ("msg", "name", "cfile")
    return True


def posgroup(fmt, pos):
    if pos in ("key", "gkey"):
        return "key"
    if pos == "name":
        return "name"
    if pos == "cfile":
        return "caller"
    if pos == "msg":
        return "msg" if fmt == "color" else "text"
    if pos in ("string", "error", "stringer"):
        return "text"
    if pos == "fallback":
        return "fallback" if fmt == "color" else "text"
    return pos            # strs (a slice of strings has a list syntax of its own), bytes, textm


def classes_at(fmt, pos, vocab):
    cl = sorted(vocab["classes"])
    if pos in ("key", "gkey") and fmt != "json":
        return KEY_CLASSES_TEXTFMT
    if fmt == "color":
        if pos == "msg":
            return [c for c in cl if c != "ESC"]
        if pos == "name":
            return ["plain", "nonascii", "astral"]
        if pos in ("bytes", "fallback", "textm"):
            return [c for c in cl if c != "space"]      # C06 fixes no syntax for these values
    return cl


def gen_cells(g, vocab, reps):
    fmt = g.fmt
    positions = ["msg", "name", "key", "gkey"] + TEXT_POS + (["textm"] if fmt == "color" else [])
    for pos in positions:
        for cls in classes_at(fmt, pos, vocab):
            for s in range(reps):
                probe = dict(pos=pos, cls=cls, quoted=quoted_at(fmt, pos))
                tag = dict(t="cls", pos=pos, posg=posgroup(fmt, pos), cls=cls)
                if pos == "msg":
                    g.add(tag, msg=["plain", cls, "plain"], probe=probe, salt=s)
                elif pos == "name":
                    g.add(tag, name=[cls], probe=probe, salt=s)
                elif pos == "key":
                    g.add(tag, attrs=[node(1, "int", 1, kc=cls)], probe=probe, salt=s)
                elif pos == "gkey":
                    g.add(tag, attrs=[node(1, "group", 1, kc=cls, sub=[node(2, "int", 2)])], probe=probe, salt=s)
                else:
                    g.add(tag, attrs=[node(1, pos, 1, vc=cls)], probe=probe, salt=s)


SITE_ATTRS = [
    lambda: [], lambda: [node(1, "int", 1)], lambda: [node(1, "string", 1, vc="quote"), node(2, "bool", 2)],
    # the caller follows a group / an error / a value that ends in a backslash
    lambda: [node(1, "int", 1), node(2, "group", 2, sub=[node(3, "string", 3), node(4, "int", 4)])],
    lambda: [node(1, "error", 1)], lambda: [node(1, "string", 1, vc="bslash")],
]
SITE_MSGS = [["plain"], ["plain", "space", "plain"], ["plain", "LF", "plain"], ["plain", "quote", "plain"], ["nonascii"]]


def gen_sites(g, vocab, reps, go_test=False):
    """The caller member as part of the cell space: records attributed to REAL call sites of the worker behind
    //line directives (LINE_SITES) - one cell per (class of the file name, site of that class) x message /
    attribute shapes x name, caller flag on.  A site with sentinels is a probe cell: TLC judges the token form in
    which the special character came out (string grammar of the format) besides Diag."""
    fmt = g.fmt
    n = 0
    for cls in sorted(vocab["siteclasses"]):
        variants = SITE_VARIANTS.get(cls)
        if not variants:
            raise Undecided("no //line call site for the file-name class %s of the specification" % cls)
        for vi, (fname, probe) in enumerate(variants):
            for s in range(reps):
                n += 1
                pr = dict(pos="cfile", cls=cls, quoted=quoted_at(fmt, "cfile")) if probe else None
                msg = SITE_MSGS[(n + s) % len(SITE_MSGS)]
                if go_test and s % 2:
                    attrs = [node(1, "error", 1)]
                else:
                    attrs = SITE_ATTRS[(n * 5 + s) % len(SITE_ATTRS)]()
                g.add(dict(t="cls", pos="cfile", posg="caller", cls=cls, site=vi + 1), msg=msg, attrs=attrs, caller=True,
                      cfile=cls, site=vi + 1, probe=pr, salt=s, name=["plain"] if n % 3 == 0 else None,
                      sev=SEVS[(n + s) % len(SEVS)] if s else 4, width=1 + (n + s) % 5 if fmt == "color" else 3,
                      minw=(16, 36, 80)[(n + s) % 3] if fmt == "color" else 36)


def check_sites(ctx, vocab):
    """The worker's //line sites must be the table they were generated from, and the toolchain must have taken
    every directive as written (binding; not a statement about the library)."""
    p = ctx.run_worker(["enc", "sites"], testing=False)
    try:
        got = json.loads(p.stdout.strip().splitlines()[-1])
    except (ValueError, IndexError):
        raise Undecided("worker enc sites: no site list:\n" + p.stdout[-1000:] + p.stderr[-1000:])
    if [(x["cls"], x["file"]) for x in got] != [(c, ascii_quote(f)) for c, f, _ in LINE_SITES]:
        raise Undecided("harness/fam_encoder_sites.go is not generated from LINE_SITES (python3 checks/encoderlib.py gen-sites)")
    bad = [x for x in got if not x["ok"]]
    if bad:
        raise Undecided("the runtime does not report the file name of the //line directive for %d site(s), e.g. %s -> %s"
                        % (len(bad), bad[0]["file"], bad[0]["runtime"]))
    missing = sorted(set(vocab["siteclasses"]) - set(SITE_VARIANTS))
    if missing:
        raise Undecided("no //line call site for the classes %s" % missing)
    ctx.extra["line_sites"] = dict(sites=len(got), classes=len(SITE_VARIANTS),
                                   refused_by_the_toolchain=["invalid UTF-8", "NUL", "U+FEFF"])


def ascii_quote(s):
    """strconv.QuoteToASCII of a valid string (the worker reports names that way)."""
    out = ['"']
    esc = {"\a": "\\a", "\b": "\\b", "\f": "\\f", "\n": "\\n", "\r": "\\r", "\t": "\\t", "\v": "\\v", "\\": "\\\\", '"': '\\"'}
    for ch in s:
        o = ord(ch)
        if ch in esc:
            out.append(esc[ch])
        elif 0x20 <= o < 0x7f:
            out.append(ch)
        elif o < 0x80:
            out.append("\\x%02x" % o)
        elif o < 0x10000:
            out.append("\\u%04x" % o)
        else:
            out.append("\\U%08x" % o)
    return "".join(out) + '"'


def gen_kinds(g, vocab, reps):
    kinds = sorted(k for k in vocab["kinds"] if k != "group" and (k != "textm" or g.fmt == "color"))
    for kind in kinds:
        for s in range(reps):
            g.add(dict(t="value", kind=kind), attrs=[node(1, kind, 1)], salt=s, caller=s % 2 == 1)["byvar"] = True
    # a value of every kind next to ordinary neighbours
    for kind in kinds:
        g.add(dict(t="value", kind=kind), attrs=[node(1, "int", 1), node(2, kind, 2), node(3, "string", 3)], salt=99)


def gen_trees(g, trees):
    for i, flat in enumerate(trees):
        if g.fmt != "json" and any(n["k"] == 0 for n in flat):
            continue                      # the empty key is not a legal logfmt key
        g.add(dict(t="tree"), attrs=nest(flat), caller=i % 2 == 0, name=["plain"] if i % 3 == 0 else None)


def wrap_groups(members, depth, base=10):
    """members as the member list of a group nested `depth` levels deep (ordinary siblings at every level)."""
    cur = members
    for d in range(depth, 0, -1):
        cur = [node(base + d, "int", 100 + d), node(base + 20 + d, "group", 200 + d, sub=cur), node(base + 40 + d, "string", 300 + d)]
    return cur


def gen_reserved(g, vocab, rtrees, quick):
    """The reserved field names as keys: of a group member at depth 1..3 with every value kind (a group
    too), in every tree TLC enumerated over {k01, time}, and (colored) of top-level attributes."""
    fmt = g.fmt
    kinds = sorted(k for k in vocab["kinds"] if k != "textm" or fmt == "color")
    for name, rid in sorted(RESERVED.items()):
        for kind in kinds:
            # top level: colored (no exclusion) and every name the quantifier of the property does not exclude
            # (JSON: `logger` is none of the four reserved field names - on a named and on an unnamed logger)
            top_ok = rid not in vocab["topexcluded"][fmt]
            for depth in ((0, 1, 2, 3) if top_ok else (1, 2, 3)):
                nsalt = 3 if kind in ("time", "times") else 1 if quick else 2
                for s in range(nsalt):
                    for nm in ((["plain"], None) if depth == 0 and fmt != "color" else (None,)):
                        x = node(rid, kind, 1, sub=[node(2, "int", 2), node(rid, "string", 3)] if kind == "group" else None)
                        members = [node(1, "int", 4), x, node(50, "string", 5)]
                        c = g.add(dict(t="reskey", where="member-key" if depth else "top-key", name=name, kind=kind, depth=depth,
                                       named=nm is not None),
                                  attrs=wrap_groups(members, depth), salt=s, caller=(depth + s) % 2 == 1, name=nm,
                                  msg=["plain", "LF", "plain"] if s == 1 else ["plain"])
                        c["byvar"] = kind in ("time", "times")
    # JSON only (the empty key is no legal logfmt key): the reserved names as keys of members of a group whose OWN
    # key is the empty key - at top level and inside another group.  The key path written so far is empty there,
    # exactly as at record level.
    if fmt == "json":
        for name, rid in sorted(RESERVED.items()):
            for kind in kinds:
                for place in ((0, 1) if kind in ("time", "times", "string", "group") else (0,)):
                    for s in range(3 if kind in ("time", "times") else 1):
                        x = node(rid, kind, 1, sub=[node(2, "int", 2), node(rid, "string", 3)] if kind == "group" else None)
                        grp = [node(0, "group", 9, sub=[node(1, "int", 4), x, node(50, "string", 5)]), node(60, "int", 6)]
                        c = g.add(dict(t="reskey", where="empty-group-member", name=name, kind=kind, depth=1 + place),
                                  attrs=wrap_groups(grp, place), salt=s, caller=(place + s) % 2 == 1)
                        c["byvar"] = kind in ("time", "times")
    # every tree over the keys {k01, time}; the leaves under `time` hold a time.Time / an int
    for i, flat in enumerate(rtrees):
        for leaf in ("time", "int"):
            attrs = nest(flat)

            def retype(ns):
                for n in ns:
                    if n["kind"] == "group":
                        retype(n["sub"])
                    elif n["k"] == RESERVED["time"]:
                        n["kind"] = leaf
            retype(attrs)
            g.add(dict(t="rtree", leaf=leaf), attrs=attrs, caller=i % 2 == 0, name=["plain"] if i % 3 == 0 else None, salt=i % 3)


BLANKS = [("empty", []), ("blank", ["space", "space"]), ("tab-lf", ["TAB", "LF"]), ("lf", ["LF"]), ("cr-lf-space", ["CR", "LF", "space"])]
BLANK_ATTRS = [
    ("none", lambda: []), ("int", lambda: [node(1, "int", 1)]),
    ("string+group", lambda: [node(1, "string", 1), node(2, "group", 2, sub=[node(3, "int", 3)])]),
]


def gen_forms(g, vocab, trees, quick):
    """How a record reaches the library, as a dimension of the cell space (record field `form`): handed over through
    Entry.WriteThru (every other generator), or a logging CALL whose arguments are Attr values / alternating key,
    value pairs at every level - every tree TLC enumerated (the empty key included, JSON), every value kind as the
    value of a pair; and a blank message at severity Always in every form, without and with attributes (as a logging
    CALL that is C02's blank line: outside the domain, counted as skipped; handed over through WriteThru a record)."""
    fmt = g.fmt
    for i, flat in enumerate(trees):
        if fmt != "json" and any(n["k"] == 0 for n in flat):
            continue                      # the empty key is not a legal logfmt key
        for form in ("call-kv", "call-attr"):
            if form == "call-attr" and quick and i % 5:
                continue
            g.add(dict(t="tree", form=form), attrs=nest(flat), caller=i % 2 == 1, name=["plain"] if i % 3 == 1 else None,
                  form=form, sev=(4, 3, 8, 9, 2)[i % 5])
    kinds = sorted(k for k in vocab["kinds"] if k != "group" and (k != "textm" or fmt == "color"))
    for kind in kinds:
        for s in range(3 if quick else 12):
            g.add(dict(t="value", kind=kind, form="call-kv"), attrs=[node(1, kind, 1)] if s % 3 else
                  [node(1, "int", 1), node(2, kind, 2), node(3, "string", 3)], salt=s, caller=s % 2 == 1,
                  form="call-kv")["byvar"] = True
    for shn, msg in BLANKS:
        for form in sorted(vocab["forms"]):
            for an, mk in BLANK_ATTRS:
                for nm in (None, ["plain"]):
                    g.add(dict(t="blank", shape=shn, form=form, attrs=an, sev="always"), msg=msg, attrs=mk(), sev=8, form=form,
                          name=nm, caller=nm is not None and an == "int")
    # ... and at the severities around it: the blank line belongs to severity Always alone
    for j, sev in enumerate((4, 9, 10, 11, 6, 17, 33)):
        for shn, msg in BLANKS[:3]:
            for form in sorted(vocab["forms"]):
                an, mk = BLANK_ATTRS[j % 2]
                g.add(dict(t="blank", shape=shn, form=form, attrs=an, sev="other"), msg=msg, attrs=mk(), sev=sev, form=form,
                      name=["plain"] if j % 2 else None)


def gen_env(g, quick):
    """The process environment as a dimension (record field `env`): the process-wide no-colour switch of
    github.com/hedzr/is on.  Colored: every built-in / registered severity with its FACTORY colours and every
    SetLevelColors configuration x messages of 1..5 lines x attribute lists; JSON / logfmt: it must not matter."""
    sevs = SEVS[:-1] + [SEV_COLOURED_UNREG]
    if g.fmt != "color":
        for j, (shn, msg) in enumerate(LC_SHAPES[:3]):
            for an, mk in LC_ATTRS[:3]:
                g.add(dict(t="lc", env="nocolor", fg="factory", bg="factory", lines=lines_class(msg), shape=shn, attrs=an), msg=msg,
                      attrs=mk(), sev=sevs[(j * 3) % len(sevs)], env="nocolor")
        return
    n = 0
    for lc in [None] + LC_COMBOS:
        for shn, msg in LC_SHAPES:
            for an, mk in LC_ATTRS:
                pick = SEVS if lc is None and (not quick or an == "int") else sevs if not quick else \
                    [sevs[(n * 7 + k * 5) % len(sevs)] for k in range(2)]
                for sev in pick:
                    g.add(dict(t="lc", env="nocolor", fg=lc[0] if lc else "factory", bg=lc[1] if lc else "factory",
                               lines=lines_class(msg), shape=shn, attrs=an), msg=msg, attrs=mk(), sev=sev, lc=lc,
                          caller=n % 3 == 0, name=["plain"] if n % 2 else None, width=1 + n % 5, minw=(16, 36, 80)[n % 3],
                          salt=n % 4, env="nocolor")
                n += 1
    # layout under the switch: a slice of the presentation grid
    for i, (name, msg, cls) in enumerate(SHAPES):
        g.add(dict(t="grid", shape=cls, shname=name, env="nocolor"), msg=msg, attrs=[[], [node(1, "int", 1)],
              [node(1, "error", 1), node(2, "string", 2)]][i % 3], sev=SEVS[i % len(SEVS)], width=1 + i % 5,
              minw=(16, 36, 80)[i % 3], caller=i % 2 == 0, name=["plain"] if i % 3 == 0 else None, env="nocolor")


LC_SHAPES = [
    ("1", ["plain"]), ("2", ["plain", "LF", "plain"]), ("3", ["plain", "LF", "plain", "space", "plain", "LF", "plain"]),
    ("4", ["plain", "LF", "plain", "LF", "nonascii", "LF", "plain"]), ("5", ["plain", "LF", "plain"] + ["LF", "plain"] * 3),
    ("3-blank-middle", ["plain", "LF", "LF", "plain"]), ("4-blank-lines", ["plain", "LF", "LF", "LF", "plain"]),
    ("2-trailing", ["plain", "LF", "plain", "LF"]), ("3-trailing", ["plain", "LF", "plain", "LF", "plain", "LF", "LF"]),
    ("1-trailing", ["plain", "LF"]),
]
LC_ATTRS = [
    ("none", lambda: []), ("int", lambda: [node(1, "int", 1)]),
    ("error+string", lambda: [node(1, "error", 1), node(2, "string", 2)]),
    ("group", lambda: [node(1, "int", 1), node(2, "group", 2, sub=[node(3, "string", 3), node(4, "bool", 4)]), node(5, "duration", 5)]),
]


def lines_class(msg):
    m = list(msg)
    while m and m[-1] == "LF":
        m.pop()
    n = 1 + m.count("LF")
    return "1" if n == 1 else "2" if n == 2 else "3+"


def gen_colours(g, quick):
    """Level colour configurations as part of the cell space: SetLevelColors(sev, fg, bg) for every
    combination of {no foreground, a foreground} x {nothing, a background colour, a text attribute}
    x message shapes (1, 2, 3, 4, 5 lines, blank lines, trailing breaks) x attribute lists, over
    built-in, registered (17, 18) and unregistered (34) severities."""
    sevs = SEVS[:-1] + [SEV_COLOURED_UNREG]
    if g.fmt != "color":
        # the colour table must not matter at all outside colored mode
        for i, lc in enumerate(LC_COMBOS):
            for j, (shn, msg) in enumerate(LC_SHAPES[:3]):
                g.add(dict(t="lc", fg=lc[0], bg=lc[1], lines=lines_class(msg), shape=shn, attrs="int"), msg=msg,
                      attrs=[node(1, "int", 1), node(2, "string", 2)], sev=sevs[(i * 3 + j) % len(sevs)], lc=lc)
        return
    n = 0
    for lc in LC_COMBOS:
        for shn, msg in LC_SHAPES:
            for an, mk in LC_ATTRS:
                pick = sevs if not quick else [sevs[(n * 7 + k * 5) % len(sevs)] for k in range(2)]
                for sev in pick:
                    g.add(dict(t="lc", fg=lc[0], bg=lc[1], lines=lines_class(msg), shape=shn, attrs=an), msg=msg, attrs=mk(),
                          sev=sev, lc=lc, caller=n % 3 == 0, name=["plain"] if n % 2 else None, width=1 + n % 5,
                          minw=(16, 36, 80)[n % 3], salt=n % 4)
                n += 1
    if quick:
        # every (severity, configuration) at least once, on a message of three lines
        for sev in sevs:
            for lc in LC_COMBOS:
                g.add(dict(t="lc", fg=lc[0], bg=lc[1], lines="3+", shape="3", attrs="int"), msg=LC_SHAPES[2][1],
                      attrs=[node(1, "int", 1)], sev=sev, lc=lc)


SHAPES = [
    ("one", ["plain"], "regular"), ("long", ["plain"] * 50, "regular"), ("two", ["plain", "LF", "plain"], "regular"),
    ("three", ["plain", "LF", "plain", "space", "plain", "LF", "plain"], "regular"),
    ("trailing", ["plain", "LF"], "regular"), ("two-trailing", ["plain", "LF", "plain", "LF"], "regular"),
    ("double-trailing", ["plain", "LF", "plain", "LF", "LF"], "regular"),
    ("blank-middle", ["plain", "LF", "LF", "plain"], "regular"),
    ("nonascii", ["nonascii", "plain", "nonascii"], "regular"), ("astral", ["plain", "astral"], "regular"),
    ("inner-space", ["plain", "space", "space", "plain"], "regular"), ("trailing-space", ["plain", "space"], "regular"),
    ("punct", ["plain", "quote", "bslash", "equals", "plain"], "regular"),
    ("leading-space", ["space", "plain"], "leading-space"),
    ("leading-space-2", ["space", "space", "plain", "LF", "plain"], "leading-space"),
    ("empty", [], "blank-first-line"), ("blank", ["space", "space"], "blank-first-line"),
    ("leading-LF", ["LF", "plain"], "blank-first-line"),
]


def gen_grid(g, quick):
    rng = g.rng
    if g.fmt != "color":
        for sev in SEVS:
            for nm in (None, ["plain"]):
                for caller in (False, True):
                    g.add(dict(t="grid", shape="regular"), attrs=[node(1, "int", 1)], sev=sev, name=nm, caller=caller,
                          msg=["plain", "space", "plain"])
        for name, msg, cls in SHAPES:
            g.add(dict(t="grid", shape="regular"), msg=msg, attrs=[node(1, "string", 1)])
        return
    combos = [(sev, w, mw, sh, ca, nm) for sev in SEVS for w in (1, 2, 3, 4, 5) for mw in (16, 36, 80)
              for sh in SHAPES for ca in (False, True) for nm in (False, True)]
    if quick:
        pick = rng.sample(combos, 500)
        # every severity x width, every shape x minimal width at least once
        pick += [(sev, w, 36, SHAPES[(sev + w) % 13], bool(w % 2), bool(sev % 2)) for sev in SEVS for w in (1, 2, 3, 4, 5)]
        pick += [(4, 3, mw, sh, False, False) for mw in (16, 36, 80) for sh in SHAPES]
    else:
        pick = combos
    for i, (sev, w, mw, sh, ca, nm) in enumerate(pick):
        attrs = [[], [node(1, "int", 1)], [node(1, "error", 1), node(2, "string", 2)]][i % 3]
        g.add(dict(t="grid", shape=sh[2], shname=sh[0]), msg=sh[1], attrs=[dict(a) for a in attrs], sev=sev, width=w,
              minw=mw, caller=ca, name=["plain"] if nm else None)


def parse_known(ctx, fmt, vocab):
    """Features named by the listed known findings of this property (used to also generate big
    records that avoid them, so that those records are judged without any allowance)."""
    bad = dict(kinds=set(), text=set(), key=set(), name=set(), msg=set(), attrs=set(), raw={}, reserved=set(), colours=set(),
               caller=set())
    must = set(vocab["must"][fmt])
    for k in ctx.known:
        parts = k["key"].split(":")
        if parts[0] != fmt or len(parts) < 3:
            continue
        pos, cls = parts[1], parts[2]
        cl = must if cls == "*" else {cls}
        if pos in RES_PLACES:
            bad["reserved"].add((pos, cls, parts[3] if len(parts) > 3 else "*"))
        elif pos == "colours":
            bad["colours"].add(cls)
        elif pos == "value":
            bad["kinds"].add(cls)
        elif pos == "attrs":
            bad["attrs"].add(cls)
        elif pos in ("text", "key", "name", "msg", "caller"):
            bad[pos] |= cl
        else:                       # bytes / fallback / textm position
            bad["raw"].setdefault(pos, set()).update(cl)
    return bad


def gen_big(g, vocab, count, clean_of=None):
    """Seeded random big records.  clean_of = features to avoid (None: use everything)."""
    rng = g.rng
    fmt = g.fmt
    classes = sorted(vocab["classes"])
    kinds = sorted(k for k in vocab["kinds"] if k != "group" and (k != "textm" or fmt == "color"))
    bad = clean_of or dict(kinds=set(), text=set(), key=set(), name=set(), msg=set(), attrs=set(), raw={}, reserved=set(),
                           colours=set(), caller=set())
    # call sites behind //line directives for records with the caller flag (colored: layout is claimed for
    # file names without control characters - keep most big records inside that domain)
    sitecls = [c for c in sorted(vocab["siteclasses"]) if c not in bad.get("caller", set()) and c in SITE_VARIANTS]
    if fmt == "color":
        sitecls = [c for c in sitecls if c not in vocab["control"]] * 4 + sitecls
    kinds = [k for k in kinds if k not in bad["kinds"]]

    def reserved_ok(where, name, kind):
        return not any(w == where and n in (name, "*") and k in (kind, "*") for (w, n, k) in bad["reserved"])
    lcs = [lc for lc in LC_COMBOS if "%s+%s" % lc not in bad["colours"]]
    no_groups = "group" in bad["attrs"]
    groups_last = "after-group" in bad["attrs"]
    no_empty_group = "empty-group" in bad["attrs"]
    no_nested = "nested-group" in bad["attrs"]
    no_dup = "duplicate-key" in bad["attrs"]
    keycls = [c for c in (classes if fmt == "json" else KEY_CLASSES_TEXTFMT) if c not in bad["key"]]
    if fmt == "color":
        msgcls = [c for c in vocab["layout"] if c not in bad["msg"] and c != "space"] + ["plain"] * 4
        namecls = ["plain", "nonascii"]
    else:
        msgcls = [c for c in classes if c not in bad["text"]] + ["plain"] * 6
        namecls = [c for c in classes if c not in bad["name"]]

    def vclass(kind):
        pg = posgroup(fmt, kind)
        avoid = set(bad["text"]) if pg == "text" else set(bad["raw"].get(pg, set()))
        if fmt == "color" and kind in ("bytes", "fallback", "textm"):
            avoid |= {"space", "ESC"} | set(vocab["control"]) if clean_of is not None else {"space"}
        ok = [c for c in classes if c not in avoid]
        return rng.choice(ok + ["plain"] * len(ok)) if ok else "plain"

    for _ in range(count):
        nattrs = rng.choice([0, 1, 2, 3, 5, 8, 13, 20, 33, 48, 64])
        vid = [0]
        keyclass = {}

        def mk(n, depth, allow_dup, parent_k=None):
            out = []
            used = []
            for i in range(n):
                # duplicate keys only in lists of <= 12 attributes: which duplicate survives in longer
                # lists depends on the stability of the sort, which C07 owns
                if used and allow_dup and n <= 12 and not no_dup and rng.random() < 0.2:
                    k = rng.choice(used)
                else:
                    k = rng.randint(1, 90)
                    while k in used:
                        k = rng.randint(1, 90)
                if fmt == "json" and rng.random() < 0.02 and "empty-key" not in bad["attrs"] and 0 not in used:
                    k = 0
                # a reserved field name as the own key of a group member (colored: of a top-level attribute too)
                res = (depth > 0 or (fmt == "color" and rng.random() < 0.3) or (fmt == "json" and rng.random() < 0.2)) \
                    and rng.random() < 0.12
                if res:
                    rk = rng.choice(sorted(r for r in RES_NAME if depth > 0 or r not in vocab["topexcluded"][fmt]))
                    if rk not in used:
                        k = rk
                used.append(k)
                kc = keyclass.setdefault(k, rng.choice(keycls + ["plain"] * 3 * len(keycls)) if 0 < k < 91 else "plain")
                vid[0] += 1
                is_group = (not no_groups and depth < 4 and rng.random() < 0.12 and not (no_nested and depth > 0))
                if k in RES_NAME and is_group and not reserved_ok("member-key" if depth else "top-key", RES_NAME[k], "group"):
                    k = used[-1] = 91 + len(used) % 5                # a listed finding: an ordinary key instead
                    kc = keyclass.setdefault(k, "plain")
                if k in RES_NAME and not is_group:
                    kind = rng.choice(["time"] * 3 + kinds)
                    if kind in kinds and reserved_ok("member-key" if depth else "top-key", RES_NAME[k], kind) and \
                            (parent_k != 0 or reserved_ok("empty-group-member", RES_NAME[k], kind)):
                        vc = vclass(kind) if kind in vocab["textkinds"] else "plain"
                        out.append(node(k, kind, vid[0], kc=kc, vc=vc))
                        continue
                    k = used[-1] = 91 + len(used) % 5            # that cell is a listed finding: an ordinary key instead
                    kc = keyclass.setdefault(k, "plain")
                if is_group:
                    m = rng.choice([0, 1, 2, 3, 6]) if not no_empty_group else rng.choice([1, 2, 3, 6])
                    x = node(k, "group", vid[0], kc=kc)
                    x["sub"] = mk(m, depth + 1, allow_dup, parent_k=k)
                    out.append(x)
                else:
                    kind = rng.choice(kinds)
                    vc = vclass(kind) if kind in vocab["textkinds"] else "plain"
                    out.append(node(k, kind, vid[0], kc=kc, vc=vc))
            if groups_last:
                # every group must sort after all its scalar siblings: give groups the largest keys
                gs = [x for x in out if x["kind"] == "group"]
                if gs:
                    keep = gs[-1]
                    out = [x for x in out if x["kind"] != "group"]
                    top = max([x["k"] for x in out if x["k"] < 91] + [0]) + 1
                    keep["k"] = max(top, keep["k"])
                    keyclass.setdefault(keep["k"], "plain")
                    keep["kc"] = keyclass[keep["k"]]
                    out.append(keep)
            return out

        attrs = mk(nattrs, 0, True)
        mlen = rng.choice([0, 1, 2, 5, 12, 30]) if fmt != "color" else rng.choice([1, 2, 5, 12, 30, 60])
        msg = [rng.choice(msgcls) for _ in range(mlen)]
        if fmt == "color":
            if msg and msg[0] in ("space", "LF"):
                msg[0] = "plain"
            if not msg:
                msg = ["plain"]
            if "LF" in bad["msg"]:
                msg = [c for c in msg if c != "LF"]
        nm = None if rng.random() < 0.5 else [rng.choice(namecls + ["plain"] * 4) for _ in range(rng.randint(0, 3))]
        lc = rng.choice(lcs) if lcs and rng.random() < (0.4 if fmt == "color" else 0.1) else None
        cfile, site = "plain", 0
        if sitecls and rng.random() < 0.6:
            cfile = rng.choice(sitecls)
            site = 1 + rng.randrange(len(SITE_VARIANTS[cfile]))
        form = rng.choice(["thru"] * 4 + ["call-attr", "call-kv"])
        env = "nocolor" if rng.random() < 0.15 else "default"
        g.add(dict(t="big", clean=clean_of is not None), msg=msg, attrs=attrs, name=nm, caller=rng.random() < 0.5, cfile=cfile, site=site,
              sev=rng.choice(SEVS[:-1] + [SEV_COLOURED_UNREG]) if lc else rng.choice(SEVS), width=rng.randint(1, 5),
              minw=rng.choice([16, 36, 80]), lc=lc, form=form, env=env)


# ------------------------------------------------------------------ execution and validation

def run_worker(ctx, cases, testing, name):
    seed = ctx.seed
    cp = os.path.join(ctx.scratch, name + "-cases.json")
    tp = os.path.join(ctx.scratch, name + "-trace.ndjson")
    dp = os.path.join(ctx.scratch, name + "-details.ndjson")
    with open(cp, "w") as fh:
        json.dump(dict(seed=seed, cases=cases), fh)
    ctx.run_worker(["enc", cp, tp, dp], testing=testing, timeout=1500)
    n = sum(1 for _ in open(tp))
    if n != len(cases):
        raise Undecided("worker wrote %d trace lines for %d cases" % (n, len(cases)))
    return tp, dp


def validate(ctx, trace_path, name):
    mct, cfg = gen_mc("MCT_Enc", "EncoderTrace", dict(KeyIds={0}, TraceFile="trace.ndjson"),
                      ["SPECIFICATION TSpec", "INVARIANTS Done", "CHECK_DEADLOCK FALSE"],
                      plain=dict(MaxNodes=0, MaxDepth=0))
    r = ctx.tlc("MCT_Enc", "MCT_Enc.cfg", files={"MCT_Enc.tla": mct, "MCT_Enc.cfg": cfg},
                copy={trace_path: "trace.ndjson"}, workers=1, name=name, timeout=3000, heap="12g", allow_fail=True)
    if not r.ok:
        raise Undecided("trace validation run failed:\n" + r.out[-5000:])
    done = r.prints("done")
    if not done:
        raise Undecided("trace validation did not reach the end of the log:\n" + r.out[-3000:])
    bad = r.prints("bad")
    if len(bad) != done[-1][0]:
        raise Undecided("trace validation: %d @@bad lines but counter says %d" % (len(bad), done[-1][0]))
    return bad, done[-1][1]


def corrupt(line):
    """One corruption of an accepted observation that the specification must reject."""
    e = json.loads(line)
    o, fmt = e["obs"], e["rec"]["fmt"]
    if fmt == "json":
        if o["members"]:
            o["members"] = o["members"][:-1]
        else:
            o["top"] = o["top"] + ["level"]        # a forged second level member
    elif fmt == "logfmt":
        if o["pairs"]:
            o["pairs"] = o["pairs"][:-1]
        else:
            o["head"] = list(reversed(o["head"]))
    else:
        st = o["stream"]
        i = st.index(-1)
        o["stream"] = st[:i] + [31] + st[i:]
    return json.dumps(e, separators=(",", ":"))


def binding_selftest(ctx, trace_path, bad):
    """Corrupt accepted lines of the recording; TLC must reject every one of them."""
    rejected = {b["line"] - 1 for b in bad}
    picked = []
    with open(trace_path) as fh:
        for i, line in enumerate(fh):
            if i not in rejected and len(picked) < 40 and i % 7 == 0:
                picked.append(corrupt(line))
    if not picked:
        raise Undecided("binding self-test: no accepted record to corrupt")
    p = os.path.join(ctx.scratch, "selftest.ndjson")
    with open(p, "w") as fh:
        fh.write("\n".join(picked) + "\n")
    b2, _ = validate(ctx, p, "enc-selftest")
    if len(b2) != len(picked):
        raise Undecided("binding self-test: only %d of %d corrupted observations were rejected" % (len(b2), len(picked)))
    ctx.extra["binding_selftest_corruptions_rejected"] = len(b2)


def key_feature(key):
    p = key.split(":")
    return p[1], p[2]


def feats_match(fmt, key, feats, vocab):
    """Does a failing record with TLC-reported features `feats` contain the feature `key` names?"""
    pos, cls = key_feature(key)
    if pos in RES_PLACES:
        kind = (key.split(":") + ["*"])[3]
        return any(f.split(":")[0] == pos and cls in (f.split(":")[1], "*") and kind in (f.split(":")[2], "*") for f in feats)
    if pos == "colours":
        return "colours:" + cls in feats
    must = set(vocab["must"][fmt])
    fs = set()
    for f in feats:
        a, b = f.split(":", 1)
        if a == "msg" and fmt != "color":
            a = "text"
        fs.add((a, b))
    if pos == "value":
        return ("value", cls) in fs
    if pos == "attrs":
        names = {b for a, b in fs if a == "attrs"}
        for n in list(names):
            names |= IMPLIED.get(n, set())
        return all(c in names for c in cls.split("+"))
    cl = must if cls == "*" else {cls}
    if pos in ("text", "key", "name", "msg", "caller"):
        return any((pos, c) in fs for c in cl)
    # raw value kinds (bytes / fallback / textm): the kind carries that class
    return ("value", pos) in fs and any(("text", c) in fs for c in cl)


def name_findings(ctx, fmt, vocab, cases, tags, bad, details, testing, seen_keys, seen_minimal):
    """Turn TLC's rejected lines into (key, what, replay) findings."""
    must = set(vocab["must"][fmt])
    by_line = {b["line"] - 1: b for b in bad}
    found = []                      # (key, idx)
    # 1. kind cells: which kinds fail by themselves
    bad_kinds = set()
    for i, b in by_line.items():
        if tags[i]["t"] == "value" and tags[i].get("form"):
            # the kind as the value of a key/value pair of a logging call
            found.append(("%s:value:%s:%s" % (fmt, tags[i]["kind"], tags[i]["form"]), i))
        elif tags[i]["t"] == "value":
            bad_kinds.add(tags[i]["kind"])
            found.append(("%s:value:%s" % (fmt, tags[i]["kind"]), i))
    # 1b. a blank message at severity Always (a record in every form but the call without arguments)
    for i, b in by_line.items():
        if tags[i]["t"] == "blank":
            found.append(("%s:msg:blank-%s:%s:%s" % (fmt, tags[i]["sev"], tags[i]["form"], "+".join(sorted(b["diag"]))), i))
    # 2. class cells.  A position whose cell fails even for a plain character is broken as a
    #    whole (value kind printed raw, group syntax, ...): its cells are filed under that cause.
    broken_pos = {}
    for i, b in by_line.items():
        t = tags[i]
        if t["t"] == "cls" and t["cls"] == "plain":
            if t["pos"] in bad_kinds or t["pos"] in TEXT_POS + ["textm"]:
                broken_pos[t["pos"]] = "%s:value:%s" % (fmt, t["pos"])
            elif t["pos"] == "cfile":
                pass                  # the control site (an ordinary path) failing says nothing about the other classes
            elif t["pos"] == "gkey":
                broken_pos[t["pos"]] = "%s:attrs:group" % fmt
            else:
                broken_pos[t["pos"]] = "%s:%s:plain:%s" % (fmt, t["posg"], "+".join(sorted(b["diag"])))
    cls_fail = {}                   # (posg, mode) -> {cls: [idx]}
    for i, b in by_line.items():
        t = tags[i]
        if t["t"] != "cls":
            continue
        if t["pos"] in broken_pos:
            found.append((broken_pos[t["pos"]], i))
            continue
        if t["pos"] in bad_kinds:
            found.append(("%s:value:%s" % (fmt, t["pos"]), i))
            continue
        mode = b["mode"] if b["mode"] not in ("ok", "none") and quoted_at(fmt, t["pos"]) else "+".join(sorted(b["diag"]))
        cls_fail.setdefault((t["posg"], mode), {}).setdefault(t["cls"], []).append(i)
    for (posg, mode), per in cls_fail.items():
        if mode == "raw" and must <= set(per.keys()):
            # no escaping at all in this position: one finding instead of one per class
            for cls, idxs in per.items():
                for i in idxs:
                    found.append(("%s:%s:*:raw" % (fmt, posg), i) if cls in must else
                                 ("%s:%s:%s:%s" % (fmt, posg, cls, mode), i))
        else:
            for cls, idxs in per.items():
                for i in idxs:
                    found.append(("%s:%s:%s:%s" % (fmt, posg, cls, mode), i))
    # 3. trees: a failing tree that carries the feature of a listed finding is filed there; the
    #    others are named after the minimal feature sets among them
    known_attrs = [k["key"] for k in ctx.known if k["key"].startswith(fmt + ":attrs:")]
    tree_sets = {}
    for i, b in by_line.items():
        if tags[i]["t"] == "tree":
            other = set(b["diag"]) - ATTR_DIAGS        # clauses that are not about the attribute list
            hit = [k for k in known_attrs if feats_match(fmt, k, b["feats"], vocab)]
            if hit and not other:
                found.append((hit[0], i))
                continue
            if other:
                fs = set(f.split(":", 1)[1] for f in b["feats"] if f.startswith("attrs:"))
                found.append(("%s:attrs:%s:%s" % (fmt, "+".join(sorted(fs)) or "plain", "+".join(sorted(other))), i))
                continue
            fs = set(f.split(":", 1)[1] for f in b["feats"] if f.startswith("attrs:"))
            for f in list(fs):
                fs |= IMPLIED.get(f, set())
            tree_sets.setdefault(frozenset(fs), []).append(i)
    allsets = set(tree_sets) | seen_minimal          # minimal sets of earlier phases stay valid
    minimal = [s for s in allsets if not any(o < s for o in allsets)]
    seen_minimal |= set(minimal)
    for s, idxs in tree_sets.items():
        for m in minimal:
            if m <= s:
                implied = set()
                for f in m:
                    implied |= IMPLIED.get(f, set())
                nm = "+".join(sorted(m - implied)) or "plain"
                for i in idxs:
                    found.append(("%s:attrs:%s" % (fmt, nm), i))
                break
    # 3b. reserved field names as keys.  A cell names (place, name, kind); a name that fails with every
    #     kind is one finding  <fmt>:member-key:<name>:*.  Clauses that are not about the attribute list
    #     are appended.  Trees over {k01, time} are filed under the reserved-key feature TLC reports.
    res_fail = {}
    for i, b in by_line.items():
        t = tags[i]
        if t["t"] == "reskey":
            other = set(b["diag"]) - ATTR_DIAGS
            res_fail.setdefault((t["where"], t["name"], "+".join(sorted(other))), {}).setdefault(t["kind"], []).append(i)
    nkinds = len([k for k in vocab["kinds"] if k != "textm" or fmt == "color"])
    res_keys = set()
    known_res = [k["key"] for k in ctx.known if k["key"].startswith(fmt + ":") and (k["key"].split(":") + [""])[1] in RES_PLACES]
    for (where, name, other), per in res_fail.items():
        for kind, idxs in per.items():
            for i in idxs:
                # a listed finding about this place / name (whatever subset of the kinds this run generated) with the same clauses
                hit = [k for k in known_res if ":".join(k.split(":")[4:]) == other and feats_match(fmt, k, by_line[i]["feats"], vocab)]
                key = hit[0] if hit else \
                    "%s:%s:%s:%s%s" % (fmt, where, name, "*" if len(per) >= nkinds else kind, ":" + other if other else "")
                res_keys.add(key)
                found.append((key, i))
    res_keys |= {k["key"] for k in ctx.known if (k["key"].split(":") + [""])[1] in RES_PLACES}
    for i, b in by_line.items():
        if tags[i]["t"] == "rtree":
            # a tree over {k01, time}: filed under the (place, name, kind) cell that fails on its own, if the tree has it
            other = set(b["diag"]) - ATTR_DIAGS
            hit = sorted(k for k in res_keys if k.startswith(fmt + ":") and feats_match(fmt, k, b["feats"], vocab))
            rf = sorted(f for f in b["feats"] if f.split(":")[0] in RES_PLACES)
            key = hit[0] if hit and not other else \
                ("%s:%s" % (fmt, rf[0]) if rf else "%s:attrs:reserved-tree" % fmt) + (":" + "+".join(sorted(other)) if other else "")
            found.append((key, i))
    # 3c. level colour configurations: <fmt>:colours:<fg>+<bg>:<1|2|3+>-lines:<violated clauses>
    #     (+ :<severity classes> when only some of builtin / registered / unregistered severities fail)
    def sev_class(sev):
        return "builtin" if sev < 12 else "registered" if sev in (17, 18) else "unregistered"
    #     cells of the process environment (the no-colour switch): <fmt>:env-nocolor:colours:...
    lc_all = {}
    for i, t in enumerate(tags):
        if t["t"] == "lc":
            lc_all.setdefault((t.get("env", ""), t["fg"], t["bg"], t["lines"]), set()).add(sev_class(cases[i]["sev"]))
    lc_fail = {}
    for i, b in by_line.items():
        t = tags[i]
        if t["t"] == "lc":
            lc_fail.setdefault((t.get("env", ""), t["fg"], t["bg"], t["lines"], "+".join(sorted(b["diag"]))), []).append(i)
    for (env, fg, bg, lines, diag), idxs in lc_fail.items():
        cls = {sev_class(cases[i]["sev"]) for i in idxs}
        suffix = "" if cls >= lc_all[(env, fg, bg, lines)] else ":" + "+".join(sorted(cls))
        for i in idxs:
            found.append(("%s:%scolours:%s+%s:%s-lines:%s%s" % (fmt, "env-%s:" % env if env else "", fg, bg, lines, diag, suffix), i))
    # 4. presentation grid
    for i, b in by_line.items():
        t = tags[i]
        if t["t"] == "grid":
            if t.get("env"):
                found.append(("%s:env-%s:layout:%s" % (fmt, t["env"], "+".join(sorted(b["diag"]))), i))
            elif t["shape"] != "regular":
                found.append(("%s:msg:%s" % (fmt, t["shape"]), i))
            else:
                found.append(("%s:layout:%s" % (fmt, "+".join(sorted(b["diag"]))), i))
    # 5. big records: attribute to the single-feature findings above, else a finding of its own
    seen_keys |= {k for k, _ in found}
    cell_keys = sorted(seen_keys)         # only causes that failed on their own in this run
    cell_keys = [k for k in cell_keys if k.split(":")[1] != "record"]
    for i, b in by_line.items():
        if tags[i]["t"] != "big":
            continue
        hit = [k for k in cell_keys if k.split(":")[1] not in ("layout",) and feats_match(fmt, k, b["feats"], vocab)]
        if tags[i].get("clean") or not hit:
            found.append(("%s:record:%s" % (fmt, "+".join(sorted(b["diag"]))), i))
        else:
            for k in hit:
                found.append((k, i))
    per_key = {}
    for key, i in sorted(found, key=lambda x: (x[0].split(":")[1] == "record", x[0], x[1])):
        b = by_line[i]
        d = details[i]
        what = "%s%s record #%d (%s): violated %s; emission of the probed class: %s; msg=%s payload=%s" % (
            fmt, " (go-test mode)" if testing else "", i, json.dumps(tags[i]), ",".join(sorted(b["diag"])), b["mode"],
            d["msg"][:200], d["payload"][:700]) + (" unmatched=%s" % d["unmatched"][:6] if d.get("unmatched") else "")
        ctx.extra.setdefault("finding_examples", {}).setdefault(key, what[:900])
        hits = ctx.extra.setdefault("records_per_finding_key", {})
        hits[key] = hits.get(key, 0) + 1
        dd = ctx.extra.setdefault("diag_per_finding_key", {}).setdefault(key, {})
        dd["+".join(sorted(b["diag"]))] = dd.get("+".join(sorted(b["diag"])), 0) + 1
        per_key[key] = per_key.get(key, 0) + 1
        if per_key[key] > 3 and not any(k["key"] == key for k in ctx.known):
            continue                      # a few replays per new key are enough; all are counted above
        ctx.finding(key, what, dict(kind="enc", fmt=fmt, testing=testing, seed=ctx.seed, case=cases[i], tag=tags[i],
                                    key=key, must={fmt: sorted(must)}, diag=sorted(b["diag"]),
                                    payload=d["payload"][:4000]))
    return found


def nontrivial_sig(c, tag):
    def shape(ns):
        return tuple((n["k"], n["kind"], n["kc"], n["vc"], shape(n["sub"])) for n in ns)
    return (c["fmt"], tuple(c["msg"]), shape(c["attrs"]), c["name"]["has"], tuple(c["name"]["cls"]), c["sev"],
            c["caller"], c["cfile"] if c["caller"] else "", c["site"] if c["caller"] else 0, c["width"], c["minw"],
            c["lc"]["set"], c["lc"]["fg"], c["lc"]["bg"], c.get("form", "thru"), c.get("env", "default"))


def run_format(ctx, fmt, replay):
    if replay:
        return do_replay(ctx, fmt, replay)
    quick = ctx.quick()
    vocab, trees = model_check(ctx, fmt)
    check_sites(ctx, vocab)
    # ---- production-mode records
    g = Gen(fmt, ctx.seed * 100003 + 11)
    gen_cells(g, vocab, 2 if quick else 12)
    gen_sites(g, vocab, 3 if quick else 12)
    gen_kinds(g, vocab, 12 if quick else 48)
    gen_trees(g, trees)
    gen_grid(g, quick)
    gen_reserved(g, vocab, vocab["rtrees"], quick)
    gen_colours(g, quick)
    gen_forms(g, vocab, trees, quick)
    gen_env(g, quick)
    known_feats = parse_known(ctx, fmt, vocab)
    gen_big(g, vocab, 120 if quick else 8000, clean_of=None)
    gen_big(g, vocab, 120 if quick else 8000, clean_of=known_feats)
    # ---- go-test-mode records (error dump after the record; C05/C06 make allowances only there)
    gt = Gen(fmt, ctx.seed * 100003 + 12)
    gen_kinds(gt, vocab, 3 if quick else 9)
    for cls in ("plain", "LF", "quote", "C0"):
        for s in range(2 if quick else 6):
            gt.add(dict(t="cls", pos="error", posg=posgroup(fmt, "error"), cls=cls), attrs=[node(1, "error", 1, vc=cls)],
                   probe=dict(pos="error", cls=cls, quoted=quoted_at(fmt, "error")), salt=s,
                   msg=["plain", "LF", "plain"] if s % 2 else ["plain"])
    gen_sites(gt, vocab, 1 if quick else 4, go_test=True)
    gen_trees(gt, trees[:: (10 if quick else 40)])
    gen_reserved(gt, dict(vocab, kinds=["time", "error", "string", "group"]), vocab["rtrees"][:: (10 if quick else 4)], True)
    if fmt == "color":
        # the error dump of a go-test process under every colour configuration
        for lc in LC_COMBOS:
            for shn, msg in LC_SHAPES[:4]:
                gt.add(dict(t="lc", fg=lc[0], bg=lc[1], lines=lines_class(msg), shape=shn, attrs="error"), msg=msg,
                       attrs=[node(1, "error", 1), node(2, "int", 2)], sev=2 if shn in "13" else SEV_COLOURED_UNREG, lc=lc)
                gt.add(dict(t="lc", fg=lc[0], bg=lc[1], lines=lines_class(msg), shape=shn, attrs="int"), msg=msg,
                       attrs=[node(2, "int", 2)], sev=4, lc=lc)
    gen_forms(gt, vocab, trees[:: (10 if quick else 8)], True)
    gen_env(gt, True)
    gen_big(gt, vocab, 40 if quick else 1500, clean_of=None)
    gen_big(gt, vocab, 40 if quick else 1500, clean_of=known_feats)

    allfound = []
    sigs = set()
    seen_keys = set()
    seen_minimal = set()
    for gen, testing, nm in ((g, False, "prod"), (gt, True, "gotest")):
        tp, dp = run_worker(ctx, gen.cases, testing, nm)
        details = read_ndjson(dp)
        bad, skipped = validate(ctx, tp, "enc-trace-" + nm)
        if len(bad) + skipped >= len(gen.cases):
            raise Undecided("no record was accepted by the specification - binding or harness broken")
        if not testing:
            binding_selftest(ctx, tp, bad)
        ctx.traces += 1
        ctx.evaluations += len(gen.cases) - skipped
        big = [i for i, t in enumerate(gen.tags) if t["t"] == "big"]
        rej = {b["line"] - 1 for b in bad}
        ctx.extra["big_records_" + nm] = dict(clean=sum(1 for i in big if gen.tags[i]["clean"]),
                                              clean_rejected=sum(1 for i in big if gen.tags[i]["clean"] and i in rej),
                                              any_feature=sum(1 for i in big if not gen.tags[i]["clean"]),
                                              any_feature_rejected=sum(1 for i in big if not gen.tags[i]["clean"] and i in rej))
        ctx.extra["skipped_outside_domain_" + nm] = skipped
        # binding of the colour configuration: the codes SetLevelColors was given must show up in colored records
        lcset = [d for c, d in zip(gen.cases, details) if c["lc"]["set"] and c["lc"]["fg"] + c["lc"]["bg"] != "nonenone"
                 and c.get("env", "default") == "default"]
        if fmt == "color":
            seen = sum(1 for d in lcset if d.get("lcon"))
            ctx.extra["colour_configurations_seen_in_stream_" + nm] = "%d of %d" % (seen, len(lcset))
            if lcset and seen * 2 < len(lcset):
                raise Undecided("SetLevelColors had no visible effect in %d of %d colored records - binding broken"
                                % (len(lcset) - seen, len(lcset)))
        ctx.extra["rejected_records_" + nm] = len(bad)
        allfound += name_findings(ctx, fmt, vocab, gen.cases, gen.tags, bad, details, testing, seen_keys, seen_minimal)
        for c, t in zip(gen.cases, gen.tags):
            sigs.add(nontrivial_sig(c, t))
        if testing is False:
            ctx.sample(dict(abstract=gen.cases[5], payload=details[5]["payload"][:300]))
            ctx.sample(dict(abstract_tree=gen.cases[len(gen.cases) // 2]["attrs"],
                            payload=details[len(gen.cases) // 2]["payload"][:300]))
    ctx.nontrivial += len(sigs)
    # ---- the same property over histories (spec/EncoderHist.tla, checks/enchistlib.py)
    enchistlib.run_history(ctx, fmt)
    ctx.extra["trees_enumerated_by_tlc"] = len(trees)
    ctx.extra["records_by_source"] = {k: sum(1 for t in g.tags + gt.tags if t["t"] == k)
                                      for k in ("cls", "value", "tree", "grid", "reskey", "rtree", "lc", "blank", "big")}
    ctx.extra["records_by_form"] = {f: sum(1 for c in g.cases + gt.cases if c["form"] == f) for f in sorted(vocab["forms"])}
    ctx.extra["records_by_env"] = {e: sum(1 for c in g.cases + gt.cases if c["env"] == e) for e in sorted(vocab["envs"])}
    ctx.extra["records_by_source"]["caller-site"] = sum(1 for t in g.tags + gt.tags if t.get("pos") == "cfile")
    ctx.extra["records_with_line_site"] = sum(1 for c in g.cases + gt.cases if c["caller"] and c["site"])
    ctx.extra["reserved_key_trees_enumerated_by_tlc"] = len(vocab["rtrees"])
    ctx.extra["finding_keys"] = sorted({k for k, _ in allfound})
    ctx.assumptions += [
        "value fidelity inside an abstract class is sampled (several concrete representatives per class per seed), structure is exhaustive up to the builder bound",
        "timestamps are checked for presence only (C16 owns their format); the level member is compared with Level.String()",
        "keys contain no '.'; time/level/msg/logger/caller are generated as keys of group members at every depth (ordinary "
        "attributes in all three formats); as TOP-LEVEL keys the FOUR reserved field names of the library (constants time / level / "
        "msg / caller) are outside the domain of C04, all five outside the domain of C05 (its quantifier gives no number); a top-level "
        "`logger` is inside C04 (named and unnamed loggers; the names of the record's object must be pairwise distinct) and all "
        "five are inside C06, where a top-level `time` holding a time.Time may be rendered in any way (TopTimeWaived); values of "
        "kinds whose colored syntax C06 does not fix contain no spaces",
        "argument form: records are handed over through Entry.WriteThru, or issued by the logging call Logit(ctx, sev, msg, args...) "
        "with Attr arguments / alternating key, value arguments at every level (slog.Group for groups) from the worker's own call "
        "site (time = now, checked against a window); a logging call at severity Always with a blank message is C02's blank line "
        "whatever its arguments and is skipped (BlankPrint), handed over through WriteThru it is a record; process environment: "
        "is.SetNoColorMode(true) is switched on right before a record with env = nocolor and off again after it",
        "time values: UTC, whole-minute offsets and offsets with a seconds part are representatives of the kinds time / times; a "
        "decoded text must denote the same instant; logfmt slices: the line is split at blanks outside quoted strings first, then "
        "the text of ONE value token is read as the list",
        "caller member: records with the caller flag are attributed to real call sites of the worker, most of them behind "
        "//line directives whose file names carry a backslash (Windows paths), quote, blank, TAB, CR, LF (block form), other "
        "control characters, ESC, DEL, non-ASCII, U+200B/U+0085, U+2028, astral code points, markup, '=' - everything the Go "
        "toolchain accepts (it refuses invalid UTF-8, NUL and U+FEFF); caller.file must decode to EXACTLY slog.Safety(file the "
        "runtime reports for the site) evaluated right after the record under the same flags, line exactly, the function by its "
        "last path element; colored: C06 fixes no quoting for the caller - the file is accepted as it is or Go-quoted - and a "
        "file name with a control character (the program's own source position, not an attribute value) is judged for colour "
        "hygiene only; per-record cells hand the program counter of the site to Entry.WriteThru, the history component logs "
        "from the site through Info / Warn / Logit / LogAttrs",
        "level colours: SetLevelColors is called right before a record that carries lc.set and the table is put back afterwards "
        "(sequences of colour changes and records are the history component's); an escape sequence ESC [ ... m with a malformed "
        "parameter list (ESC[-1m, written for a level without foreground) is an escape sequence a terminal ignores: removed "
        "like any other, no state change",
    ]
    return ctx.finish(
        rule="records = (position x character class) cells, value-kind cells, every attribute tree TLC enumerated "
             "(<=%d nodes), presentation grid, caller-site cells (every file-name class the toolchain accepts in a //line "
             "directive x sites of that class x message / attribute shapes, caller flag on), reserved-name cells (5 names x every kind x depth 1..3, every tree over "
             "{k01,time}), level-colour cells ({no fg,fg} x {none,bg,attr} x line shapes x attribute lists x severities), "
             "argument-form cells (every tree and every value kind as a logging call with key/value pairs, trees as calls with Attr "
             "arguments, blank messages at Always and 7 other severities x 3 forms x attribute lists), process-environment cells "
             "(no-colour switch on: factory colours of every severity and every colour configuration x line shapes x attribute "
             "lists, a slice of the grid), "
             "seeded random big records, in production and go-test mode; "
             "non-trivial = distinct abstract records (message classes, attribute tree with kinds/classes, name, "
             "severity, caller, widths) executed and validated; PLUS histories of EncoderHist.tla: edge cover of the "
             "TLC graphs of the groups cfg/seq/lvl/dbg/big/clr (every configuration call sequence followed by a record, every "
             "pair/triple of consecutive records and collections, register/width/switch events between records, size "
             "classes, every SetLevelColors configuration of a built-in and a custom severity followed by records of 1..4 lines) and seeded random deeper histories, one process per group and process kind, non-trivial there = "
             "distinct (group, process kind, previous event, event with the logger's reported mode) pairs" % (3 if quick else 4),
        exhaustive=True)


def do_replay(ctx, fmt, path):
    with open(path) as fh:
        rp = json.load(fh)["replay"]
    if rp.get("kind") == "enchist":
        return enchistlib.replay(ctx, fmt, rp)
    case = rp["case"]
    case["id"] = rp["case"]["id"]
    ctx.seed = rp.get("seed", ctx.seed)
    tp, dp = run_worker_single(ctx, case, rp.get("testing", False))
    details = read_ndjson(dp)
    bad, skipped = validate(ctx, tp, "enc-replay")
    ctx.traces += 1
    ctx.evaluations += 1
    ctx.nontrivial += 1
    ctx.states += 1
    ctx.transitions += 1
    print("payload now: " + details[0]["payload"][:1500])
    vocab = dict(must=rp.get("must", {fmt: []}))
    for b in bad:
        # the same allowances as in a full run: a listed known finding whose feature the record
        # carries is reported as such, anything else is a violation
        tag = rp.get("tag", {})
        cands = [rp.get("key", "")]
        if tag.get("t") == "value":
            cands.append("%s:value:%s" % (fmt, tag["kind"]))
        if tag.get("t") == "grid" and tag.get("shape", "regular") != "regular":
            cands.append("%s:msg:%s" % (fmt, tag["shape"]))
        known = [k["key"] for k in ctx.known if k["key"].startswith(fmt + ":")]
        cands += [k for k in known if k.split(":")[1] != "record" and feats_match(fmt, k, b["feats"], vocab)]
        hit = [k for k in cands if k in known]
        key = hit[0] if hit else (rp.get("key") or "%s:replay:%s" % (fmt, "+".join(sorted(b["diag"]))))
        ctx.finding(key, "replayed record still violates %s (mode %s); payload=%s" % (
            ",".join(sorted(b["diag"])), b["mode"], details[0]["payload"][:1500]), rp)
    return ctx.finish(rule="replay of one recorded record", exhaustive=False)


if __name__ == "__main__":
    import sys
    if len(sys.argv) > 1 and sys.argv[1] == "gen-sites":
        gen_line_sites(sys.argv[2] if len(sys.argv) > 2 else None)


def run_worker_single(ctx, case, testing):
    cp = os.path.join(ctx.scratch, "replay-cases.json")
    tp = os.path.join(ctx.scratch, "replay-trace.ndjson")
    dp = os.path.join(ctx.scratch, "replay-details.ndjson")
    with open(cp, "w") as fh:
        json.dump(dict(seed=ctx.seed, cases=[case]), fh)
    ctx.run_worker(["enc", cp, tp, dp], testing=testing, timeout=300)
    return tp, dp
