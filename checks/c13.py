"""C13: failing destinations - bounded reaction, no lost records elsewhere, recovery."""
import itertools

import corelib

OBS = ["dest"]
PROBES = [4, 2]


def fail_sets(quick):
    keys = [(ph, w, 1) for ph in (1, 2) for w in (1, 2)]
    sets = []
    for n in range(0, len(keys) + 1):
        for comb in itertools.combinations(keys, n):
            sets.append([list(k) for k in comb])
    # duplicates in a list: second occurrence of the same writer
    sets += [[[1, 1, 2]], [[1, 1, 1], [1, 1, 2]], [[2, 2, 2], [1, 1, 1]], [[1, 2, 2], [2, 1, 2]]]
    return sets        # index 1 (TLA+ 1-based) is the empty assignment


def config(quick):
    sa = {
        "Writer": [(1, 0)], "AddWriter": [(2, 0)] if quick else [(1, 0), (2, 0)],
        "ErrorWriter": [(1, 0), (2, 0)], "AddErrorWriter": [(2, 0)] if quick else [(1, 0), (2, 0)],
        "Level": [(4, 0), (2, 0)] if quick else [(4, 0), (2, 0), (7, 0), (8, 0)],
        "AddLevelWriter": [(2, 3)] if quick else [(2, 3), (1, 4)],
    }
    return dict(max_loggers=1, init_level=5, names=[], bool_lists=[[]], layouts=[""], opt_lists=[[]],
                setter_args=sa, acts=["Set", "LogF"], probe_sevs=PROBES, wlevels=[3, 4], max_list=2,
                fail_sets=fail_sets(quick), log_sevs=[4, 2, 3, 8] if quick else [4, 2, 3, 8, 11, 5, 7, 0])


def config_files(quick):
    """Destinations that fail for real: files closed through the writer list they are in (Close of what
    GetWriterBy hands out).  Writer 45/46 are the library's own file destinations (NewFileWriter), 41 a
    plain *os.File, 2 a recording LogWriter; a closed file fails every later attempt."""
    sa = {"Writer": [(45, 0)], "AddWriter": [(2, 0), (41, 0)] if quick else [(2, 0), (41, 0), (46, 0)],
          "ErrorWriter": [(46, 0)] if quick else [(46, 0), (2, 0)], "AddErrorWriter": [(2, 0)], "Level": [(4, 0)]}
    return dict(max_loggers=1, init_level=5, names=[], bool_lists=[[]], layouts=[""], opt_lists=[[]],
                setter_args=sa, acts=["Set", "LogF", "CloseW"], probe_sevs=PROBES, wlevels=[], max_list=2,
                fail_sets=[[], [[1, 2, 1]], [[2, 2, 1]]], log_sevs=[4, 2, 3])


def config_many(quick):
    """Many members in one list, all or most of them failing on the same record."""
    opt = lambda k, a, b=0: dict(k=k, a=a, b=b)
    many = [opt("Writer", 1)] + [opt("AddWriter", w) for w in (2, 3, 4, 5, 6, 41)] + [opt("ErrorWriter", 2)] + [opt("AddErrorWriter", w) for w in (1, 5, 6)]
    fs = [[], [[1, w, 1] for w in (1, 2, 3, 4, 5, 6)], [[1, w, 1] for w in (1, 2, 3, 4, 5)], [[1, w, 1] for w in (2, 3, 5, 6)] + [[2, 2, 1], [2, 1, 1], [2, 5, 1], [2, 6, 1]],
          [[1, 1, 1], [1, 6, 1], [2, 6, 1]]]
    return dict(max_loggers=2, init_level=5, names=[], bool_lists=[[]], layouts=[""], opt_lists=[many],
                setter_args={"Level": [(4, 0)]}, acts=["NewDetached", "LogF"], probe_sevs=PROBES, wlevels=[], max_list=8,
                fail_sets=fs, log_sevs=[4, 2, 3])


def rand_config(c):
    r = dict(c)
    r["acts"] = ["Set", "LogF", "LogF", "With"]
    r["setter_args"] = dict(c["setter_args"])
    r["setter_args"].update({"RemoveWriter": [(1, 0), (2, 0)], "ResetWriters": [(0, 0)], "AddWriter": [(1, 0), (2, 0)],
                             "AddErrorWriter": [(1, 0), (2, 0)], "Level": [(v, 0) for v in (0, 2, 3, 4, 5, 7, 8)]})
    r["log_sevs"] = [0, 1, 2, 3, 4, 5, 6, 7, 8, 9, 10, 11]
    r["max_loggers"] = 2
    return r


def explain(ev, b):
    if ev["op"] == "CloseW" or "hang" in str(ev.get("outcome", "")):
        return [("%s:%s" % (ev["op"], "hang" if "hang" in str(ev.get("outcome", "")) else "close"),
                 "%s(l=%s, a=%s): observed %s ; model expected %s" % (ev["op"], ev["l"], ev["a"], {k: v for k, v in ev.items() if k != "obs"}, b["expected"][:400]))]
    if ev["op"] != "LogF":
        return None
    return [("LogF:sev%d" % ev["a"], "record of severity %d under fault assignment #%d: attempts observed %s outcome %s ; model expected %s" % (
        ev["a"], ev["b"], ev.get("evs"), ev.get("outcome"), b["expected"][:600]))]


def run(ctx, replay):
    c = config(ctx.quick())
    rc = rand_config(c)
    if replay:
        return corelib.replay_core(ctx, replay, rc, OBS)
    jobs = []          # the graphs are independent: they run side by side
    jobs.append(lambda: corelib.run_core(ctx, c, invariants=["BoundedReaction", "RouteOK"], properties=[], obs=OBS,
                     rand_count=60 if ctx.quick() else 800, rand_depth=30 if ctx.quick() else 50,
                     rand_loggers=3, rand_cfg=rc, key_fn=explain))
    jobs.append(lambda: corelib.run_core(ctx, config_files(ctx.quick()), invariants=["BoundedReaction", "RouteOK"], properties=[], obs=OBS,
                     rand_count=0, rand_depth=0, rand_loggers=1, key_fn=explain, tag="files"))
    jobs.append(lambda: corelib.run_core(ctx, config_many(ctx.quick()), invariants=["BoundedReaction", "RouteOK"], properties=[], obs=OBS,
                     rand_count=0, rand_depth=0, rand_loggers=2, key_fn=explain, tag="many"))
    corelib.run_jobs(jobs)
    ctx.extra["fail_assignments"] = len(c["fail_sets"])
    ctx.assumptions += ["faults are injected by the recording writers (Write returns an error and writes nothing)",
                        "real stdout/stderr never fail",
                        "a diagnostic record is recognised by its message text 'slog print log failed'",
                        "attempts are compared as bags of (writer, phase, failed) per call"]
    return ctx.finish(level="fault_enumeration", rule="every transition of the exhaustive MC graph executed: every writer layout x logger level x severity class "
                           "x fault assignment (all subsets of {record, diagnostic} x 2 writers, plus duplicate-entry cases); each "
                           "LogF edge issues one record under that assignment and TLC compares the attempts seen with Deliver(); "
                           "fault-free probes after every call check recovery; + seeded random histories",
                      exhaustive=True)
