"""C02: exactly-once delivery - each admitted call is one whole Write, for any arguments."""
import corelib

TOKENS = ["key", "ekey", "str", "int", "nil", "err", "any", "attr", "attrs", "attrslice", "group", "egroup", "ngroup", "bigattrs"]
EPS = ["verb", "ctx", "LogAttrs", "Logit", "Println", "pkg", "pkg.ctx", "pkg.Println"]
MSG = ["plain", "empty", "blank", "none", "multi", "trailnl", "bytes"]
OBS = []


def config(quick):
    sa = {"JSONMode": [(1, 0)], "ColorMode": [(1, 0), (2, 0)], "Level": [(4, 0), (7, 0)], "Writer": [(1, 0)], "AddWriter": [(2, 0)]}
    return dict(max_loggers=1, init_level=5, names=[], bool_lists=[[], [False]], layouts=[""], opt_lists=[[]],
                setter_args=sa, acts=["Set", "LogA"], probe_sevs=[4], max_list=2,
                log_sevs=[4, 8, 5] if quick else [4, 8, 5, 2, 0, 11, 7],
                tokens=TOKENS, eps=EPS, msg_classes=MSG, max_args=2, rand_max_args=12)     # longer lists come from the random calls (up to 12 arguments)


def rand_config(c):
    r = dict(c)
    r["acts"] = ["Set", "LogA", "LogA", "LogA", "With"]
    r["log_sevs"] = list(range(0, 12))
    r["max_loggers"] = 2
    return r


def explain(ev, b):
    if ev["op"] != "LogA":
        return None
    first = ev["args"][0] if ev.get("args") else "-"
    if str(ev.get("outcome", "")).startswith("panic"):
        key = "LogA:panic:%s:first=%s" % (ev["k"], first)
    else:
        key = "LogA:writes:%s" % ev["k"]
    return [(key, "%s at severity %d, message class %s, arguments %s: writes %s outcome %s ; model expected %s" % (
        ev["k"], ev["a"], ev.get("mc"), ev.get("args"), ev.get("evs"), ev.get("outcome"), b["expected"][:500]))]


def run(ctx, replay):
    c = config(ctx.quick())
    rc = rand_config(c)
    if replay:
        return corelib.replay_core(ctx, replay, rc, OBS)
    corelib.run_core(ctx, c, invariants=["ExactlyOnce", "RouteOK"], properties=[], obs=OBS,
                     rand_count=80 if ctx.quick() else 1500, rand_depth=30 if ctx.quick() else 40,
                     rand_loggers=3, rand_cfg=rc, key_fn=explain, max_len=400)
    ctx.assumptions += ["argument tokens are concretised with several Go values per kind, drawn per seed (values whose own methods panic and cyclic values excluded)",
                        "Panic/Fatal severities are issued with the no-interrupt flag so that the call returns",
                        "a Write is observed by recording writers and, for stdout/stderr, as one packet per write(2) on a SOCK_SEQPACKET pair"]
    return ctx.finish(rule="every LogA transition of the exhaustive MC graph executed: (format x level x writer layout) x entry-point "
                           "class x severity x (every argument-token list up to length 2 (quick) / 3 (thorough) over 13 token kinds "
                           "+ 6 message classes); TLC compares the Write events (writer, ends-with-newline, is-single-newline) and "
                           "the outcome with ExpectA; + seeded random calls with up to 12 arguments; non-trivial = distinct "
                           "(op, entry point, severity, message class, token list, receiver)",
                      exhaustive=True)
