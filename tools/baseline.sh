#!/bin/sh
# Runs the repository's pinned test suite (both modules) with the verif guard OFF.
# Prints the number of passing top-level+sub tests; exit 1 on any failure.
export GOPROXY=off GOSUMDB=off GOTOOLCHAIN=local
rc=0
for m in . ./tests; do
  (cd /repo/$m && go test -json -vet=off -count=1 -timeout 25m ./... ) > /tmp/baseline.$$.json 2>/tmp/baseline.$$.err || rc=1
  p=$(grep -c '"Action":"pass","Package":"[^"]*","Test"' /tmp/baseline.$$.json)
  f=$(grep -c '"Action":"fail","Package":"[^"]*","Test"' /tmp/baseline.$$.json)
  echo "module $m: pass=$p fail=$f"
  grep '"Action":"fail","Package":"[^"]*","Test"' /tmp/baseline.$$.json | head -5
  [ "$f" = 0 ] || rc=1
done
rm -f /tmp/baseline.$$.json /tmp/baseline.$$.err
exit $rc
