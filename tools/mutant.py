#!/usr/bin/env python3
"""Evaluate a seeded change produced by an independent sub-agent.

  mutant.py eval <dir-with-patch.diff+demo_test.go+meta.json> <worktree> <PROP>[,<PROP>...] [--tier quick]
      1. clean worktree: demo passes;  2. patch applied: builds, whole existing suite passes, demo fails;
      3. our check(s) run against the patched worktree (VERIF_REPO), evidence/replays redirected.
  mutant.py keep <dir> <seeded-id> "<what we ran / result>"
"""
import json
import os
import re
import shutil
import subprocess
import sys

VERIF = os.path.dirname(os.path.dirname(os.path.abspath(__file__)))
ENV = dict(os.environ, GOPROXY="off", GOSUMDB="off", GOTOOLCHAIN="local")
ENV.pop("GOFLAGS", None)


def sh(cmd, cwd, timeout=1800, env=None):
    p = subprocess.run(cmd, cwd=cwd, shell=True, capture_output=True, text=True, timeout=timeout, env=env or ENV)
    return p.returncode, p.stdout + p.stderr


def demo(wt, d, meta):
    src = open(os.path.join(d, "demo_test.go")).read()
    names = re.findall(r"^func (Test\w+)\(", src, re.M)
    pkg = meta.get("demo_package", "slog")
    pkgdir = pkg if "/" in pkg else "slog"
    dst = os.path.join(wt, pkgdir, "zz_seeded_demo_test.go")
    shutil.copyfile(os.path.join(d, "demo_test.go"), dst)
    race = "-race" if "-race" in meta.get("demo_cmd", "") else ""
    if " -cover" in meta.get("demo_cmd", ""):
        race += " -cover"
    rc, out = sh("go test -vet=off -count=1 %s -run '^(%s)$' ./%s/" % (race, "|".join(names), pkgdir), wt)
    os.remove(dst)
    return rc, out


def suite(wt):
    rc1, o1 = sh("go build ./... && go test -vet=off -count=1 ./...", wt)
    rc2, o2 = sh("go test -vet=off -count=1 ./...", os.path.join(wt, "tests"))
    return rc1 == 0 and rc2 == 0, o1[-1500:] + o2[-800:]


def main():
    if sys.argv[1] == "keep":
        d, sid, ran = sys.argv[2], sys.argv[3], sys.argv[4]
        dst = os.path.join(VERIF, "seeded", sid)
        os.makedirs(dst, exist_ok=True)
        for f in ("patch.diff", "demo_test.go"):
            shutil.copyfile(os.path.join(d, f), os.path.join(dst, f))
        meta = json.load(open(os.path.join(d, "meta.json")))
        meta["verified"] = ran
        json.dump(meta, open(os.path.join(dst, "meta.json"), "w"), indent=1)
        print("kept", dst)
        return
    d, wt, props = sys.argv[2], sys.argv[3], sys.argv[4].split(",")
    tier = sys.argv[sys.argv.index("--tier") + 1] if "--tier" in sys.argv else "quick"
    meta = json.load(open(os.path.join(d, "meta.json")))
    sh("git checkout -- . && rm -f slog/zz_seeded_demo_test.go", wt)
    # out/ may contain test files: make sure it is a separate module
    if not os.path.exists(os.path.join(wt, "out", "go.mod")):
        open(os.path.join(wt, "out", "go.mod"), "w").write("module out\n")
    res = dict(dir=d, summary=meta.get("summary"))
    rc, out = demo(wt, d, meta)
    res["demo_passes_clean"] = rc == 0
    rc, out = sh("git apply %s" % os.path.join(d, "patch.diff"), wt)
    if rc != 0:
        print(json.dumps(dict(res, error="patch does not apply: " + out[-500:])))
        return
    ok, out = suite(wt)
    res["suite_passes_patched"] = ok
    if not ok:
        res["suite_output"] = out
    rc, out = demo(wt, d, meta)
    res["demo_fails_patched"] = rc != 0
    res["valid"] = bool(res["demo_passes_clean"] and res["suite_passes_patched"] and res["demo_fails_patched"])
    checks = {}
    if res["valid"]:
        env = dict(os.environ, VERIF_REPO=wt, VERIF_EVID="/tmp/mut/evid", VERIF_REPLAYS="/tmp/mut/replays", VERIF_NO_BUILD_RETRY="1")
        os.makedirs("/tmp/mut/evid", exist_ok=True)
        for p in props:
            rc, out = sh("./check %s --tier %s" % (p, tier), VERIF, timeout=3600, env=env)
            lines = [l for l in out.splitlines() if l.startswith("VIOLATION") or l.startswith("  [") or l.startswith("UNDECIDED") or l.startswith("KNOWN")]
            checks[p] = dict(rc=rc, first=lines[:4])
    res["checks"] = checks
    res["caught"] = any(c["rc"] == 1 for c in checks.values())
    sh("git checkout -- . && rm -f slog/zz_seeded_demo_test.go", wt)
    print(json.dumps(res, indent=1)[:3000])


if __name__ == "__main__":
    main()
