"""Shared machinery for the /verif checks: scratch space, building the Go worker from /repo's
current tree, running TLC (exhaustive, dump, trace validation), known findings, evidence.

Exit codes of a check: 0 property held on everything explored, 1 violation (reproduced on the
real code), 2 could not decide (infrastructure problem) - never reported as a violation.
"""
import atexit
import json
import os
import re
import shutil
import subprocess
import sys
import tempfile
import time

VERIF = os.path.dirname(os.path.dirname(os.path.abspath(__file__)))
REPO = os.environ.get("VERIF_REPO", "/repo")
SPEC = os.path.join(VERIF, "spec")
HARNESS = os.path.join(VERIF, "harness")
EVID = os.environ.get("VERIF_EVID", os.path.join(VERIF, "evidence"))      # mutant runs write elsewhere
REPLAYS = os.environ.get("VERIF_REPLAYS", os.path.join(VERIF, "out", "replays"))
KNOWN = os.path.join(VERIF, "known_findings.json")
NCPU = os.cpu_count() or 4


class Undecided(Exception):
    """Infrastructure failure: exit 2, never a violation."""


def goenv():
    e = dict(os.environ)
    e.update(GOFLAGS="-mod=mod", GOPROXY="off", GOSUMDB="off", GOTOOLCHAIN="local", GOWORK="off",
             CGO_ENABLED=e.get("CGO_ENABLED", "1"))
    return e


import threading
_BUILD_LOCK = threading.RLock()


class Ctx:
    def __init__(self, prop, tier, seed):
        self.prop = prop
        self.tier = tier
        self.seed = seed
        self.t0 = time.time()
        base = os.environ.get("TMPDIR", "/tmp")
        self.scratch = tempfile.mkdtemp(prefix="verif-%s-" % prop, dir=base)
        atexit.register(self.cleanup)
        self.violations = []      # list of dict(what=..., replay=path)
        self.known_hits = {}      # key -> count
        self.states = 0
        self.transitions = 0
        self.traces = 0
        self.evaluations = 0
        self.nontrivial = 0
        self.samples = []
        self.extra = {}
        self.assumptions = []
        self.tlc_runs = []
        self._workers = {}
        self.known = load_known(prop)

    def cleanup(self):
        shutil.rmtree(self.scratch, ignore_errors=True)

    def quick(self):
        return self.tier == "quick"

    def sub(self, name):
        d = os.path.join(self.scratch, name)
        os.makedirs(d, exist_ok=True)
        return d

    # ------------------------------------------------------------------ worker
    def worker(self, race=False, tags="verif"):
        # (checks may run several components in threads: one build at a time)
        with _BUILD_LOCK:
            return self._worker_locked(race, tags)

    def _worker_locked(self, race, tags):
        key = (race, tags)
        if key in self._workers:
            return self._workers[key]
        out = os.path.join(self.scratch, "worker" + ("-race" if race else "") + "-" + tags.replace(",", "_"))
        cmd = ["go", "build", "-tags", tags, "-o", out]
        if race:
            cmd.insert(2, "-race")
        cmd.append(".")
        # build from a scratch copy of harness/ whose go.mod points at the tree under test.
        # harness/ is one Go package shared by all families; while several builders edit it a
        # file may be momentarily broken, so a failed build is retried with a fresh copy.
        src = os.path.join(self.scratch, "harness-src")
        p = None
        for attempt in range(8):
            shutil.rmtree(src, ignore_errors=True)
            shutil.copytree(HARNESS, src)
            with open(os.path.join(src, "go.mod")) as fh:
                gm = fh.read()
            gm = re.sub(r"replace github.com/hedzr/logg => .*", "replace github.com/hedzr/logg => " + REPO, gm)
            with open(os.path.join(src, "go.mod"), "w") as fh:
                fh.write(gm)
            shutil.copyfile(os.path.join(REPO, "go.sum"), os.path.join(src, "go.sum"))
            p = subprocess.run(cmd, cwd=src, env=goenv(), capture_output=True, text=True)
            if p.returncode == 0 or os.environ.get("VERIF_NO_BUILD_RETRY"):
                break
            time.sleep(6)
        if p.returncode != 0:
            # A harness that does not build against the tree cannot decide anything.
            raise Undecided("worker build failed:\n" + p.stdout + p.stderr)
        # second name ending in .test: with a -test.* argument the library believes it is under go test
        tname = out + ".test"
        shutil.copyfile(out, tname)
        os.chmod(tname, 0o755)
        self._workers[key] = out
        return out

    def worker_testbin(self, cover=True, tags="verif"):
        """The worker built as a real go test binary (go test -c [-cover])."""
        key = ("testbin", cover, tags)
        if key in self._workers:
            return self._workers[key]
        self.worker(tags=tags)                      # makes sure harness-src exists and builds
        src = os.path.join(self.scratch, "harness-src")
        out = os.path.join(self.scratch, "worker-cover.test" if cover else "worker-real.test")
        cmd = ["go", "test", "-c", "-vet=off", "-tags", tags, "-o", out] + (["-cover"] if cover else []) + ["."]
        p = subprocess.run(cmd, cwd=src, env=goenv(), capture_output=True, text=True)
        if p.returncode != 0:
            raise Undecided("test-binary build of the worker failed:\n" + p.stdout + p.stderr)
        self._workers[key] = out
        return out

    def run_worker(self, args, race=False, testing=True, timeout=600, stdin=None, env=None, tags="verif",
                   check=True, cwd=None, testbin=None):
        """Run the worker. testing=True -> argv[0] ends in .test and a -test.v=false arg is appended."""
        w = self.worker(race=race, tags=tags)
        argv = [w + ".test" if testing else w] + list(args)
        if testbin:                                  # a real go test binary ("cover" / "plain")
            argv = [self.worker_testbin(cover=(testbin == "cover"), tags=tags)] + list(args)
        if testing:
            argv.append("-test.timeout=0")
        e = dict(os.environ)
        e.pop("DEBUG", None)
        if testbin:
            e["GOCOVERDIR"] = self.sub("gocover")
        if env:
            e.update(env)
        try:
            p = subprocess.run(argv, capture_output=True, text=True, timeout=timeout, input=stdin, env=e,
                               cwd=cwd or self.scratch, errors="replace")
        except subprocess.TimeoutExpired:
            raise Undecided("worker timeout: %s" % " ".join(args))
        if check and p.returncode != 0:
            raise Undecided("worker %s failed rc=%s\n%s\n%s" % (" ".join(args), p.returncode, p.stdout[-4000:], p.stderr[-4000:]))
        return p

    # ------------------------------------------------------------------ TLC
    def tlc(self, module, cfg, files=None, workers=None, extra=None, timeout=900, name=None, heap=None,
            allow_fail=False, copy=None):
        """Run TLC on spec/<module>.tla with spec/<cfg> in a scratch copy. Returns TLCResult."""
        name = name or (module + "-" + os.path.splitext(os.path.basename(cfg))[0])
        d = self.sub("tlc-" + name)
        for f in os.listdir(SPEC):
            if f.endswith(".tla") or f.endswith(".cfg"):
                shutil.copyfile(os.path.join(SPEC, f), os.path.join(d, f))
        for src, dst in (copy or {}).items():
            shutil.copyfile(src, os.path.join(d, dst))
        for fn, content in (files or {}).items():
            with open(os.path.join(d, fn), "w") as fh:
                fh.write(content)
        meta = os.path.join(d, "meta")
        shutil.rmtree(meta, ignore_errors=True)
        cmd = ["tlc", "-workers", str(workers or NCPU), "-metadir", meta, "-config", cfg]
        cmd += list(extra or [])
        cmd.append(module + ".tla")
        e = dict(os.environ)
        jo = "-Djava.io.tmpdir=%s -Xss64m -Xmx%s" % (d, heap or "6g")
        if workers == 1:
            # single-threaded runs (trace validation) are started side by side: keep each JVM's helper threads few
            jo += " -XX:ParallelGCThreads=2 -XX:ConcGCThreads=1 -XX:CICompilerCount=2"
        e["JAVA_TOOL_OPTIONS"] = (e.get("JAVA_TOOL_OPTIONS", "") + " " + jo).strip()
        t0 = time.time()
        try:
            p = subprocess.run(["timeout", str(timeout)] + cmd, cwd=d, env=e, capture_output=True, text=True,
                               errors="replace")
        except Exception as ex:  # pragma: no cover
            raise Undecided("tlc could not be started: %s" % ex)
        out = p.stdout + p.stderr
        r = TLCResult(name, d, p.returncode, out, time.time() - t0)
        self.tlc_runs.append(dict(name=name, rc=p.returncode, generated=r.generated, distinct=r.distinct,
                                  depth=r.depth, wall_s=round(r.wall, 2)))
        if p.returncode == 124:
            raise Undecided("tlc timeout on %s" % name)
        if not allow_fail and not r.ok:
            raise Undecided("tlc failed on %s (rc=%s):\n%s" % (name, p.returncode, out[-6000:]))
        shutil.rmtree(meta, ignore_errors=True)
        return r

    def model_check(self, module, cfg, **kw):
        """Exhaustive run whose invariants must hold on the model; adds to states/transitions."""
        r = self.tlc(module, cfg, **kw)
        self.states += r.distinct
        self.transitions += r.generated
        return r

    # ------------------------------------------------------------------ findings
    def violation(self, what, replay_obj):
        os.makedirs(os.path.join(REPLAYS, self.prop), exist_ok=True)
        n = len(self.violations) + 1
        path = os.path.join(REPLAYS, self.prop, "%s-%s-seed%d-%d.json" % (self.prop, self.tier, self.seed, min(n, 25)))
        if n <= 25:
            with open(path, "w") as fh:
                json.dump(dict(property=self.prop, what=what, replay=replay_obj), fh, indent=1, default=str)
        self.violations.append(dict(what=what, replay=path))
        if len(self.violations) <= 8:
            print("VIOLATION property=%s replay=%s" % (self.prop, path))
            print("  " + what[:400])
        sys.stdout.flush()

    def finding(self, key, what, replay_obj):
        """Report a divergence identified by signature `key`: a listed known finding is printed as
        KNOWN-FINDING (once per key), anything else is a violation."""
        for k in self.known:
            if k["key"] == key:
                if key not in self.known_hits:
                    print("KNOWN-FINDING: property=%s %s %s" % (self.prop, key, k.get("what", "")))
                    sys.stdout.flush()
                self.known_hits[key] = self.known_hits.get(key, 0) + 1
                return False
        self.violation("[%s] %s" % (key, what), replay_obj)
        return True

    def sample(self, obj, limit=4):
        if len(self.samples) < limit:
            self.samples.append(obj)

    # ------------------------------------------------------------------ evidence
    def finish(self, level="model_checking", rule="", exhaustive=False):
        os.makedirs(EVID, exist_ok=True)
        if getattr(self, "replay_mode", False):
            if self.violations:
                return 1
            print("%s: replay ok (no divergence on the current tree)" % self.prop)
            return 0
        cov = dict(states=int(self.states), transitions=int(self.transitions),
                   traces_validated_against_impl=int(self.traces),
                   evaluations=int(self.evaluations), distinct_nontrivial=int(self.nontrivial),
                   rule=rule, samples=self.samples[:6] or ["(none)"], exhaustive=bool(exhaustive),
                   tlc_runs=self.tlc_runs, known_findings_hit=self.known_hits)
        cov.update(self.extra)
        ev = dict(property_id=self.prop, tier=self.tier, seed=int(self.seed), level=level, coverage=cov,
                  assumptions=self.assumptions, wall_s=round(time.time() - self.t0, 2),
                  violations=len(self.violations))
        with open(os.path.join(EVID, self.prop + ".json"), "w") as fh:
            json.dump(ev, fh, indent=1, default=str)
        if self.violations:
            print("%s: %d violation(s)" % (self.prop, len(self.violations)))
            return 1
        print("%s: ok tier=%s seed=%d states=%d transitions=%d traces=%d evaluations=%d nontrivial=%d wall=%.1fs" % (
            self.prop, self.tier, self.seed, self.states, self.transitions, self.traces, self.evaluations,
            self.nontrivial, time.time() - self.t0))
        return 0


class TLCResult:
    def __init__(self, name, d, rc, out, wall):
        self.name, self.dir, self.rc, self.out, self.wall = name, d, rc, out, wall
        m = re.findall(r"(\d+) states generated, (\d+) distinct states found", out)
        self.generated = int(m[-1][0]) if m else 0
        self.distinct = int(m[-1][1]) if m else 0
        m = re.search(r"The depth of the complete state graph search is (\d+)", out)
        self.depth = int(m.group(1)) if m else 0
        self.invariant_violated = re.findall(r"Invariant (\S+) is violated", out)
        self.ok = (rc == 0 and "Error:" not in out)
        self.printed = [l for l in out.splitlines() if l.startswith('"@@') or l.startswith("@@")]

    def prints(self, tag):
        """Values printed by the spec as PrintT("@@tag " \\o ToJson(v)) -> list of decoded JSON."""
        res = []
        for l in self.out.splitlines():
            l = l.strip()
            if l.startswith('"') and l.endswith('"'):
                try:
                    l = json.loads(l)
                except Exception:
                    l = l[1:-1]
            if l.startswith("@@" + tag + " "):
                res.append(json.loads(l[len(tag) + 3:]))
        return res

    def coverage_zero(self):
        """Action/expression locations with zero count in a -coverage run."""
        return [l for l in self.out.splitlines() if re.search(r": 0$", l.strip())]


def load_known(prop):
    try:
        with open(KNOWN) as fh:
            data = json.load(fh)
    except FileNotFoundError:
        return []
    return [k for k in data.get("known", []) if k.get("property") == prop]


# ---------------------------------------------------------------------- dot dump -> LTS
_node = re.compile(r'^(-?\d+) \[label="(.*)"(,style = filled)?(,tooltip=.*)?\];?$')
_edge = re.compile(r'^(-?\d+) -> (-?\d+) \[label="(.*?)",color=')


def parse_dot(path):
    """Parse TLC's `-dump dot,actionlabels` output (with ALIAS A == [j |-> ToJson(..)]).
    Returns (nodes: id -> decoded json, edges: list of (src, action, dst), init ids)."""
    nodes, edges, inits = {}, [], []
    seen = set()
    with open(path) as fh:
        for line in fh:
            line = line.rstrip("\n")
            m = _edge.match(line)
            if m:
                e = (m.group(1), m.group(3), m.group(2))
                if e not in seen:
                    seen.add(e)
                    edges.append(e)
                continue
            m = _node.match(line)
            if m:
                lab = m.group(2)
                # label is:  j = \"<json with \\\" escapes>\"
                lab = lab.encode().decode("unicode_escape")       # dot-level escapes
                assert lab.startswith('j = "'), lab[:40]
                js = json.loads(lab[4:])                           # TLA+ string literal -> text
                nodes[m.group(1)] = json.loads(js)
                if m.group(3):
                    inits.append(m.group(1))
    return nodes, edges, inits


def parse_action(label):
    """'SetJSONMode(1, 3)' -> ('SetJSONMode', [1, 3]); args are ints or quoted strings."""
    m = re.match(r"^(\w+)(?:\((.*)\))?$", label)
    if not m:
        raise Undecided("cannot parse action label %r" % label)
    name, rest = m.group(1), m.group(2)
    args = []
    if rest:
        for a in split_args(rest):
            a = a.strip()
            if re.match(r"^-?\d+$", a):
                args.append(int(a))
            elif a.startswith('"'):
                args.append(json.loads(a))
            elif a in ("TRUE", "FALSE"):
                args.append(a == "TRUE")
            else:
                args.append(a)
    return name, args


def split_args(s):
    out, depth, cur, inq = [], 0, "", False
    for ch in s:
        if ch == '"':
            inq = not inq
        if not inq:
            if ch in "<{[(":
                depth += 1
            elif ch in ">}])":
                depth -= 1
            elif ch == "," and depth == 0:
                out.append(cur)
                cur = ""
                continue
        cur += ch
    if cur.strip():
        out.append(cur)
    return out


def edge_cover(nodes, edges, inits, max_len=60, limit=None):
    """Behaviours (lists of edge indexes) that start in an initial state and together traverse every
    edge of the graph at least once (greedy: follow an unvisited edge, else walk to the nearest state
    that has one, else restart).  Linear in the number of edges apart from the walks."""
    import collections
    out = {}
    for i, (s, a, d) in enumerate(edges):
        out.setdefault(s, []).append(i)
    todo = {s: collections.deque(v) for s, v in out.items()}      # unvisited out-edges per state
    remaining = len(edges)
    behaviours = []

    def path_to_unvisited(src):
        # BFS over states to the nearest state having an unvisited outgoing edge
        prev = {src: None}
        q = collections.deque([src])
        while q:
            u = q.popleft()
            if todo.get(u):
                p = []
                while prev[u] is not None:
                    ei = prev[u]
                    p.append(ei)
                    u = edges[ei][0]
                return list(reversed(p))
            for ei in out.get(u, ()):
                v = edges[ei][2]
                if v not in prev:
                    prev[v] = ei
                    q.append(v)
        return None

    while remaining:
        if limit and len(behaviours) >= limit:
            break
        cur = inits[0]
        beh = []
        while len(beh) < max_len:
            dq = todo.get(cur)
            if dq:
                ei = dq.popleft()
                remaining -= 1
                beh.append(ei)
                cur = edges[ei][2]
                continue
            p = path_to_unvisited(cur)
            if p is None or len(beh) + len(p) >= max_len:
                break
            beh.extend(p)
            cur = edges[p[-1]][2]
        if not beh:
            # the nearest unvisited edge is further than max_len from here: take the explicit path
            p = path_to_unvisited(inits[0])
            if p is None:
                break
            tgt = edges[p[-1]][2] if p else inits[0]
            ei = todo[tgt].popleft()
            remaining -= 1
            beh = p + [ei]
        behaviours.append(beh)
    return behaviours, remaining


def write_ndjson(path, rows):
    with open(path, "w") as fh:
        for r in rows:
            fh.write(json.dumps(r, separators=(",", ":")) + "\n")


def read_ndjson(path):
    rows = []
    with open(path, errors="replace") as fh:
        for line in fh:
            line = line.strip()
            if line:
                rows.append(json.loads(line))
    return rows


def main_wrapper(prop, fn):
    """Common command line: check <ID> [--tier quick|thorough] [--replay path]."""
    import argparse
    ap = argparse.ArgumentParser()
    ap.add_argument("--tier", default=os.environ.get("VERIF_TIER", "quick"))
    ap.add_argument("--replay", default=None)
    a = ap.parse_args(sys.argv[2:])
    seed = int(os.environ.get("VERIF_SEED", "1") or 1)
    ctx = Ctx(prop, a.tier, seed)
    ctx.replay_mode = bool(a.replay)
    try:
        rc = fn(ctx, a.replay)
    except Undecided as ex:
        print("UNDECIDED %s: %s" % (prop, ex), file=sys.stderr)
        rc = 2
        if ctx.violations:
            # violations of the property were already observed on the real code (and printed with their replay
            # files) before a later part of the check could not be decided: the verdict stands
            print("%s: %d violation(s) before the undecided part" % (prop, len(ctx.violations)))
            rc = 1
    except (SystemExit, KeyboardInterrupt):
        raise
    except BaseException:
        # a defect of the machinery itself (not of the library): never exit 1 without a VIOLATION line
        import traceback
        traceback.print_exc()
        print("UNDECIDED %s: internal error of the check" % prop, file=sys.stderr)
        rc = 1 if ctx.violations else 2
    sys.exit(rc)
