"""Render Python values as TLA+ expressions and generate MC modules/configs, so that the
constants TLC explores and the constants the Go worker interprets come from one Python dict."""


class Fn(dict):
    """A TLA+ function with arbitrary (non-identifier) keys: (k1 :> v1 @@ k2 :> v2)."""


class Raw(str):
    """A verbatim TLA+ expression."""


def tla(v):
    if isinstance(v, Raw):
        return str(v)
    if isinstance(v, bool):
        return "TRUE" if v else "FALSE"
    if isinstance(v, int):
        return str(v)
    if isinstance(v, str):
        return '"' + v.replace("\\", "\\\\").replace('"', '\\"') + '"'
    if isinstance(v, (list, tuple)):
        return "<<" + ", ".join(tla(x) for x in v) + ">>"
    if isinstance(v, (set, frozenset)):
        return "{" + ", ".join(sorted(tla(x) for x in v)) + "}"
    if isinstance(v, Fn):
        if not v:
            return "<<>>"
        return "(" + " @@ ".join("%s :> %s" % (tla(k), tla(x)) for k, x in v.items()) + ")"
    if isinstance(v, dict):
        return "[" + ", ".join("%s |-> %s" % (k, tla(x)) for k, x in v.items()) + "]"
    raise TypeError("cannot render %r" % (v,))


def gen_mc(name, extends, consts, cfg_lines, plain=None):
    """Return (tla_text, cfg_text) for module `name` extending `extends`.
    consts: dict const -> python value (rendered as operator c_<const> and substituted);
    plain: dict const -> literal written directly in the cfg (ints, model values, small sets)."""
    body = ["---- MODULE %s ----" % name, "EXTENDS %s" % extends, ""]
    cfg = ["CONSTANTS"]
    for k, v in consts.items():
        body.append("c_%s == %s" % (k, tla(v)))
        cfg.append("  %s <- c_%s" % (k, k))
    for k, v in (plain or {}).items():
        cfg.append("  %s = %s" % (k, v))
    body.append("====")
    cfg.extend(cfg_lines)
    return "\n".join(body) + "\n", "\n".join(cfg) + "\n"
