#!/usr/bin/env python3
"""Generate /verif/MANIFEST.json from the table below (one entry per claimed property)."""
import json
import os

HERE = os.path.dirname(os.path.dirname(os.path.abspath(__file__)))
ALL = ["C%02d" % i for i in range(1, 21)]

CHECKS = {
    "C11": dict(
        technique="TLA+ model (LoggCore) checked exhaustively with TLC; every transition of the state graph replayed on the library; recorded traces validated by TLC against LoggCoreTrace",
        text="Exhaustive TLC exploration of the per-logger format machine (all mode calls with 0..2 boolean arguments, as Set/With/New option, 3-4 loggers) with OneFormat/Isolation as invariant/action property; every transition of that graph plus seeded random deeper histories are executed on the real library and the recording (getters, probe record shape, tree) is validated by TLC against the same operators.",
        note="Trusts TLC, the Go toolchain and the harness's classification of a record's shape (first byte '{' / contains ESC[). Probes use WriteThru with a fixed timestamp.",
        design="6/C11"),
}

PENDING = "check not built yet; see DESIGN.md section 10 (build order)"


def main():
    checks = []
    for pid in ALL:
        if pid not in CHECKS:
            continue
        c = CHECKS[pid]
        checks.append(dict(
            property_id=pid,
            quick_cmd="./check %s --tier quick" % pid,
            thorough_cmd="./check %s --tier thorough" % pid,
            evidence_file="evidence/%s.json" % pid,
            replay_cmd_template="./check %s --replay {path}" % pid,
            engine="tlc+go-worker",
            level_claimed=dict(category=c.get("category", "model_checking"), text=c["text"], design_ref="DESIGN.md section " + c["design"]),
            level_note=c["note"],
            technique=c["technique"],
        ))
    na = [dict(property_id=p, reason=CHECKS_NA.get(p, PENDING)) for p in ALL if p not in CHECKS]
    m = dict(
        version=1,
        setup_cmd="./setup.sh",
        hooks=dict(guard="verif", enable="go build -tags verif (the worker in /verif/harness is always built with it)",
                   baseline_off_cmd="cd /repo && for m in . ./tests; do (cd $m && GOFLAGS=-mod=mod go test -vet=off -count=1 -timeout 25m ./...) || exit 1; done",
                   source_commits=HOOK_COMMITS, add_only=True),
        engines=[dict(name="tlc+go-worker", path="check", serves_properties=sorted(CHECKS.keys()),
                      kind_free_text="TLA+ specifications in spec/ checked with TLC; Go worker in harness/ built from /repo's working tree replays TLC-generated behaviours and records traces that TLC validates")],
        checks=checks,
        notes="Model-based verification with explicit TLA+ specifications; see DESIGN.md.",
        not_applicable=na,
    )
    with open(os.path.join(HERE, "MANIFEST.json"), "w") as fh:
        json.dump(m, fh, indent=1)
    print("MANIFEST.json: %d checks, %d not claimed" % (len(checks), len(na)))


CHECKS_NA = {}
HOOK_COMMITS = []

if __name__ == "__main__":
    main()
