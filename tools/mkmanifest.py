#!/usr/bin/env python3
"""Generate /verif/MANIFEST.json from the table below (one entry per claimed property)."""
import json
import os

HERE = os.path.dirname(os.path.dirname(os.path.abspath(__file__)))
ALL = ["C%02d" % i for i in range(1, 21)]

def load_checks():
    """One checks/cNN.meta.json per claimed property: {technique, text, note, design, [category], [na_reason]}."""
    res, na = {}, {}
    d = os.path.join(HERE, "checks")
    # checks/ENABLED: ids the integrator has reviewed and registered (one per line)
    with open(os.path.join(d, "ENABLED")) as fh:
        enabled = set(x.strip().upper() for x in fh if x.strip() and not x.startswith("#"))
    for f in sorted(os.listdir(d)):
        if f.endswith(".meta.json"):
            with open(os.path.join(d, f)) as fh:
                m = json.load(fh)
            pid = f.split(".")[0].upper()
            if m.get("na_reason"):
                na[pid] = m["na_reason"]
            elif pid in enabled:
                res[pid] = m
    return res, na


CHECKS, CHECKS_NA = load_checks()

PENDING = "check not built yet; see DESIGN.md section 10 (build order)"


def hook_commits():
    p = os.path.join(HERE, "hooks.json")
    if os.path.exists(p):
        with open(p) as fh:
            return json.load(fh).get("source_commits", [])
    return []


HOOK_COMMITS = hook_commits()


def main():
    checks = []
    for pid in ALL:
        if pid not in CHECKS:
            continue
        c = CHECKS[pid]
        checks.append(dict(
            property_id=pid,
            quick_cmd="./check %s --tier quick" % pid,
            thorough_cmd="./check %s --tier thorough" % pid,
            evidence_file="evidence/%s.json" % pid,
            replay_cmd_template="./check %s --replay {path}" % pid,
            engine="tlc+go-worker",
            level_claimed=dict(category=c.get("category", "model_checking"), text=c["text"], design_ref="DESIGN.md section " + c["design"]),
            level_note=c["note"],
            technique=c["technique"],
        ))
    na = [dict(property_id=p, reason=CHECKS_NA.get(p, PENDING)) for p in ALL if p not in CHECKS]
    m = dict(
        version=1,
        setup_cmd="./setup.sh",
        hooks=dict(guard="verif", enable="go build -tags verif (the worker in /verif/harness is always built with it)",
                   baseline_off_cmd="cd /repo && for m in . ./tests; do (cd $m && GOFLAGS=-mod=mod go test -vet=off -count=1 -timeout 25m ./...) || exit 1; done",
                   source_commits=HOOK_COMMITS, add_only=True),
        engines=[dict(name="tlc+go-worker", path="check", serves_properties=sorted(CHECKS.keys()),
                      kind_free_text="TLA+ specifications in spec/ checked with TLC; Go worker in harness/ built from /repo's working tree replays TLC-generated behaviours and records traces that TLC validates")],
        checks=checks,
        notes="Model-based verification with explicit TLA+ specifications; see DESIGN.md.",
        not_applicable=na,
    )
    with open(os.path.join(HERE, "MANIFEST.json"), "w") as fh:
        json.dump(m, fh, indent=1)
    print("MANIFEST.json: %d checks, %d not claimed" % (len(checks), len(na)))



if __name__ == "__main__":
    main()
