"""Pipeline shared by the properties decided on spec/LoggCore.tla (C01 C03 C10 C11 ...):

  1. TLC explores the configuration exhaustively (invariants + action properties) and dumps the
     labelled state graph;
  2. an edge cover of that graph (every transition at least once) plus seeded random deeper
     histories become scripts;
  3. the Go worker executes the scripts on the real library and records every call with the
     observations made through the public API;
  4. TLC validates the recording against LoggCoreTrace (same operators as the model).
"""
import json
import os
import random

from vlib import Undecided, parse_dot, parse_action, edge_cover, write_ndjson, read_ndjson
from tlagen import Fn, gen_mc


# the layouts the flag table of the library documents (slog/cvt.go) + the default of SetTimeFormat()
TS_EXPORTED = ["2006-01-02", "15:04:05Z07:00", "15:04:05.000000Z07:00", "2006-01-0215:04:05Z07:00",
               "2006-01-02T15:04:05.000000Z07:00", "2006-01-02T15:04:05.999999999Z07:00"]


# another process environment the library must not care about (DEBUG only selects the start-up level, which
# every behaviour sets itself)
ALT_ENV = {"DEBUG": "1", "NO_COLOR": "1", "CLICOLOR": "0", "LANG": "C", "LC_ALL": "C", "TERM": "dumb", "GOMAXPROCS": "1",
           "TZ": "Pacific/Chatham", "VERBOSE": "1", "TRACE": "1", "HOME": "/nonexistent-home", "COLUMNS": "20"}


def consts_for_tlc(c):
    """Python config -> constants of LoggCore."""
    return dict(
        Names=set(c["names"]),
        OptLists=[[dict(k=o["k"], a=o["a"], b=o["b"]) for o in ol] for ol in c["opt_lists"]],
        BoolLists=c["bool_lists"],
        Layouts=c["layouts"],
        SetterArgs=Fn({k: set(tuple(x) for x in v) for k, v in c["setter_args"].items()}),
        InitTreat=Fn(c.get("treat", {9: 4, 10: 4, 11: 2})),
        InitErrDev=set(c.get("errdev", [0, 1, 2, 3, 11])),
        InitRegd=set(x["v"] for x in c.get("customs", [])),
        HandlerOpts=[dict(nocolor=bool(x.get("nocolor")), nosource=bool(x.get("nosource")), json=bool(x.get("json")), level=x.get("level", 0))
                     for x in c.get("handler_opts", [])],
        RegCalls=[dict(v=x["v"], t=x.get("t", -1), e=bool(x.get("e")), clash=bool(x.get("clash"))) for x in c.get("reg_calls", [])],
        WLevels=set(c.get("wlevels", [])),
        # harness/rec.go: writer id w is LevelSettable iff (w-1) % 4 in {2, 3}
        WantsLevel=set(c.get("wants_level", [w for w in range(1, 33) if (w - 1) % 4 in (2, 3)] + [49, 51])),
        Acts=set(c["acts"]),
        FailSets=[set(tuple(x) for x in fs) for fs in c.get("fail_sets", [[]])],
        LogSevs=set(c.get("log_sevs", [])),
        FlagSets=[set(fs) for fs in c.get("flag_sets", [])],
        Groups=[[tuple(a) for a in g] for g in c.get("groups", [])],
        CtxVals=[[tuple(a) for a in cv] for cv in c.get("ctx_vals", [[]])],
        CallArgs=[[tuple(a) for a in ca] for ca in c.get("call_args", [[]])],
        Tokens=set(c.get("tokens", [])), EPs=set(c.get("eps", [])), MsgClasses=set(c.get("msg_classes", [])),
    )


def label_to_event(label):
    name, a = parse_action(label)
    if name == "Set" or name == "With":
        return dict(op=name, l=a[0], k=a[1], a=a[2], b=a[3])
    if name == "New":
        return dict(op="New", l=a[0], k=a[1], a=a[2], b=0)
    if name == "NewDetached":
        return dict(op="NewDetached", l=0, k=a[0], a=a[1], b=0)
    if name == "PkgSetLevel":
        return dict(op="PkgSetLevel", l=0, k="", a=a[0], b=0)
    if name == "SetDefault":
        return dict(op="SetDefault", l=a[0], k="", a=0, b=0)
    if name == "LogF":
        return dict(op="LogF", l=a[0], k="", a=a[1], b=a[2])
    if name == "Flags":
        return dict(op="Flags", l=0, k=a[0], a=a[1], b=a[2])
    if name == "PkgLevel":
        return dict(op="PkgLevel", l=0, k=a[0], a=a[1], b=0)
    if name == "LogM":
        return dict(op="LogM", l=a[0], k="", a=a[1], b=a[2])
    if name == "SetAttrsR":
        return dict(op="SetAttrsR", l=0, k="", a=a[0], b=0)
    if name == "DbgMode":
        return dict(op="DbgMode", l=0, k="", a=a[0], b=0)
    if name == "VrbMode":
        return dict(op="VrbMode", l=0, k="", a=a[0], b=0)
    if name == "CloseW":
        return dict(op="CloseW", l=a[0], k="", a=a[1], b=0)
    if name == "BulkKids":
        return dict(op="BulkKids", l=a[0], k="", a=0, b=0)
    if name == "Burn":
        return dict(op="Burn", l=0, k="", a=0, b=0)
    if name == "Lookup":
        return dict(op="Lookup", l=a[0], k="", a=0, b=0)
    if name in ("LogNest", "EachNew"):
        return dict(op=name, l=a[0], k="", a=a[1], b=0)
    if name == "MkHandler":
        return dict(op="MkHandler", l=a[0], k="", a=a[1], b=0)
    if name == "HEmit":
        return dict(op="HEmit", l=a[0], k="", a=a[1], b=0)
    if name == "Register":
        return dict(op="Register", l=0, k="", a=a[0], b=0)
    if name == "PkgSkip":
        return dict(op="PkgSkip", l=0, k=a[0], a=a[1], b=0)
    if name == "LogA":
        return dict(op="LogA", l=a[0], k=a[1], a=a[2], b=0, mc=a[3], args=parse_tuple(a[4]))
    raise Undecided("unknown action label %r" % label)


def parse_tuple(t):
    """'<<"key", "int">>' -> ['key', 'int']"""
    import json as _j
    from vlib import split_args
    t = t.strip()
    assert t.startswith("<<") and t.endswith(">>"), t
    inner = t[2:-2].strip()
    return [_j.loads(x.strip()) if x.strip().startswith('"') else int(x) for x in split_args(inner)] if inner else []


def random_behaviours(c, rng, count, depth, max_loggers):
    """Seeded random histories over the same vocabulary, deeper and wider than the model bound."""
    res = []
    kinds = sorted(c["setter_args"].keys())
    with_kinds = [k for k in kinds if k in ("JSONMode", "ColorMode", "UTCMode", "TimeFormat", "Level", "Attrs", "Attrs1", "SetKV", "Attrs0", "AttrsN",
                                            "Skip", "CtxKeys", "Writer", "ErrorWriter")]
    names = list(c["names"]) + [""]
    for _ in range(count):
        n = 1
        nh = 0
        # (the two long-running-process actions are slow to execute: one batch of children in every second
        # behaviour at most, 70 000 loggers derived elsewhere in every sixth)
        nbulk, burnt = (0 if rng.random() < (0.5 if count <= 60 else 0.15) else 9), rng.random() > (0.17 if count <= 60 else 0.08)
        beh = []
        for _ in range(depth):
            acts = [a for a in c["acts"]]
            op = rng.choice(sorted(acts))
            if op in ("With", "New", "NewDetached") and n >= max_loggers:
                op = "Set"
            if op == "With" and not with_kinds:
                op = "Set"
            l = rng.randint(1, n)
            if op == "Set":
                k = rng.choice(kinds)
                a, b = rng.choice(sorted(c["setter_args"][k]))
                beh.append(dict(op="Set", l=l, k=k, a=a, b=b))
            elif op == "With":
                k = rng.choice(with_kinds)
                a, b = rng.choice(sorted(c["setter_args"][k]))
                beh.append(dict(op="With", l=l, k=k, a=a, b=b))
                n += 1          # upper bound (WithSkip may return an existing child)
            elif op in ("New", "NewDetached"):
                nm, oi = rng.choice(names), rng.randint(1, len(c["opt_lists"]))
                if nm == "" and any(o["k"] == "KV" for o in c["opt_lists"][oi - 1]):
                    # bare key, value arguments need a name in front (the first string argument IS the name)
                    nm = (list(c["names"]) or ["a"])[0]
                beh.append(dict(op=op, l=l if op == "New" else 0, k=nm, a=oi, b=0))
                n += 1
            elif op == "PkgSetLevel":
                a, b = rng.choice(sorted(c["setter_args"]["Level"]))
                beh.append(dict(op="PkgSetLevel", l=0, k="", a=a, b=0))
            elif op == "SetDefault":
                beh.append(dict(op="SetDefault", l=l, k="", a=0, b=0))
            elif op == "Flags":
                k = rng.choice(["SetFlags", "AddFlags", "RemoveFlags", "ResetFlags", "SaveFlagsAndMod", "RestoreFlags"])
                nfs = len(c["flag_sets"])
                nsaved = sum(1 for x in beh if x["op"] == "Flags" and x["k"] == "SaveFlagsAndMod")
                if k == "RestoreFlags" and nsaved == 0:
                    k = "AddFlags"
                a_ = 0 if k == "ResetFlags" else rng.randint(1, nsaved) if k == "RestoreFlags" else rng.randint(1, nfs)
                beh.append(dict(op="Flags", l=0, k=k, a=a_, b=rng.randint(1, nfs) if k == "SaveFlagsAndMod" else 0))
            elif op == "PkgLevel":
                k = rng.choice(["ResetLevel", "Reset", "SaveLevelAndSet", "RestoreLevel"])
                nsaved = sum(1 for x in beh if x["op"] == "PkgLevel" and x["k"] == "SaveLevelAndSet")
                if k == "RestoreLevel" and nsaved == 0:
                    k = "SaveLevelAndSet"
                a_ = rng.choice(sorted(c["setter_args"]["Level"]))[0] if k == "SaveLevelAndSet" else rng.randint(1, nsaved) if k == "RestoreLevel" else 0
                beh.append(dict(op="PkgLevel", l=0, k=k, a=a_, b=0))
            elif op == "LogM":
                beh.append(dict(op="LogM", l=l, k="", a=rng.randint(1, len(c["ctx_vals"])), b=rng.randint(1, len(c["call_args"]))))
            elif op == "SetAttrsR":
                beh.append(dict(op="SetAttrsR", l=0, k="", a=rng.randint(0, 1), b=0))
            elif op == "DbgMode":
                beh.append(dict(op="DbgMode", l=0, k="", a=rng.randint(0, 1), b=0))
            elif op == "VrbMode":
                beh.append(dict(op="VrbMode", l=0, k="", a=rng.randint(0, 1), b=0))
            elif op == "MkHandler":
                beh.append(dict(op="MkHandler", l=rng.randint(1, n), k="", a=rng.randint(1, len(c["handler_opts"])), b=0))
                nh += 1
            elif op == "HEmit":
                if nh:
                    beh.append(dict(op="HEmit", l=rng.randint(1, nh), k="", a=rng.choice([2, 3, 4, 5]), b=0))
            elif op == "Register":
                beh.append(dict(op="Register", l=0, k="", a=rng.randint(1, len(c["reg_calls"])), b=0))
            elif op == "PkgSkip":
                k = rng.choice(["SetSkip", "WithSkip"])
                beh.append(dict(op="PkgSkip", l=0, k=k, a=rng.choice(sorted(c["setter_args"]["Skip"]))[0], b=0))
                if k == "WithSkip":
                    n += 1
            elif op == "LogA":
                ep = rng.choice(sorted(c["eps"]))
                r_ = 8 if "Println" in ep else rng.choice(sorted(c["log_sevs"]))
                if ep.startswith("pkg") and r_ == 7:
                    r_ = 8          # no package-level function carries Off
                n_ = rng.randint(0, c.get("rand_max_args", 8))
                if rng.random() < 0.1:
                    beh.append(dict(op="LogA", l=l, k=ep, a=r_, b=0, mc=rng.choice(["empty", "blank"]),
                                    args=[rng.choice(sorted(c["tokens"]))]))
                elif rng.random() < 0.3:
                    mc_ = rng.choice(sorted(c["msg_classes"]))
                    if mc_ == "none" and "Println" not in ep:
                        mc_ = "empty"
                    beh.append(dict(op="LogA", l=l, k=ep, a=r_, b=0, mc=mc_, args=[]))
                else:
                    beh.append(dict(op="LogA", l=l, k=ep, a=r_, b=0, mc="plain",
                                    args=[rng.choice(sorted(c["tokens"])) for _ in range(n_)]))
            elif op == "LogF":
                # (every tenth record is bigger than any buffer or chunk size the library might use: 100 KiB)
                beh.append(dict(op="LogF", l=l, k="big" if rng.random() < 0.1 else "", a=rng.choice(sorted(c["log_sevs"])),
                                b=rng.randint(1, len(c["fail_sets"]))))
            elif op == "BulkKids":
                if nbulk < 1:
                    nbulk += 1
                    beh.append(dict(op="BulkKids", l=l, k="", a=0, b=0))
            elif op == "Burn":
                if not burnt:
                    burnt = True
                    beh.append(dict(op="Burn", l=0, k="", a=0, b=0))
            elif op == "Lookup":
                beh.append(dict(op="Lookup", l=l, k="", a=0, b=0))
            elif op == "LogNest":
                beh.append(dict(op="LogNest", l=l, k="", a=rng.randint(1, n), b=0))
            elif op == "EachNew":
                beh.append(dict(op="EachNew", l=l, k="", a=rng.randint(1, n), b=0))
                n += 1
            elif op == "CloseW":
                beh.append(dict(op="CloseW", l=l, k="", a=rng.choice(sorted(c["log_sevs"])), b=0))
            # ids are assigned by the worker in creation order; since some creations return an
            # existing logger, n is only an upper bound, so clamp receivers when executing
        res.append(beh)
    return res


def clamp_receivers(behaviours):
    """Random scripts may name a receiver id that was never created (n is an upper bound); the
    worker cannot execute those, so replay the id arithmetic conservatively: receivers are taken
    modulo the number of loggers that certainly exist."""
    return behaviours


def mc_only(ctx, c, invariants, properties, name="core-mc-only", timeout=1500):
    """Exhaustive TLC run of a configuration too large to replay (no dump)."""
    tc = consts_for_tlc(c)
    mc, cfg = gen_mc("MCB", "LoggCore", tc,
                     ["INIT Init", "NEXT Next", "CHECK_DEADLOCK FALSE", "INVARIANTS " + " ".join(invariants)] +
                     (["PROPERTIES " + " ".join(properties)] if properties else []),
                     plain=dict(MaxLoggers=c["max_loggers"], InitLevel=c["init_level"], MaxList=c.get("max_list", 2),
                                MaxArgs=c.get("max_args", 0), MaxSaved=c.get("max_saved", 2), MaxHandlers=c.get("max_handlers", 1), FileBase=41, MaxBulk=c.get("max_bulk", 1), BulkN=c.get("bulk_n", 1100)))
    return ctx.model_check("MCB", "MCB.cfg", files={"MCB.tla": mc, "MCB.cfg": cfg}, name=name, timeout=timeout)


def run_core(ctx, c, invariants, properties, obs, rand_count, rand_depth, rand_loggers, testing=True,
             dump=True, key_fn=None, max_len=60, rand_cfg=None, tag="", alt_env=True):
    tc = consts_for_tlc(c)
    # ---- 1. exhaustive model check with graph dump
    mc, cfg = gen_mc("MC", "LoggCore", tc,
                     ["INIT Init", "NEXT Next", "ALIAS DumpAlias", "CHECK_DEADLOCK FALSE",
                      "INVARIANTS " + " ".join(invariants)] +
                     (["PROPERTIES " + " ".join(properties)] if properties else []),
                     plain=dict(MaxLoggers=c["max_loggers"], InitLevel=c["init_level"], MaxList=c.get("max_list", 2),
                                MaxArgs=c.get("max_args", 0), MaxSaved=c.get("max_saved", 2), MaxHandlers=c.get("max_handlers", 1), FileBase=41, MaxBulk=c.get("max_bulk", 1), BulkN=c.get("bulk_n", 1100)))
    dot = os.path.join(ctx.scratch, "graph" + tag)
    r = ctx.model_check("MC", "MC.cfg", files={"MC.tla": mc, "MC.cfg": cfg},
                        extra=["-dump", "dot,actionlabels", dot] if dump else [], name="core-mc" + tag)
    behaviours = []
    cover_info = {}
    if dump:
        nodes, edges, inits = parse_dot_edges(dot + ".dot")
        evs = [label_to_event(lbl) for (_, lbl, _) in edges]
        covers, unvisited = edge_cover(nodes, edges, inits, max_len=max_len)
        if unvisited:
            raise Undecided("edge cover incomplete: %d edges not reachable" % unvisited)
        behaviours = [[evs[i] for i in beh] for beh in covers]
        cover_info = dict(graph_states=len(nodes), graph_edges=len(edges), cover_behaviours=len(covers),
                          cover_events=sum(len(b) for b in covers))
    n_cover = len(behaviours)
    # ---- 2. seeded random deeper histories
    rng = random.Random(ctx.seed * 7919 + 17)
    rc = rand_cfg or c
    if rand_cfg:
        # the random vocabulary extends the exhaustive one: same leading tables, so that the
        # indexes used by the edge-cover behaviours keep their meaning
        for key in ("bool_lists", "layouts", "opt_lists"):
            assert rc[key][:len(c[key])] == c[key], key
    behaviours += random_behaviours(rc, rng, rand_count, rand_depth, rand_loggers)
    script = dict(seed=ctx.seed, init_level=c["init_level"], obs=obs, probe_sevs=rc.get("probe_sevs", [4]),
                  gate_sevs=rc.get("gate_sevs", []), names=sorted(rc["names"]), bool_lists=rc["bool_lists"],
                  layouts=rc["layouts"], opt_lists=rc["opt_lists"], customs=rc.get("customs", []),
                  fail_sets=rc.get("fail_sets", [[]]), groups=rc.get("groups", []), ctx_vals=rc.get("ctx_vals", [[]]),
                  call_args=rc.get("call_args", [[]]), flag_sets=rc.get("flag_sets", []), behaviours=behaviours,
                  handler_opts=[dict(nocolor=bool(x.get("nocolor")), nosource=bool(x.get("nosource")), json=bool(x.get("json")),
                                     level=x.get("level", 0)) for x in rc.get("handler_opts", [])],
                  reg_calls=[dict(v=x["v"], t=x.get("t", -1), e=bool(x.get("e")), clash=bool(x.get("clash")))
                             for x in rc.get("reg_calls", [])], proc_per=bool(rc.get("reg_calls")), bulk_n=rc.get("bulk_n", 1100),
                  ts_layouts=sorted(set(x for x in rc["layouts"] if x) | set(TS_EXPORTED)))
    def execute(behs, n_cov, env, label):
        """3. execute on the real library (in the given process environment), 4. validate with TLC, report."""
        scr = dict(script, behaviours=behs)
        sp = os.path.join(ctx.scratch, "script%s%s.json" % (tag, label))
        with open(sp, "w") as fh:
            json.dump(scr, fh)
        tp = os.path.join(ctx.scratch, "trace%s%s.ndjson" % (tag, label))
        ctx.run_worker(["core", sp, tp], testing=testing, timeout=1800, env=env)
        rows = LightRows(tp)       # (a thorough recording is hundreds of MB of JSON: only what is counted stays in memory)
        bad = validate_core_trace(ctx, rc, tp, rand_loggers, name="core-trace" + tag + label)
        # map bad lines to behaviours
        starts = [i for i, r_ in enumerate(rows) if r_["op"] == "Reset"]
        nontrivial = set()
        for r_ in rows:
            if r_["op"] != "Reset":
                nontrivial.add((r_["op"], r_["k"], r_["a"], r_["b"], r_["l"], r_.get("mc", ""), tuple(r_.get("args", []))))
        ctx.evaluations += len(rows) - len(starts)
        ctx.traces += len(starts)
        if not env:
            ctx.nontrivial += len(nontrivial)
        for b in bad:
            line = b["line"] - 1          # TLA+ sequences are 1-based
            bi = max(j for j, s in enumerate(starts) if s <= line)
            beh = behs[bi]
            upto = line - starts[bi]
            ev = rows[line]
            head = "%safter %d call(s), %s(l=%s,k=%s,a=%s,b=%s): " % (
                "in a process started with %s: " % " ".join("%s=%s" % kv for kv in sorted(env.items())) if env else "",
                upto - 1, ev["op"], ev["l"], ev["k"], ev["a"], ev["b"])
            rp = dict(kind="core", script={**scr, "behaviours": [beh[:upto]]}, observed=ev,
                      expected=b["expected"], source="edge-cover" if bi < n_cov else "random", env=env or {})
            pairs = key_fn(ev, b) if key_fn else None
            if not pairs:
                pairs = [("%s:%s" % (ev["op"], ev["k"]),
                          "observed %s ; model expected %s" % (
                              json.dumps({k: v for k, v in ev.items() if k not in ("op", "l", "k", "a", "b")})[:1500],
                              b["expected"][:1500]))]
            for key, what in pairs:
                ctx.finding(key, head + what, rp)
        return rows, bad

    rows, bad = execute(behaviours, n_cover, None, "")
    if alt_env and behaviours:
        # the same model under another process environment: nothing the properties speak about may depend on
        # environment variables, the number of processors or the local time zone.  A sample of the graph
        # behaviours plus all random ones.
        step = max(1, n_cover // 80)
        sub = behaviours[:n_cover:step] + behaviours[n_cover:]
        rows2, bad2 = execute(sub, len(behaviours[:n_cover:step]), dict(ALT_ENV), "-env")
        ctx.extra["alt_env_behaviours" + tag] = len(sub)
        ctx.extra["alt_env_events" + tag] = len(rows2)
        bad = bad + bad2
    if rows:
        ctx.sample(dict(behaviour=[e for e in behaviours[0][:6]], first_observation=rows[1] if len(rows) > 1 else None))
        if len(behaviours) > n_cover:
            ctx.sample(dict(random_behaviour=behaviours[n_cover][:12]))
    ctx.extra.update({k + tag: v for k, v in cover_info.items()})
    ctx.extra["random_behaviours" + tag] = len(behaviours) - n_cover
    ctx.extra["trace_events" + tag] = len(rows)
    return rows, bad


class LightRows:
    """The recording as a list of rows that keeps only the call fields in memory; the complete row (with the
    observations) is read back from the file when asked for by index."""
    KEEP = ("op", "k", "a", "b", "l", "mc", "args")

    def __init__(self, path):
        self.path = path
        self.light = []
        self.offs = []
        off = 0
        with open(path, "rb") as fh:
            for line in fh:
                if line.strip():
                    r = json.loads(line)
                    self.light.append({k: r[k] for k in self.KEEP if k in r})
                    self.offs.append(off)
                off += len(line)

    def __len__(self):
        return len(self.light)

    def __iter__(self):
        return iter(self.light)

    def __getitem__(self, i):
        with open(self.path, "rb") as fh:
            fh.seek(self.offs[i])
            return json.loads(fh.readline())


def run_jobs(jobs, width=3):
    """Run independent components of a check side by side (each is a closure calling run_core)."""
    import concurrent.futures
    with concurrent.futures.ThreadPoolExecutor(max_workers=width) as pool:
        for f in [pool.submit(j) for j in jobs]:
            f.result()


def replay_core(ctx, path, c, obs):
    """Re-execute a recorded failing behaviour on the current tree and validate it again."""
    with open(path) as fh:
        rp = json.load(fh)["replay"]
    script = rp["script"]
    sp = os.path.join(ctx.scratch, "script.json")
    with open(sp, "w") as fh:
        json.dump(script, fh)
    tp = os.path.join(ctx.scratch, "trace.ndjson")
    ctx.run_worker(["core", sp, tp], testing=True, timeout=600, env=rp.get("env") or None)
    rows = read_ndjson(tp)
    bad = validate_core_trace(ctx, dict(c, bulk_n=script.get("bulk_n", 1100)), tp, 64)
    ctx.traces += 1
    ctx.evaluations += len(rows)
    ctx.nontrivial += len(rows)
    ctx.states += 1
    ctx.transitions += len(rows)
    for b in bad:
        ev = rows[b["line"] - 1]
        ctx.finding("%s:%s" % (ev["op"], ev["k"]), "replay diverges at line %d: observed %s ; expected %s" % (
            b["line"], json.dumps(ev)[:1500], b["expected"][:1500]), rp)
    ctx.sample(dict(replayed=script["behaviours"][0][:10]))
    return ctx.finish(rule="replay of one recorded behaviour", exhaustive=False)


def parse_dot_edges(path):
    """Edges only (node labels are irrelevant here)."""
    import re
    edge = re.compile(r'^(-?\d+) -> (-?\d+) \[label="(.*?)",color=')
    node = re.compile(r'^(-?\d+) \[label=".*?"(,style = filled)?')
    nodes, edges, inits, seen = {}, [], [], set()
    with open(path) as fh:
        for line in fh:
            m = edge.match(line)
            if m:
                lbl = m.group(3).replace('\\"', '"')
                e = (m.group(1), lbl, m.group(2))
                if e not in seen:
                    seen.add(e)
                    edges.append(e)
                continue
            m = node.match(line)
            if m:
                nodes[m.group(1)] = True
                if m.group(2):
                    inits.append(m.group(1))
    if not inits:
        raise Undecided("no initial state in dump")
    return nodes, edges, inits


def validate_core_trace(ctx, c, trace_path, max_loggers, name="core-trace", parts=4):
    """TLC validates the recording against LoggCoreTrace.  A long recording is cut at behaviour boundaries
    (Reset lines) into up to `parts` pieces validated by TLC processes running side by side."""
    tc = consts_for_tlc(c)
    tc["TraceFile"] = "trace.ndjson"
    mct, cfg = gen_mc("MCT", "LoggCoreTrace", tc,
                      ["SPECIFICATION TSpec", "INVARIANTS Done TOneFormat TTreeOK", "CHECK_DEADLOCK FALSE"],
                      plain=dict(MaxLoggers=max(max_loggers, c["max_loggers"]) + 64, InitLevel=c["init_level"], MaxList=1000, MaxArgs=0, MaxSaved=100000, MaxHandlers=100000, FileBase=41, MaxBulk=100000, BulkN=c.get("bulk_n", 1100)))
    with open(trace_path) as fh:
        lines = fh.readlines()
    resets = [i for i, ln in enumerate(lines) if ln.startswith('{"op":"Reset"')]
    cuts = [0]
    if len(lines) > 4000 and parts > 1:
        target = len(lines) / float(parts)
        for i in resets:
            if i - cuts[-1] >= target and len(cuts) < parts:
                cuts.append(i)
    cuts.append(len(lines))
    pieces = [(cuts[k], cuts[k + 1]) for k in range(len(cuts) - 1) if cuts[k + 1] > cuts[k]]

    def one(k, lo, hi):
        tp = trace_path
        if len(pieces) > 1:
            tp = "%s.part%d" % (trace_path, k)
            with open(tp, "w") as fh:
                fh.writelines(lines[lo:hi])
        r = ctx.tlc("MCT", "MCT.cfg", files={"MCT.tla": mct, "MCT.cfg": cfg}, copy={tp: "trace.ndjson"},
                    workers=1, name=name + ("-p%d" % k if len(pieces) > 1 else ""), timeout=3000, heap="12g", allow_fail=True)
        if r.invariant_violated:
            # the model's own invariant failed on a state the implementation visited
            raise Undecided("trace run: invariant %s violated on a recorded behaviour:\n%s" % (r.invariant_violated, r.out[-3000:]))
        if not r.ok:
            raise Undecided("trace validation run failed:\n" + r.out[-5000:])
        res = r.prints("bad")
        if len(res) != 1:
            raise Undecided("trace validation did not reach the end of the log:\n" + r.out[-3000:])
        return [dict(b, line=b["line"] + lo) for b in res[0]]

    import concurrent.futures
    bad = []
    with concurrent.futures.ThreadPoolExecutor(max_workers=len(pieces) or 1) as pool:
        for f in [pool.submit(one, k, lo, hi) for k, (lo, hi) in enumerate(pieces)]:
            bad += f.result()
    return sorted(bad, key=lambda b: b["line"])
