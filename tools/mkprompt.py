#!/usr/bin/env python3
"""Write the prompt for an independent mutation tester: only the property's text, its own scratch
worktree, and the ideas earlier testers already used (from seeded/*/meta.json).

  mkprompt.py <PROP> <round> <worktree> > prompt.txt
"""
import glob
import json
import os
import sys

VERIF = os.path.dirname(os.path.dirname(os.path.abspath(__file__)))

HINTS = {
    7: "ROUND %d. Earlier testers already produced the changes listed at the end; yours must be of a DIFFERENT kind "
       "again. Look at the edges of the usage envelope: (a) RE-ENTRANCY and nesting - logging from inside a "
       "destination's Write, from a value's String / MarshalText / LogValue / Error method while a record is being "
       "formatted, a logger that is (indirectly) its own destination, deeply nested groups; (b) the ENVIRONMENT - "
       "environment variables, terminal detection, the time zone database, the working directory, os.Args, "
       "GOMAXPROCS=1 vs many; (c) LONG-RUNNING processes - the 257th / 65537th record, logger, child, registered "
       "level or writer, counters that wrap, tables and slices that only grow, maps iterated in random order; (d) ZERO "
       "VALUES - nil or zero-value loggers and options, empty names, empty lists, the zero time, the zero level, empty "
       "strings as keys or messages. As before each change must be a plausible edit of the library (not of its tests), "
       "need something specific to manifest and leave the whole existing suite green.",
    6: "ROUND %d. Earlier testers already produced the changes listed at the end; yours must be of a DIFFERENT kind "
       "again. This time play the well-meaning maintainer: (a) a PERFORMANCE optimisation gone subtly wrong - a fast "
       "path that skips work believed redundant, a cache / pooled object / preallocated buffer / unsafe string-bytes "
       "conversion / avoided reflection / hoisted lookup whose validity condition is slightly too weak; or (b) a "
       "REFACTORING that unifies near-duplicate code paths (two verbs, two formats, the method and its package-level "
       "twin, the Set and the With form, the option and the method) where one of the originals had a small difference "
       "that mattered; or (c) a change to DEFAULTS and start-up state (what a fresh logger / the default logger / the "
       "package starts with in the two process modes); or (d) a robustness fix (nil checks, recover, clamping of "
       "arguments, ignoring 'impossible' values) that changes behaviour for legal input. As before each change must "
       "need something specific to manifest and must leave the whole existing suite green.",
    5: "ROUND %d. Earlier testers already produced the changes listed at the end; yours must be of a DIFFERENT kind "
       "again. This time favour SMALL, plausible edits of the kind that slip through code review: an off-by-one in a "
       "bound or a loop, '<' for '<=', a swapped pair of arguments, a condition inverted on one rarely taken branch, a "
       "copy-paste of the neighbouring case (the wrong table, the wrong field, the wrong constant), a missing 'else', a "
       "variable shadowed in an inner scope, a defer moved, an early 'continue' that skips the tail of a loop body, a "
       "fallthrough/default case that changed, integer truncation or sign extension, a string compared with the wrong "
       "case folding, a nil/empty check dropped or added, a resource released on one path only - anywhere in the code "
       "the property depends on, including helpers it shares with other features. As before each change must need "
       "something specific to manifest (a particular input class, configuration, sequence or interleaving) and must "
       "leave the whole existing suite green.",
    4: "ROUND %d. Earlier testers already produced the changes listed at the end; yours must be of a DIFFERENT kind "
       "again. Think about: behaviour that only goes wrong for the SECOND logger / second goroutine / second call of a "
       "kind, caches or memo tables keyed too coarsely (by name, by level, by call site, by pointer), lazily "
       "initialised package state (sync.Once, init order), error paths and early returns that skip a step the normal "
       "path performs, defers that run in a different order, integer edge values (0, negative, > 255, MaxInt), "
       "map iteration order, slices whose capacity is shared after append, copy-on-write that forgets one field when a "
       "logger is cloned, features of the library that are rarely combined with this property's feature (groups, "
       "context keys, custom levels, per-level writers, the log/slog adapter, the std log bridge, time layouts, flags "
       "saved and restored, SetDefault, Reset), and the process mode (go test vs production, debug build tags).",
}


def main():
    prop, rnd, wt = sys.argv[1], int(sys.argv[2]), sys.argv[3]
    p = None
    for line in open(os.path.join(VERIF, "properties.jsonl")):
        d = json.loads(line)
        if d["id"] == prop:
            p = d
    earlier = []
    for m in sorted(glob.glob(os.path.join(VERIF, "seeded", prop + "-m*", "meta.json"))):
        d = json.load(open(m))
        earlier.append("- %s (needs: %s)" % ((d.get("summary") or "").strip(), (d.get("needs") or "").strip()[:400]))
    hint = HINTS.get(rnd, HINTS[4]) % rnd
    out = f"""You are testing the strength of a verification effort for the Go logging library hedzr/logg (package github.com/hedzr/logg/slog). You have your own scratch git worktree of the library at {wt} (work ONLY there; do not read or touch /verif or /repo; no network: export GOPROXY=off GOSUMDB=off GOTOOLCHAIN=local (do NOT set GOFLAGS); the worktree has a go.work, plain `go test ./slog/...` run inside {wt} works).

THE PROPERTY (this is all you are given):
id: {p['id']}
title: {p['title']}
statement: {p['statement']}
quantifier: {p['quantifier']['text']}
why tests cannot settle it: {p['why_tests_cant']}
anchors: {json.dumps(p['anchors'])}

{hint}

YOUR TASK: produce TWO different, realistic changes to the library's source (not to its tests), each of which BREAKS this property while the code still compiles and the ENTIRE existing test suite still passes (`cd {wt} && go test -vet=off -count=1 ./... ` and `cd {wt}/tests && go test -vet=off -count=1 ./...`). The changes must be of the kind a real refactoring / optimisation / bug-fix-gone-wrong would introduce, and each must need SOMETHING SPECIFIC to manifest - a particular interleaving, a fault at a particular point, a multi-step sequence of operations, an unusual input or configuration, or two cooperating sites that each look fine alone - NOT something ordinary use would expose at once (not 'always wrong'). The two changes must differ in kind (different mechanism / different part of the statement). Do not add build tags, do not touch *_test.go files, do not change public signatures. Ignore the verifEvent(...) hook calls in the source (leave them as they are).

For each change k in {{1,2}} write into {wt}/out/m<k>/ :
  - patch.diff : `git diff` of the change against the worktree's HEAD (apply-able with `git apply` at the repository root). Produce it, then `git checkout -- .` so the worktree is clean again before the next change.
  - demo_test.go : a self-contained Go test file (package slog_test or package slog, say which) to be copied into {wt}/slog/ that FAILS with the change applied and PASSES without it; it must be deterministic (if it needs concurrency, make it reliable, e.g. by looping or using -race; say so). State the exact command to run it.
  - meta.json : {{"property": "{prop}", "summary": "<one sentence: what was changed>", "needs": "<what specific condition is needed to manifest>", "demo_cmd": "<command>", "demo_package": "slog|slog_test", "files_changed": [...]}}
Verify yourself, for each change: (a) clean tree: demo passes; (b) with patch: builds, full existing suite passes, demo fails. Several agents share one git repository through worktrees: never use `git stash`; use only `git diff`, `git apply` and `git checkout -- .` inside your own worktree. The directory out/ already holds a go.mod so that `go test ./...` ignores it. Leave the worktree clean (git status empty apart from out/) at the end. Final answer: a short summary of the two changes and the verification you ran.

CHANGES ALREADY PRODUCED BY EARLIER TESTERS (do not repeat these ideas):
""" + "\n".join(earlier) + "\n"
    sys.stdout.write(out)


if __name__ == "__main__":
    main()
