#!/usr/bin/env python3
"""Edit known_findings.json atomically (several builders may touch it).
   kf.py add-known <property> <key> <what...>
   kf.py add-fixed <property> <commit> <what...>
   kf.py del-known <property> <key>"""
import fcntl, json, os, sys
P = os.path.join(os.path.dirname(os.path.dirname(os.path.abspath(__file__))), "known_findings.json")
with open(P, "r+") as fh:
    fcntl.flock(fh, fcntl.LOCK_EX)
    d = json.load(fh)
    cmd = sys.argv[1]
    if cmd == "add-known":
        prop, key, what = sys.argv[2], sys.argv[3], " ".join(sys.argv[4:])
        d["known"] = [k for k in d["known"] if not (k["property"] == prop and k["key"] == key)]
        d["known"].append(dict(property=prop, key=key, what=what))
    elif cmd == "del-known":
        prop, key = sys.argv[2], sys.argv[3]
        d["known"] = [k for k in d["known"] if not (k["property"] == prop and k["key"] == key)]
    elif cmd == "add-fixed":
        prop, commit, what = sys.argv[2], sys.argv[3], " ".join(sys.argv[4:])
        d["fixed"].append("fixed: property=%s %s %s" % (prop, commit, what))
    fh.seek(0); fh.truncate(); json.dump(d, fh, indent=1); fh.write("\n")
