#!/usr/bin/env python3
"""Re-run the registered checks against every seeded change (seeded/<id>/patch.diff) and record which
check reports it.

  regress.py <lanes> [<id-prefix> ...]        writes seeded/STATUS.json and seeded/STATUS.md

Each lane has its own scratch git worktree of /repo's HEAD outside /repo and /verif (removed at the end);
a change is applied there, the checks named in its meta.json ("./check CNN quick exit 1" / "caught by")
are run with VERIF_REPO pointing at the worktree (quick tier, seed 1) until one exits 1, the own property's
check first.  Nothing is applied to /repo itself.
"""
import concurrent.futures
import glob
import json
import os
import re
import subprocess
import sys
import tempfile

VERIF = os.path.dirname(os.path.dirname(os.path.abspath(__file__)))
REPO = os.environ.get("VERIF_BASE_REPO", "/repo")


def candidates(sid, meta):
    own = sid.split("-")[0]
    text = meta.get("verified", "") or ""
    hits = re.findall(r"check (C\d\d)[^;.]*?exit 1", text) + re.findall(r"caught by (C\d\d)", text)
    order = []
    for c in hits + [own]:
        if c not in order:
            order.append(c)
    # the own check first if it is among the catching ones
    if own in hits:
        order.remove(own)
        order.insert(0, own)
    return order


def lane(k, items, scratch):
    wt = os.path.join(scratch, "wt%d" % k)
    subprocess.run(["git", "-C", REPO, "worktree", "add", "--detach", wt, "HEAD", "-q"], check=True)
    res = {}
    try:
        for sid, meta in items:
            patch = os.path.join(VERIF, "seeded", sid, "patch.diff")
            subprocess.run(["git", "-C", wt, "checkout", "-q", "--", "."], check=True)
            p = subprocess.run(["git", "-C", wt, "apply", patch], capture_output=True, text=True)
            if p.returncode != 0:
                res[sid] = dict(status="patch does not apply", detail=p.stderr[-300:])
                continue
            env = dict(os.environ, VERIF_REPO=wt, VERIF_EVID=os.path.join(scratch, "evid"),
                       VERIF_REPLAYS=os.path.join(scratch, "replays"), VERIF_NO_BUILD_RETRY="1", VERIF_SEED="1")
            tried = {}
            caught = None
            for c in candidates(sid, meta):
                q = subprocess.run(["./check", c, "--tier", "quick"], cwd=VERIF, env=env, capture_output=True, text=True)
                tried[c] = q.returncode
                if q.returncode == 1:
                    caught = c
                    break
            res[sid] = dict(status="reported" if caught else "not reported", by=caught, tried=tried)
            print(sid, res[sid], flush=True)
    finally:
        subprocess.run(["git", "-C", REPO, "worktree", "remove", "--force", wt])
    return res


def main():
    lanes = int(sys.argv[1])
    prefixes = sys.argv[2:]
    items = []
    for m in sorted(glob.glob(os.path.join(VERIF, "seeded", "*", "meta.json"))):
        sid = os.path.basename(os.path.dirname(m))
        if prefixes and not any(sid.startswith(p) for p in prefixes):
            continue
        meta = json.load(open(m))
        if meta.get("retired"):
            continue
        items.append((sid, meta))
    scratch = tempfile.mkdtemp(prefix="verif-regress-")
    os.makedirs(os.path.join(scratch, "evid"), exist_ok=True)
    out = {}
    with concurrent.futures.ThreadPoolExecutor(max_workers=lanes) as pool:
        futs = [pool.submit(lane, k, items[k::lanes], scratch) for k in range(lanes)]
        for f in futs:
            out.update(f.result())
    subprocess.run(["git", "-C", REPO, "worktree", "prune"])
    subprocess.run(["rm", "-rf", scratch])
    sp = os.path.join(VERIF, "seeded", "STATUS.json")
    old = {}
    if os.path.exists(sp):
        old = json.load(open(sp))
    old.update(out)
    json.dump(old, open(sp, "w"), indent=1, sort_keys=True)
    with open(os.path.join(VERIF, "seeded", "STATUS.md"), "w") as fh:
        fh.write("# Seeded changes: which registered check reports which change (quick tier, seed 1)\n\n"
                 "Written by tools/regress.py; every change is applied to a scratch worktree of /repo's HEAD, never to /repo.\n\n"
                 "| seeded | status | reported by | checks tried (exit codes) |\n|---|---|---|---|\n")
        for sid in sorted(old, key=lambda x: (x.split("-")[0], int(x.split("-m")[1]))):
            r = old[sid]
            fh.write("| %s | %s | %s | %s |\n" % (sid, r["status"], r.get("by") or "-", ", ".join("%s:%s" % kv for kv in r.get("tried", {}).items())))
    bad = [s for s, r in out.items() if r["status"] != "reported"]
    print("done: %d changes, %d not reported: %s" % (len(out), len(bad), bad))


if __name__ == "__main__":
    main()
