package slog_test

// C19: the read/write interface of the value encoder handed to user
// marshallers "is observationally equivalent to bytes.Buffer ... starting
// from an empty or pre-filled buffer".
//
// The PrintCtx objects are pooled.  For every record PrintCtx.set/setentry
// only does `s.buf = s.buf[:0]`; the read offset `off` (and lastRead) of the
// previous record survive.  bytes.Buffer couples the two (Reset/Truncate(0)
// clear both).  So if a marshaller of record 1 used the READ half of the API
// (Next, Read, ReadByte, ReadString, WriteTo ... - all listed operations),
// the encoder handed to the marshaller of record 2 is in a state no
// bytes.Buffer can ever be in: off > len(buf).  Len() is negative, and
// Bytes()/String()/Next/Read... panic with "slice bounds out of range"
// (the logger's own final pc.Bytes() panics as well, i.e. the logging call of
// an innocent later record blows up; if record 2 is longer than the stale
// offset it is silently written without its first `off` bytes).
//
// run:  cd /tmp/mut/H5 && go test ./slog/ -run 'TestH5D5' -count=1

import (
	"bytes"
	"fmt"
	"testing"

	"github.com/hedzr/logg/slog"
)

type h5d5fn func(enc *slog.PrintCtx) error

func (f h5d5fn) MarshalSlogObject(enc *slog.PrintCtx) error { return f(enc) }

func TestH5D5PooledEncoderKeepsReadOffset(t *testing.T) {
	var out bytes.Buffer
	l := slog.New("h5d5").SetWriter(&out).SetErrorWriter(&out).SetLevel(slog.InfoLevel).SetJSONMode(true)

	// record 1: a marshaller that drains what is in the buffer (as one may do
	// with a bytes.Buffer: Next(Len())) and writes its own value.
	drain := h5d5fn(func(enc *slog.PrintCtx) error {
		enc.Next(enc.Len())
		_, _ = enc.WriteString(`"drained"`)
		return nil
	})

	// record 2: a marshaller that only looks at the encoder it was handed and
	// runs the same calls on a bytes.Buffer in lock-step.
	var problems []string
	inspect := h5d5fn(func(enc *slog.PrintCtx) (err error) {
		defer func() {
			if r := recover(); r != nil {
				problems = append(problems, fmt.Sprintf("panic inside the marshaller: %v", r))
			}
			_, _ = enc.WriteString(`"seen"`)
		}()
		if n := enc.Len(); n < 0 {
			problems = append(problems, fmt.Sprintf("Len() = %d: negative, impossible for bytes.Buffer", n))
		}
		content := enc.String() // bytes.Buffer.String() never panics
		ref := bytes.NewBufferString(content)
		if enc.Len() != ref.Len() {
			problems = append(problems, fmt.Sprintf("Len() = %d, len(String()) = %d", enc.Len(), ref.Len()))
		}
		b1, e1 := enc.ReadByte()
		b2, e2 := ref.ReadByte()
		if b1 != b2 || (e1 == nil) != (e2 == nil) {
			problems = append(problems, fmt.Sprintf("ReadByte: (%q,%v) vs bytes.Buffer (%q,%v)", b1, e1, b2, e2))
		}
		if e1 == nil {
			_ = enc.UnreadByte()
		}
		return nil
	})

	// sync.Pool hands the same object back to the same goroutine practically
	// always; repeat a few times to be independent of that.
	for i := 0; i < 50 && len(problems) == 0; i++ {
		out.Reset()
		l.Info("record one has a fairly long message, so that a lot of bytes are consumed", "v", drain)

		out.Reset()
		func() {
			defer func() {
				if r := recover(); r != nil {
					problems = append(problems, fmt.Sprintf("the logging call of record 2 panicked: %v", r))
				}
			}()
			l.Info("m", "v", inspect)
		}()
	}
	for _, p := range problems {
		t.Error(p)
	}
}
