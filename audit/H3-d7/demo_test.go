package slog_test

// C06 - "attribute values never contribute raw escape or control
// bytes".  In colored mode a []byte value and a value printed by the
// fallback formatter are written RAW unless they contain a byte < 0x20
// or 0x7f.  The C1 control range is forgotten: the single byte 0x9b is
// CSI, the 8-bit form of "ESC [", and U+009B (bytes c2 9b) is the same
// control in UTF-8.  So the value []byte{0x9b,'3','1','m'} reaches the
// terminal as a live "set foreground red" sequence that is outside the
// record's own colour bookkeeping, and any byte slice that is not valid
// UTF-8 (0x80..0xff) is dumped raw as well.  A string with the very same
// content is escaped ("\x9b31m"), which shows what was intended.
//
// run:  cd /tmp/mut/H3 && go test ./slog/ -run TestHunt3D7 -count=1

import (
	"bytes"
	"context"
	"fmt"
	"regexp"
	"testing"
	"time"
	"unicode/utf8"

	"github.com/hedzr/logg/slog"
)

var h3sgrRe = regexp.MustCompile("\\x1b\\[[0-9;]*m")

type h3user struct {
	Name string
	ID   int
}

// h3controls lists the control bytes left in s once the well-formed
// "ESC [ ... m" sequences the library itself emits are removed: C0
// (except LF), DEL, raw 8-bit C1 bytes / other non-UTF-8 bytes, and C1
// controls encoded in UTF-8.
func h3controls(s string) (found []string) {
	s = h3sgrRe.ReplaceAllString(s, "") // only ESC [ params m, nothing more lenient
	for i := 0; i < len(s); {
		r, w := utf8.DecodeRuneInString(s[i:])
		switch {
		case r == utf8.RuneError && w == 1:
			found = append(found, fmt.Sprintf("raw byte 0x%02x at %d", s[i], i))
		case r == '\n':
		case r < 0x20 || r == 0x7f:
			found = append(found, fmt.Sprintf("C0 control 0x%02x at %d", r, i))
		case r >= 0x80 && r <= 0x9f:
			found = append(found, fmt.Sprintf("C1 control U+%04X at %d", r, i))
		}
		i += w
	}
	return
}

func TestHunt3D7(t *testing.T) {
	defer slog.SaveFlagsAndMod(0, slog.Lcaller)()

	var buf bytes.Buffer
	l := slog.New(slog.WithColorMode(true), slog.WithLevel(slog.TraceLevel), slog.WithWriter(&buf))
	wt := l.(slog.LogSlogAware)
	ts := time.Date(2024, 1, 2, 3, 4, 5, 0, time.UTC)

	for _, c := range []struct {
		what string
		val  any
	}{
		{"string (reference, is escaped)", "\x9b31mRED"},
		{"[]byte with 8-bit CSI", []byte{0x9b, '3', '1', 'm', 'R', 'E', 'D'}},
		{"[]byte with UTF-8 encoded CSI", []byte("\u009b31mRED")},
		{"[]byte, not UTF-8", []byte{0xff, 0xfe, 0x80}},
		{"struct via fallback formatter", h3user{Name: "\u009b31mRED", ID: 7}},
		{"map via fallback formatter", map[string]string{"n": "\u009b2J"}},
	} {
		buf.Reset()
		wt.WriteThru(context.Background(), slog.InfoLevel, ts, 0, "msg", slog.Attrs{slog.Any("v", c.val)})
		out := buf.String()
		if f := h3controls(out); len(f) > 0 {
			t.Errorf("%s: value contributes control bytes to the terminal: %v\n    payload %q", c.what, f, out)
		}
	}
}
