package slog_test

// C06 - colour hygiene depends on a process-wide switch the library
// honours only by halves.  Half of the colouring goes through
// github.com/hedzr/is/term/color (WrapColorTo, WrapColorAndBgTo, ...),
// which write NEITHER the colour NOR the closing reset once the
// application has switched the global no-color mode on
// (is.SetNoColorMode(true), what a --no-color flag does); the other
// half (colorizeToolS.echoColor/echoBgColor/echoColorAndBg) writes its
// escape sequences unconditionally.  With the switch on, a colored-mode
// record of a severity that has a background attribute (trace, always,
// ok, success, fail) switches "\x1b[2m" / "\x1b[5m" on in front of every
// continuation line of the message and never off again: the colour is
// on across the line breaks and still on when the record ends, so it
// bleeds into whatever the terminal prints next.
//
// run:  cd /tmp/mut/H3 && go test ./slog/ -run TestHunt3D6 -count=1

import (
	"bytes"
	"context"
	"strings"
	"testing"
	"time"

	"github.com/hedzr/is"
	"github.com/hedzr/logg/slog"
)

// h3sgr replays the SGR sequences of out and reports every line break
// (and the end of the record) that is reached while an attribute is on.
func h3sgr(out string) (problems []string) {
	on := ""
	line := 1
	for i := 0; i < len(out); i++ {
		switch {
		case out[i] == 0x1b && i+1 < len(out) && out[i+1] == '[':
			j := i + 2
			for j < len(out) && (out[j] == ';' || out[j] >= '0' && out[j] <= '9') {
				j++
			}
			if j < len(out) && out[j] == 'm' {
				params := out[i+2 : j]
				if params == "" || params == "0" {
					on = ""
				} else {
					on = params
				}
				i = j
			}
		case out[i] == '\n':
			if on != "" {
				problems = append(problems, "line "+string(rune('0'+line))+" ends with SGR "+on+" still on")
			}
			line++
		}
	}
	if on != "" {
		problems = append(problems, "record ends with SGR "+on+" still on")
	}
	return
}

func TestHunt3D6(t *testing.T) {
	defer slog.SaveFlagsAndMod(0, slog.Lcaller)()

	var buf bytes.Buffer
	l := slog.New(slog.WithColorMode(true), slog.WithLevel(slog.TraceLevel), slog.WithWriter(&buf))
	wt := l.(slog.LogSlogAware)
	ts := time.Date(2024, 1, 2, 3, 4, 5, 0, time.UTC)

	probe := func(lvl slog.Level) string {
		buf.Reset()
		wt.WriteThru(context.Background(), lvl, ts, 0, "first\nsecond\nthird", slog.Attrs{slog.Int("k", 1)})
		return buf.String()
	}

	// sanity: in the default environment the records are clean
	for _, lvl := range []slog.Level{slog.InfoLevel, slog.TraceLevel, slog.OKLevel} {
		if p := h3sgr(probe(lvl)); len(p) > 0 {
			t.Fatalf("default environment, %v: %v", lvl, p)
		}
	}

	is.SetNoColorMode(true) // process-wide, e.g. set by the application's --no-color flag
	defer is.SetNoColorMode(false)

	for _, lvl := range []slog.Level{slog.TraceLevel, slog.AlwaysLevel, slog.OKLevel, slog.SuccessLevel} {
		out := probe(lvl)
		if !strings.Contains(out, "\x1b[") {
			continue // fully plain output would be fine as well
		}
		if p := h3sgr(out); len(p) > 0 {
			t.Errorf("no-color mode on, severity %v: %s\n    payload %q", lvl, strings.Join(p, "; "), out)
		}
	}
}
