package slog_test

// C14 demo (package slog_test). Copy to /tmp/mut/H4/slog/ and run:
//
//	go test ./slog/ -run 'TestH4D5' -count=1 -v
//
// The std log bridge (NewLogLogger -> handlerWriter.Write) takes the caller
// at the fixed depth getpc(4, ...): [Callers, getpc, Write, log.(*Logger).output,
// log.(*Logger).Print] -> user. That is right for Print/Printf/Println and
// Output(1, ..), but the other verbs of the very same *log.Logger reach
// output() through one more frame inside package log:
//
//	(*Logger).Panic/Panicf/Panicln, (*Logger).Fatal/Fatalf/Fatalln
//	    -> l.Output(2, s) -> l.output -> Write
//	log.Output(1, s) (package level, after log.SetOutput(bridge.Writer()))
//	    -> std.Output(2, s) -> std.output -> Write
//
// Records issued through them are attributed to GOROOT/src/log/log.go,
// function log.(*Logger).Panic / log.Output, not to the user's statement.

import (
	"bytes"
	"encoding/json"
	"log"
	"runtime"
	"strings"
	"testing"

	logz "github.com/hedzr/logg/slog"
)

func TestH4D5_StdLogBridgePanicVerbs(t *testing.T) {
	var buf bytes.Buffer
	l := logz.New("h4d5").SetWriter(&buf).SetErrorWriter(&buf).SetJSONMode(true).SetLevel(logz.InfoLevel)
	defer logz.SaveFlagsAndMod(logz.Lcaller)()
	bl := logz.NewLogLogger(l, logz.ErrorLevel)

	here := func() int { _, _, ln, _ := runtime.Caller(1); return ln }
	check := func(name string, wantLine int) {
		t.Helper()
		var m struct {
			Msg    string `json:"msg"`
			Caller struct {
				File     string `json:"file"`
				Line     int    `json:"line"`
				Function string `json:"function"`
			} `json:"caller"`
		}
		if err := json.Unmarshal(buf.Bytes(), &m); err != nil {
			t.Fatalf("%s: %v: %q", name, err, buf.String())
		}
		buf.Reset()
		if !strings.HasSuffix(m.Caller.File, "demo_test.go") || m.Caller.Line != wantLine {
			t.Errorf("%s: caller = %s:%d %s, want demo_test.go:%d", name, m.Caller.File, m.Caller.Line, m.Caller.Function, wantLine)
		}
	}
	catch := func(f func()) { defer func() { _ = recover() }(); f() }

	var ln int
	ln = here() + 1
	bl.Print("control")
	check("Print (control)", ln)

	ln = here() + 1
	_ = bl.Output(1, "control")
	check("Output(1) (control)", ln)

	catch(func() {
		ln = here() + 1
		bl.Panic("boom")
	})
	check("(*log.Logger).Panic", ln)

	catch(func() {
		ln = here() + 1
		bl.Panicf("boom %d", 1)
	})
	check("(*log.Logger).Panicf", ln)

	catch(func() {
		ln = here() + 1
		bl.Panicln("boom")
	})
	check("(*log.Logger).Panicln", ln)

	// package-level std log redirected into the bridge
	ow := log.Writer()
	log.SetOutput(bl.Writer())
	defer log.SetOutput(ow)

	ln = here() + 1
	log.Print("control")
	check("log.Print (control)", ln)

	ln = here() + 1
	_ = log.Output(1, "x")
	check("log.Output(1)", ln)

	catch(func() {
		ln = here() + 1
		log.Panic("boom")
	})
	check("log.Panic", ln)
}
