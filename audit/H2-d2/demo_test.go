package slog_test

// Property C07 (own attributes of a logger; option form vs method form).
// Copy to /tmp/mut/H2/slog/h2_d2_demo_test.go and run
//   go test ./slog/ -run 'TestH2D2' -count=1
//
// New(name, ...) documents that Opt values, Attr values and plain key/value
// pairs may be mixed.  When at least one plain key/value pair (or Attr) is
// present, newentry replaces s.attrs by a fresh slice AFTER all options have
// run, so every attribute given through an option (WithAttrs, WithAttrs1,
// With) is silently dropped from the logger's own attributes, whatever the
// order of the arguments.  The same attributes given by the method form
// (SetAttrs + Set) are all printed.

import (
	"bytes"
	"encoding/json"
	"testing"

	"github.com/hedzr/logg/slog"
)

func h2d2Record(t *testing.T, l *slog.Entry) map[string]any {
	t.Helper()
	var buf bytes.Buffer
	l.SetWriter(&buf).SetErrorWriter(&buf).SetJSONMode(true)
	l.Warn("probe", "call", 3)
	var m map[string]any
	if err := json.Unmarshal(buf.Bytes(), &m); err != nil {
		t.Fatalf("not JSON: %v: %s", err, buf.String())
	}
	return m
}

func TestH2D2_OptionAttrsSurviveNextToPlainPairs(t *testing.T) {
	root := slog.New("root")

	ref := root.New("method-form").SetAttrs(slog.NewAttr("a", 1)).Set("b", 2)
	m := h2d2Record(t, ref)
	if m["a"] != float64(1) || m["b"] != float64(2) || m["call"] != float64(3) {
		t.Fatalf("reference (method form) is wrong: %v", m)
	}

	cases := map[string]*slog.Entry{
		"child: WithAttrs option, then pair":  root.New("c1", slog.WithAttrs(slog.NewAttr("a", 1)), "b", 2),
		"child: pair, then WithAttrs option":  root.New("c2", "b", 2, slog.WithAttrs(slog.NewAttr("a", 1))),
		"child: With option, then Attr":       root.New("c3", slog.With("a", 1), slog.NewAttr("b", 2)),
		"child: WithAttrs1 option, then pair": root.New("c4", slog.WithAttrs1(slog.NewAttrs("a", 1)), "b", 2),
		"detached: WithAttrs option, then pair": slog.New("d1", slog.WithAttrs(slog.NewAttr("a", 1)), "b", 2).Root(),
	}
	for name, l := range cases {
		m := h2d2Record(t, l)
		if m["b"] != float64(2) || m["call"] != float64(3) {
			t.Errorf("%s: pair / call-site attribute missing: %v", name, m)
		}
		if m["a"] != float64(1) {
			t.Errorf("%s: own attribute a=1 given through the option is not printed; record attributes: a=%v b=%v call=%v",
				name, m["a"], m["b"], m["call"])
		}
	}
}
