package slog_test

// C05 - a []string attribute is written in logfmt mode as
//     ss=["x admin=true","y"]
// i.e. the ELEMENTS are quoted but the value as a whole is a bare
// (unquoted) logfmt value, and a bare value ends at the first blank.
// A blank inside an element therefore splits the pair, and whatever
// follows it up to the next blank is read as a pair of its own: the
// string data forges the pair  admin=true","y"]  .
// (Scalars of every string-like kind - string, []byte, error, Stringer,
// fallback - are quoted as a whole; only the string slice is not.)
//
// run:  cd /tmp/mut/H3 && go test ./slog/ -run TestHunt3D4 -count=1

import (
	"bytes"
	"fmt"
	"sort"
	"strconv"
	"strings"
	"testing"

	"github.com/hedzr/logg/slog"
)

type h3pair struct{ k, v string }

// h3logfmt is a plain logfmt tokenizer: pairs are separated by blanks,
// key = bytes up to '=', value = a double-quoted Go/JSON style string or
// a bare run of non-blank bytes.
func h3logfmt(line string) (pairs []h3pair, err error) {
	i := 0
	for i < len(line) {
		for i < len(line) && line[i] == ' ' {
			i++
		}
		if i >= len(line) {
			break
		}
		j := i
		for j < len(line) && line[j] != '=' && line[j] != ' ' {
			j++
		}
		key := line[i:j]
		if j >= len(line) || line[j] != '=' {
			return pairs, fmt.Errorf("token %q has no '='", key)
		}
		j++
		if j < len(line) && line[j] == '"' {
			e := j + 1
			for e < len(line) && line[e] != '"' {
				if line[e] == '\\' {
					e++
				}
				e++
			}
			if e >= len(line) {
				return pairs, fmt.Errorf("unterminated quote in value of %q", key)
			}
			v, uerr := strconv.Unquote(line[j : e+1])
			if uerr != nil {
				return pairs, fmt.Errorf("value of %q: %v", key, uerr)
			}
			pairs = append(pairs, h3pair{key, v})
			i = e + 1
			continue
		}
		e := j
		for e < len(line) && line[e] != ' ' {
			e++
		}
		pairs = append(pairs, h3pair{key, line[j:e]})
		i = e
	}
	return
}

func TestHunt3D4(t *testing.T) {
	defer slog.SaveFlagsAndMod(0, slog.Lcaller)()

	var buf bytes.Buffer
	l := slog.New(slog.WithColorMode(false), slog.WithLevel(slog.TraceLevel), slog.WithWriter(&buf)) // logfmt
	l.Info("login", "roles", []string{"x admin=true", "y"}, "z", 1)

	out := buf.String()
	if strings.Count(out, "\n") != 1 || !strings.HasSuffix(out, "\n") {
		t.Fatalf("not exactly one line: %q", out)
	}
	line := strings.TrimSuffix(out, "\n")
	t.Logf("payload: %s", line)

	pairs, err := h3logfmt(line)
	if err != nil {
		t.Errorf("line does not tokenize as logfmt: %v", err)
	}
	var keys []string
	got := map[string]string{}
	for _, p := range pairs {
		keys = append(keys, p.k)
		got[p.k] = p.v
	}
	sort.Strings(keys)
	want := []string{"level", "msg", "roles", "time", "z"}
	if fmt.Sprint(keys) != fmt.Sprint(want) {
		t.Errorf("keys parsed from the line = %v, want %v (a string element forged the pair admin=%q)", keys, want, got["admin"])
	}
	if v := got["roles"]; v != `["x admin=true","y"]` {
		t.Errorf("attribute roles parses back as %q: the blank inside its first element ended the value", v)
	}
}
