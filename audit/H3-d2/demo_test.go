package slog_test

// C04 - "logger" is not one of the four reserved field names (time,
// level, msg, caller), so it is a legal attribute key.  On a NAMED
// logger the record then carries two members called "logger": the
// logger's name and the attribute.  The line is still accepted by
// encoding/json, but decoding it no longer yields the logger name (the
// later duplicate overwrites it), i.e. "decoding it yields ... the
// logger name if any ... and one member per attribute" fails.
//
// run:  cd /tmp/mut/H3 && go test ./slog/ -run TestHunt3D2 -count=1

import (
	"bytes"
	"encoding/json"
	"strings"
	"testing"

	"github.com/hedzr/logg/slog"
)

func TestHunt3D2(t *testing.T) {
	for _, caller := range []bool{false, true} {
		func() {
			if caller {
				defer slog.SaveFlagsAndMod(slog.Lcaller)()
			} else {
				defer slog.SaveFlagsAndMod(0, slog.Lcaller)()
			}

			var buf bytes.Buffer
			l := slog.New("billing", slog.WithJSONMode(true), slog.WithLevel(slog.TraceLevel), slog.WithWriter(&buf))
			l.Info("charged", "logger", "stripe-sdk", "amount", 12)

			line := strings.TrimSuffix(buf.String(), "\n")
			t.Logf("payload: %s", line)

			// independent oracle: encoding/json
			var rec map[string]any
			if err := json.Unmarshal([]byte(line), &rec); err != nil {
				t.Fatalf("not valid JSON: %v", err)
			}
			if got := rec["logger"]; got != "billing" {
				t.Errorf("caller=%v: decoded logger name = %#v, want \"billing\" (the record has %d members named \"logger\")",
					caller, got, strings.Count(line, `"logger":`))
			}

			// a JSON object with one member per field must not repeat a name
			dec := json.NewDecoder(strings.NewReader(line))
			if _, err := dec.Token(); err != nil { // {
				t.Fatal(err)
			}
			names := map[string]int{}
			for dec.More() {
				k, err := dec.Token()
				if err != nil {
					t.Fatal(err)
				}
				names[k.(string)]++
				var skip json.RawMessage
				if err := dec.Decode(&skip); err != nil {
					t.Fatal(err)
				}
			}
			for k, n := range names {
				if n > 1 {
					t.Errorf("caller=%v: top-level member %q occurs %d times in one record", caller, k, n)
				}
			}
		}()
	}
}
