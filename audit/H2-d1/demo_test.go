package slog_test

// Property C10. Copy to /tmp/mut/H2/slog/h2_d1_demo_test.go and run
//   go test ./slog/ -run 'TestH2D1' -count=1
//
// An anonymous child (New() without a name, New(""), every With... call) is
// registered in its parent's name index under one random name, but newentry
// draws a second, different random name for Entry.name.  So the name the
// child reports is not the name it can be looked up by:
//   - parent.New(child.Name()) does not return the existing direct child of
//     that name, it creates a second direct child with the same Name();
//   - because the reported names are not checked against anything, they
//     collide among the anonymous children of one parent in a long-running
//     process (about 7 pairs in 200 000), and Sublogger(name) can then no
//     longer agree with the creation history.

import (
	"testing"

	"github.com/hedzr/logg/slog"
)

func TestH2D1_NewByReportedNameReturnsExistingChild(t *testing.T) {
	p := slog.New("parent")
	bad := 0
	for i := 0; i < 50; i++ {
		var c *slog.Entry
		switch i % 3 {
		case 0:
			c = p.New() // anonymous
		case 1:
			c = p.New("") // anonymous, empty name
		default:
			c = p.WithLevel(slog.InfoLevel) // derived child
		}
		if c.Parent() != p.Root() || c.Name() == "" {
			t.Fatalf("unexpected child: parent=%v name=%q", c.Parent(), c.Name())
		}
		again := p.New(c.Name()) // "returns the existing direct child of that name"
		if again != c {
			bad++
			if bad == 1 {
				t.Errorf("child %p reports Name()=%q, but parent.New(%q) returned a different logger %p (Name()=%q): "+
					"two direct children of one parent now carry the same name",
					c, c.Name(), c.Name(), again, again.Name())
			}
		}
	}
	if bad > 0 {
		t.Errorf("%d of 50 anonymous children were not found again under their own name", bad)
	}
}

func TestH2D1_LongRunningAnonymousNamesStayUnique(t *testing.T) {
	p := slog.New("parent")
	const n = 300000
	byName := make(map[string]*slog.Entry, n)
	dups := 0
	var first string
	for i := 0; i < n; i++ {
		c := p.New()
		if _, taken := byName[c.Name()]; taken {
			dups++
			if first == "" {
				first = c.Name()
			}
		}
		byName[c.Name()] = c
	}
	if dups > 0 {
		t.Errorf("%d anonymous children of one parent report a name that an earlier child already reports "+
			"(first: %q); Sublogger(%q) can only return one of them", dups, first, first)
	}
}
