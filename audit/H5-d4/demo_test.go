package slog_test

// C18: "Paths outside all mappings are returned unchanged or as a shorter
// equivalent relative path", for "all sets of registered (prefix,
// replacement) and regexp mappings added and removed in any order ... with
// the two privacy flags on and off".
//
// With Lprivacypath on and Lprivacypathregexp off, checkpath does not consult
// the regexp table at all but runs a hard-coded copy of the default rule
// (`/Volumes/<name>/` -> "~").  That copy stays active after the rule was
// removed (RemoveKnownPathRegexpMapping / ResetKnownPathRegexpMapping), so a
// path that lies outside every registered mapping is rewritten to a DIFFERENT
// path that pretends to be under the home directory: /Volumes/h5d4/src/a.go
// becomes "~/src/a.go".  With the regexp flag on the same call returns the
// path unchanged, as the statement demands.  (Note: under `go test` and with
// DEBUG=1 init() switches Lprivacypathregexp off, so this is the state the
// library runs in there.)
//
// run:  cd /tmp/mut/H5 && go test ./slog/ -run 'TestH5D4' -count=1

import (
	"os"
	"path/filepath"
	"testing"

	"github.com/hedzr/logg/slog"
)

func TestH5D4PathOutsideAllMappings(t *testing.T) {
	saved := slog.GetFlags()
	defer func() {
		slog.SetFlags(saved)
		slog.AddKnownPathRegexpMapping(`/Volumes/[^/]+/`, `~`) // the factory rule
	}()

	// remove every regexp rule: no mapping mentions /Volumes any more
	slog.RemoveKnownPathRegexpMapping(`/Volumes/[^/]+/`)
	slog.ResetKnownPathRegexpMapping()

	cwd, _ := os.Getwd()
	for _, file := range []string{"/Volumes/h5d4/src/a.go", "/Volumes/h5d4/a.go"} {
		rel, _ := filepath.Rel(cwd, file)
		for _, regexpFlag := range []bool{true, false} {
			slog.AddFlags(slog.Lprivacypath)
			if regexpFlag {
				slog.AddFlags(slog.Lprivacypathregexp)
			} else {
				slog.RemoveFlags(slog.Lprivacypathregexp)
			}
			got := slog.Safety(file)
			if got != file && got != rel {
				t.Errorf("Lprivacypathregexp=%v, no regexp mapping registered: Safety(%q) = %q, want the path unchanged (or the equivalent relative path %q)",
					regexpFlag, file, got, rel)
			}
		}
	}
}
