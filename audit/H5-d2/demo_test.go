package slog_test

// C17: "after a successful registration the level ... is gated as the level
// it is treated as", for "all sequences of RegisterLevel calls with arbitrary
// numeric values (... above MaxLevel) ... and option combinations".
//
// RegisterLevel keeps the treat-as option only `if pack.treatAs < MaxLevel`
// (MaxLevel doubles as the "option not given" marker).  Every level a user
// registers lies at or above MaxLevel, so treating a new level as a
// previously registered one is accepted (no error) and silently ignored: the
// new level is gated by its raw number, i.e. dropped by every ordinary
// logger, although the level it is treated as is printed.
//
// run:  cd /tmp/mut/H5 && go test ./slog/ -run 'TestH5D2' -count=1

import (
	"bytes"
	"context"
	"testing"

	"github.com/hedzr/logg/slog"
)

func TestH5D2TreatedAsRegisteredLevel(t *testing.T) {
	const Notice = slog.Level(7201)  // treated as WarnLevel
	const Notice2 = slog.Level(7202) // treated as Notice
	if err := slog.RegisterLevel(Notice, "h5d2-notice", slog.RegWithTreatedAsLevel(slog.WarnLevel)); err != nil {
		t.Fatal(err)
	}
	if err := slog.RegisterLevel(Notice2, "h5d2-notice2", slog.RegWithTreatedAsLevel(Notice)); err != nil {
		t.Fatal(err)
	}

	ctx := context.Background()
	for _, hold := range []slog.Level{slog.ErrorLevel, slog.WarnLevel, slog.InfoLevel} {
		var out, eout bytes.Buffer
		l := slog.New("h5d2").SetWriter(&out).SetErrorWriter(&eout).SetLevel(hold)
		printed := func(lvl slog.Level) bool {
			out.Reset()
			eout.Reset()
			l.LogAttrs(ctx, lvl, "probe")
			return out.Len()+eout.Len() > 0
		}
		warn, n1, n2 := printed(slog.WarnLevel), printed(Notice), printed(Notice2)
		if n1 != warn {
			t.Errorf("logger at %v: warn printed=%v, h5d2-notice (treated as warn) printed=%v", hold, warn, n1)
		}
		if n2 != n1 {
			t.Errorf("logger at %v: h5d2-notice printed=%v, but h5d2-notice2 (registered as treated as h5d2-notice) printed=%v", hold, n1, n2)
		}
		if g, w := l.Enabled(Notice2), l.Enabled(Notice); g != w {
			t.Errorf("logger at %v: Enabled(h5d2-notice2)=%v but Enabled(h5d2-notice)=%v", hold, g, w)
		}
	}
}
