package slog_test

// Demo d5 (property C03): the default destinations cannot be removed.
// AddWriter on a fresh logger appends to the defaults, so the normal set is
// [os.Stdout, w]; RemoveWriter(os.Stdout) (and RemoveErrorWriter(os.Stderr),
// also after ResetWriters) is silently ignored and os.Stdout keeps receiving
// every record, while the same sequence with os.Stdout installed through
// SetWriter/AddWriter does remove it.
//
//	cd /tmp/mut/H1 && cp out/d5/demo_test.go slog/demo_test.go && \
//	  go test ./slog/ -run 'TestDemoD5' -count=1 -v ; rm -f slog/demo_test.go

import (
	"os"
	"path/filepath"
	"testing"

	"github.com/hedzr/logg/slog"
)

type d5Rec struct{ n int }

func (r *d5Rec) Write(p []byte) (int, error) { r.n++; return len(p), nil }

// d5redirect makes os.Stdout / os.Stderr regular files for the duration of f
// and returns what was written to them.
func d5redirect(t *testing.T, f func()) (stdout, stderr string) {
	t.Helper()
	dir := t.TempDir()
	fo, err := os.Create(filepath.Join(dir, "stdout"))
	if err != nil {
		t.Fatal(err)
	}
	fe, err := os.Create(filepath.Join(dir, "stderr"))
	if err != nil {
		t.Fatal(err)
	}
	so, se := os.Stdout, os.Stderr
	os.Stdout, os.Stderr = fo, fe
	defer func() { os.Stdout, os.Stderr = so, se }()
	f()
	fo.Close()
	fe.Close()
	bo, _ := os.ReadFile(filepath.Join(dir, "stdout"))
	be, _ := os.ReadFile(filepath.Join(dir, "stderr"))
	return string(bo), string(be)
}

func TestDemoD5_DefaultWritersCannotBeRemoved(t *testing.T) {
	// control: os.Stdout given explicitly can be removed again
	rec0 := &d5Rec{}
	out, _ := d5redirect(t, func() {
		l := slog.New("d5c").SetLevel(slog.InfoLevel).SetColorMode(false)
		l.SetWriter(os.Stdout) // [stdout]
		l.AddWriter(rec0)      // [stdout rec0]
		l.RemoveWriter(os.Stdout)
		l.Info("control")
	})
	if out != "" || rec0.n != 1 {
		t.Fatalf("control failed: stdout got %q, rec0 got %d records", out, rec0.n)
	}

	// fresh logger: AddWriter appends to the defaults, Remove must delete stdout
	rec1 := &d5Rec{}
	out, _ = d5redirect(t, func() {
		l := slog.New("d5a").SetLevel(slog.InfoLevel).SetColorMode(false)
		l.AddWriter(rec1)         // [stdout rec1]
		l.RemoveWriter(os.Stdout) // want [rec1]
		l.Info("fresh")
	})
	if rec1.n != 1 {
		t.Fatalf("rec1 got %d records, want 1", rec1.n)
	}
	if out != "" {
		t.Errorf("AddWriter(w); RemoveWriter(os.Stdout): os.Stdout is outside the selected set but still received %q", out)
	}

	// after reset: the defaults are restored and must be removable, too
	rec2, rec3 := &d5Rec{}, &d5Rec{}
	out, errOut := d5redirect(t, func() {
		l := slog.New("d5b").SetLevel(slog.InfoLevel).SetColorMode(false)
		l.SetWriter(rec2).ResetWriters() // [stdout] / [stderr]
		l.AddWriter(rec2).AddErrorWriter(rec3)
		l.RemoveWriter(os.Stdout).RemoveErrorWriter(os.Stderr) // want [rec2] / [rec3]
		l.Info("after reset")
		l.Error("after reset")
	})
	if rec2.n != 1 || rec3.n != 1 {
		t.Fatalf("rec2 got %d, rec3 got %d records, want 1 and 1", rec2.n, rec3.n)
	}
	if out != "" {
		t.Errorf("ResetWriters; AddWriter(w); RemoveWriter(os.Stdout): os.Stdout still received %q", out)
	}
	if errOut != "" {
		t.Errorf("ResetWriters; AddErrorWriter(w); RemoveErrorWriter(os.Stderr): os.Stderr still received %q", errOut)
	}
}
