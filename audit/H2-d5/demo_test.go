package slog_test

// Property C10.  Copy to /tmp/mut/H2/slog/h2_d5_demo_test.go and run
//   go test ./slog/ -run 'TestH2D5' -count=1
//
// WithSkip(n) keeps its one-child-per-n in the SAME name index as the named
// children, under the constructed name "c/<receiver name>[<n>]".  A child the
// user created under exactly that name is therefore taken for "the WithSkip
// child": WithSkip returns it instead of a child of its own and overwrites
// its skip count - an operation on the parent changes the skip count of
// another, user-configured logger.

import (
	"testing"

	"github.com/hedzr/logg/slog"
)

func TestH2D5_WithSkipDoesNotHijackANamedChild(t *testing.T) {
	p := slog.New("p").Root()

	u := p.New("c/p[1]") // an ordinary named child; any string is a legal name
	u.SetLevel(slog.ErrorLevel).SetJSONMode(true)
	u.SetSkip(7)

	w := p.WithSkip(1)

	if w == u {
		t.Errorf("p.WithSkip(1) returned the user's named child %q instead of a WithSkip child of its own", u.Name())
	}
	if u.Skip() != 7 {
		t.Errorf("p.WithSkip(1) changed the skip count of another logger (%q): was 7, now %d", u.Name(), u.Skip())
	}
	if w.Level() != p.Level() || w.JSONMode() != p.JSONMode() {
		t.Errorf("the logger returned by p.WithSkip(1) does not carry p's level/format: level %v (p: %v), json %v (p: %v)",
			w.Level(), p.Level(), w.JSONMode(), p.JSONMode())
	}
}
