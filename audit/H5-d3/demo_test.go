package slog_test

// C18: "a source file path that lies under the user's home directory or under
// any registered known-path mapping is never reported with that directory
// prefix: the prefix is replaced by its short form ... for every iteration
// order of the mapping table".
//
// checkpath applies the mappings of knownPathMap one after the other, in map
// iteration order, each one to the OUTPUT of the previous one.  When one
// registered directory is an ancestor of another one (the table always holds
// two nested candidates: $HOME -> "~" and the start directory -> "."), the
// outer mapping, if it happens to be visited first, rewrites the head of the
// path, the inner (protected) directory no longer matches as a prefix and is
// printed in full.  With the mapping "/" -> "." the result is the complete
// original path with a dot in front of it.  "/" -> "." is not exotic: it is
// exactly what init() registers by itself when the process is started with
// the working directory "/" (daemons, containers) - then the home directory
// of the user leaks in the caller field of about every other record.
//
// run:  cd /tmp/mut/H5 && go test ./slog/ -run 'TestH5D3' -count=1

import (
	"bytes"
	"os"
	"os/exec"
	"path/filepath"
	"runtime"
	"strings"
	"testing"

	"github.com/hedzr/logg/slog"
)

// in-process: an explicitly registered ancestor mapping.
func TestH5D3NestedMappingsSafety(t *testing.T) {
	home, err := os.UserHomeDir()
	if err != nil || home == "" || home == "/" {
		t.Skip("no usable home directory")
	}
	slog.AddKnownPathMapping("/", ".")
	slog.AddKnownPathMapping("/opt/h5d3/secret/project", "PRJ")
	slog.AddKnownPathMapping("/opt/h5d3", "O")
	defer func() {
		slog.RemoveKnownPathMapping("/")
		slog.RemoveKnownPathMapping("/opt/h5d3/secret/project")
		slog.RemoveKnownPathMapping("/opt/h5d3")
	}()

	leaks := map[string]int{}
	const rounds = 3000 // every call iterates the map in a fresh random order
	for i := 0; i < rounds; i++ {
		if got := slog.Safety(home + "/work/a.go"); strings.Contains(got, home+"/") {
			leaks[got]++
		}
		if got := slog.Safety("/opt/h5d3/secret/project/a.go"); strings.Contains(got, "secret/project") {
			leaks[got]++
		}
	}
	for got, n := range leaks {
		t.Errorf("%d of %d calls returned %q: the protected directory is reported instead of its short form", n, rounds, got)
	}
}

// whole process: nothing is registered by the test; the process merely runs
// with the working directory "/" and a HOME that contains this source file, so
// that the caller field of real records is concerned.
func TestH5D3WorkingDirectoryRoot(t *testing.T) {
	_, thisFile, _, _ := runtime.Caller(0)
	if os.Getenv("H5D3_CHILD") == "1" {
		var out bytes.Buffer
		l := slog.New("h5d3").SetWriter(&out).SetErrorWriter(&out).SetLevel(slog.InfoLevel).SetJSONMode(true)
		home := os.Getenv("HOME")
		for i := 0; i < 400; i++ {
			out.Reset()
			l.Info("probe")
			if strings.Contains(out.String(), home+"/") {
				os.Stdout.WriteString("\nH5D3-LEAK-RECORD " + strings.TrimSpace(out.String()) + "\n")
				break
			}
		}
		for i := 0; i < 400; i++ {
			if got := slog.Safety(thisFile); strings.Contains(got, home+"/") {
				os.Stdout.WriteString("\nH5D3-LEAK-SAFETY " + got + "\n")
				break
			}
		}
		return
	}

	// HOME := the grand-parent directory of this file's directory
	home := filepath.Dir(filepath.Dir(filepath.Dir(thisFile)))
	if home == "/" || home == "." {
		t.Skip("source file too close to the root")
	}
	cmd := exec.Command(os.Args[0], "-test.run=^TestH5D3WorkingDirectoryRoot$", "-test.count=1")
	cmd.Dir = "/"
	cmd.Env = append(os.Environ(), "H5D3_CHILD=1", "HOME="+home, "PWD=/")
	b, err := cmd.CombinedOutput()
	if err != nil {
		t.Fatalf("child failed: %v\n%s", err, b)
	}
	for _, line := range strings.Split(string(b), "\n") {
		if strings.HasPrefix(line, "H5D3-LEAK") {
			t.Errorf("process with cwd=/ and HOME=%s: %s", home, line)
		}
	}
}
