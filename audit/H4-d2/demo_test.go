package slog_test

// C14 demo (package slog_test). Copy to /tmp/mut/H4/slog/ and run:
//
//	go test ./slog/ -run 'TestH4D2' -count=1 -v
//
// handler4LogSlog.Handle throws the record's PC away and re-derives the
// caller with runtime.Callers(4), i.e. it assumes that Handle is always
// called by (*log/slog.Logger).log which was called by a one-line verb of
// log/slog.Logger. Every other way log/slog delivers a record to a handler
// is attributed to a frame that is NOT the user's statement:
//   a) a handler middleware wrapping the adapter (one more frame),
//   b) log/slog.NewLogLogger(handler, level) - log/slog's own std log bridge,
//   c) std log.Print after log/slog.SetDefault(slog.New(adapter)),
//   d) a user wrapper that builds the Record with its own PC and calls
//      Handler.Handle (the pattern documented in log/slog, "Wrapping").

import (
	"bytes"
	"context"
	"encoding/json"
	"log"
	logslog "log/slog"
	"runtime"
	"strings"
	"testing"
	"time"

	logz "github.com/hedzr/logg/slog"
)

type h4mw struct{ logslog.Handler } // a typical middleware handler

func (m h4mw) Handle(ctx context.Context, r logslog.Record) error {
	r.AddAttrs(logslog.String("mw", "yes"))
	return m.Handler.Handle(ctx, r)
}
func (m h4mw) WithAttrs(a []logslog.Attr) logslog.Handler { return h4mw{m.Handler.WithAttrs(a)} }
func (m h4mw) WithGroup(n string) logslog.Handler        { return h4mw{m.Handler.WithGroup(n)} }

// h4infof is the wrapper of the log/slog documentation (example "wrapping").
func h4infof(l *logslog.Logger, msg string) {
	var pcs [1]uintptr
	runtime.Callers(2, pcs[:]) // skip [Callers, h4infof]
	r := logslog.NewRecord(time.Now(), logslog.LevelInfo, msg, pcs[0])
	_ = l.Handler().Handle(context.Background(), r)
}

func h4here() (string, int) { // file, line of the caller
	_, f, ln, _ := runtime.Caller(1)
	return f, ln
}

func TestH4D2_AdapterIgnoresRecordPC(t *testing.T) {
	var buf bytes.Buffer
	l := logz.New("h4d2").SetWriter(&buf).SetErrorWriter(&buf)
	h := logz.NewSlogHandler(l, &logz.HandlerOptions{NoColor: true, JSON: true, Level: logz.TraceLevel})

	check := func(name string, wantLine int) {
		t.Helper()
		var m struct {
			Caller struct {
				File     string `json:"file"`
				Line     int    `json:"line"`
				Function string `json:"function"`
			} `json:"caller"`
		}
		if err := json.Unmarshal(buf.Bytes(), &m); err != nil {
			t.Fatalf("%s: %v: %q", name, err, buf.String())
		}
		buf.Reset()
		if !strings.HasSuffix(m.Caller.File, "demo_test.go") || m.Caller.Line != wantLine ||
			!strings.HasSuffix(m.Caller.Function, "TestH4D2_AdapterIgnoresRecordPC") {
			t.Errorf("%s: caller = %s:%d %s, want demo_test.go:%d ...TestH4D2_AdapterIgnoresRecordPC",
				name, m.Caller.File, m.Caller.Line, m.Caller.Function, wantLine)
		}
	}

	// control: the plain log/slog.Logger is attributed correctly
	_, ln := h4here()
	logslog.New(h).Info("control")
	check("control", ln+1)

	// a) middleware around the adapter
	_, ln = h4here()
	logslog.New(h4mw{h}).Info("through a middleware")
	check("middleware", ln+1)

	// b) log/slog's std log bridge on the adapter
	ll := logslog.NewLogLogger(h, logslog.LevelInfo)
	ll.SetFlags(log.Lshortfile) // makes log/slog capture the PC into the record
	_, ln = h4here()
	ll.Print("through slog.NewLogLogger")
	check("slog.NewLogLogger", ln+1)

	// c) std log after slog.SetDefault
	oldD, oldF, oldW := logslog.Default(), log.Flags(), log.Writer()
	log.SetFlags(log.Lshortfile)
	logslog.SetDefault(logslog.New(h))
	_, ln = h4here()
	log.Print("std log after slog.SetDefault")
	logslog.SetDefault(oldD)
	log.SetFlags(oldF)
	log.SetOutput(oldW)
	check("log.Print after slog.SetDefault", ln+1)

	// d) documented wrapper with its own record PC
	_, ln = h4here()
	h4infof(logslog.New(h), "through a wrapper")
	check("wrapper with record PC", ln+1)
}
