package slog_test

// C17: "after a successful registration the level ... is gated as the level
// it is treated as".
//
// A level registered with RegWithTreatedAsLevel(OKLevel) (or SuccessLevel,
// FailLevel, AlwaysLevel) is NOT gated like OKLevel (...): Level.Enabled
// replaces the requested level only once through mLevelIsEnabledAs and
// tests the special levels (Always, Off, Debug in debug mode) before that
// replacement.  OKLevel itself is gated as InfoLevel, so a logger at
// InfoLevel prints OK records, but the level "treated as OKLevel" is
// compared as the raw number 9 and is dropped.
//
// run:  cd /tmp/mut/H5 && go test ./slog/ -run 'TestH5D1' -count=1

import (
	"bytes"
	"context"
	"testing"

	"github.com/hedzr/logg/slog"
)

func TestH5D1TreatedAsBuiltinIsGatedLikeIt(t *testing.T) {
	type pair struct {
		lvl     slog.Level
		title   string
		treatAs slog.Level
	}
	pairs := []pair{
		{slog.Level(7101), "h5d1-like-ok", slog.OKLevel},
		{slog.Level(7102), "h5d1-like-success", slog.SuccessLevel},
		{slog.Level(7103), "h5d1-like-fail", slog.FailLevel},
		{slog.Level(7104), "h5d1-like-always", slog.AlwaysLevel},
		{slog.Level(7105), "h5d1-like-info", slog.InfoLevel}, // control: works
	}
	for _, p := range pairs {
		if err := slog.RegisterLevel(p.lvl, p.title, slog.RegWithTreatedAsLevel(p.treatAs)); err != nil {
			t.Fatalf("RegisterLevel(%d,%q): %v", int(p.lvl), p.title, err)
		}
	}

	ctx := context.Background()
	// no logger is ever set to DebugLevel/TraceLevel here, so the global
	// debug-mode switch plays no role.
	for _, hold := range []slog.Level{slog.ErrorLevel, slog.WarnLevel, slog.InfoLevel} {
		var out, eout bytes.Buffer
		l := slog.New("h5d1").SetWriter(&out).SetErrorWriter(&eout).SetLevel(hold)
		printed := func(lvl slog.Level) bool {
			out.Reset()
			eout.Reset()
			l.LogAttrs(ctx, lvl, "probe")
			return out.Len()+eout.Len() > 0
		}
		for _, p := range pairs {
			got, want := printed(p.lvl), printed(p.treatAs)
			if got != want {
				t.Errorf("logger at %v: a record at level %q (registered as treated as %v) printed=%v, but a record at %v printed=%v",
					hold, p.title, p.treatAs, got, p.treatAs, want)
			}
			if g, w := l.Enabled(p.lvl), l.Enabled(p.treatAs); g != w {
				t.Errorf("logger at %v: Enabled(%q)=%v but Enabled(%v)=%v", hold, p.title, g, p.treatAs, w)
			}
		}
	}
}
