package slog_test

// Demo d2 (property C01): once a user-defined Logger has been installed with
// SetDefault, every package-level verb (slog.Info, slog.Warn, slog.Print,
// slog.InfoContext, ...) silently emits nothing although the default logger's
// level admits the severity and the method twin Default().Info(...) does emit.
//
//	cd /tmp/mut/H1 && cp out/d2/demo_test.go slog/demo_test.go && \
//	  go test ./slog/ -run 'TestDemoD2' -count=1 -v ; rm -f slog/demo_test.go

import (
	"context"
	"sync"
	"testing"

	"github.com/hedzr/logg/slog"
)

type d2Rec struct {
	mu sync.Mutex
	n  int
}

func (r *d2Rec) Write(p []byte) (int, error) {
	r.mu.Lock()
	r.n++
	r.mu.Unlock()
	return len(p), nil
}

// d2Logger is a user-defined slog.Logger: it satisfies the interface by
// embedding one (e.g. to add methods of its own).
type d2Logger struct{ slog.Logger }

func TestDemoD2_PackageLevelVerbsOnUserDefinedDefault(t *testing.T) {
	rec := &d2Rec{}
	inner := slog.New("d2").SetLevel(slog.InfoLevel).SetColorMode(false).SetWriter(rec).SetErrorWriter(rec)

	old := slog.Default()
	defer slog.SetDefault(old)
	slog.SetDefault(&d2Logger{inner}) // SetDefault: "sets user-defined logger as Default"

	if !slog.Default().Enabled(slog.InfoLevel) || !slog.Default().Enabled(slog.WarnLevel) || !slog.Default().Enabled(slog.AlwaysLevel) {
		t.Fatal("setup: default logger should admit Info, Warn and Always")
	}

	ctx := context.Background()
	cases := []struct {
		name   string
		method func()
		pkg    func()
	}{
		{"Info", func() { slog.Default().Info("m") }, func() { slog.Info("m") }},
		{"Warn", func() { slog.Default().Warn("m") }, func() { slog.Warn("m") }},
		{"Print", func() { slog.Default().Print("m") }, func() { slog.Print("m") }},
		{"Println", func() { slog.Default().Println("m") }, func() { slog.Println("m") }},
		{"OK", func() { slog.Default().OK("m") }, func() { slog.OK("m") }},
		{"InfoContext", func() { slog.Default().InfoContext(ctx, "m") }, func() { slog.InfoContext(ctx, "m") }},
		{"ErrorContext", func() { slog.Default().ErrorContext(ctx, "m") }, func() { slog.ErrorContext(ctx, "m") }},
	}
	for _, c := range cases {
		before := rec.n
		c.method()
		viaMethod := rec.n - before
		before = rec.n
		c.pkg()
		viaPkg := rec.n - before
		if viaMethod != 1 {
			t.Fatalf("%s: the method on the default logger produced %d records, want 1", c.name, viaMethod)
		}
		if viaPkg != viaMethod {
			t.Errorf("%s: admitted by the default logger, Default().%s wrote %d record but package-level slog.%s wrote %d", c.name, c.name, viaMethod, c.name, viaPkg)
		}
	}
}
