package slog_test

// Demo d1 (property C03): Remove*Writer panics for writers whose dynamic type
// is not comparable (func adapters, struct values holding a slice/map/func),
// instead of deleting that writer from the configuration.
//
//	cd /tmp/mut/H1 && cp out/d1/demo_test.go slog/demo_test.go && \
//	  go test ./slog/ -run 'TestDemoD1' -count=1 -v ; rm -f slog/demo_test.go

import (
	"fmt"
	"testing"

	"github.com/hedzr/logg/slog"
)

// d1WriterFunc is the usual func adapter for io.Writer (cf. http.HandlerFunc).
type d1WriterFunc func(p []byte) (int, error)

func (f d1WriterFunc) Write(p []byte) (int, error) { return f(p) }

// d1TagWriter is a writer passed by value that holds a slice.
type d1TagWriter struct {
	tag  []byte
	sink *[]string
}

func (w d1TagWriter) Write(p []byte) (int, error) {
	*w.sink = append(*w.sink, string(w.tag)+string(p))
	return len(p), nil
}

func d1try(f func()) (panicked any) {
	defer func() { panicked = recover() }()
	f()
	return nil
}

func TestDemoD1_RemoveWriter_FuncWriter(t *testing.T) {
	var got1, got2 int
	w1 := d1WriterFunc(func(p []byte) (int, error) { got1++; return len(p), nil })
	w2 := d1WriterFunc(func(p []byte) (int, error) { got2++; return len(p), nil })

	l := slog.New("d1").SetLevel(slog.InfoLevel).SetColorMode(false)
	l.SetWriter(w1) // normal writers: [w1]
	l.AddWriter(w2) // normal writers: [w1 w2]

	if r := d1try(func() { l.RemoveWriter(w2) }); r != nil { // should become [w1]
		t.Errorf("RemoveWriter(w2) panicked instead of removing the writer: %v", r)
	}
	l.Info("probe")
	if got1 != 1 || got2 != 0 {
		t.Errorf("after Set(w1) Add(w2) Remove(w2) a probe record reached w1 %d times and w2 %d times; want 1 and 0", got1, got2)
	}
}

func TestDemoD1_RemoveErrorAndLevelWriter_StructWriter(t *testing.T) {
	var a, b []string
	wa := d1TagWriter{tag: []byte("a:"), sink: &a}
	wb := d1TagWriter{tag: []byte("b:"), sink: &b}

	l := slog.New("d1b").SetLevel(slog.InfoLevel).SetColorMode(false)
	l.SetErrorWriter(wa)
	l.AddErrorWriter(wb)
	l.AddLevelWriter(slog.InfoLevel, wa)
	l.AddLevelWriter(slog.InfoLevel, wb)

	if r := d1try(func() { l.RemoveErrorWriter(wb) }); r != nil {
		t.Errorf("RemoveErrorWriter(wb) panicked: %v", r)
	}
	if r := d1try(func() { l.RemoveLevelWriter(slog.InfoLevel, wb) }); r != nil {
		t.Errorf("RemoveLevelWriter(Info, wb) panicked: %v", r)
	}
	l.Error("e")
	l.Info("i")
	if fmt.Sprint(len(a), len(b)) != "2 0" {
		t.Errorf("wa got %d records, wb got %d records; want 2 and 0 (wb was removed from both sets)", len(a), len(b))
	}
}
