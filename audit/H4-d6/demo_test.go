package slog_test

// C15 demo (package slog_test). Copy to /tmp/mut/H4/slog/ and run:
//
//	go test ./slog/ -run 'TestH4D6' -count=1 -v
//
// A log/slog attribute of kind Any that holds a nil pointer of a type whose
// Error()/String() method has a pointer receiver (the classic
// `var err *MyErr; logger.Info("..", "err", err)`) makes the adapter panic
// inside PrintCtx.appendValue (case error -> appendError -> err.Error(),
// case Stringer -> z.String()): the panic escapes into the user's
// logger.Info call and the record is not emitted at all. log/slog's own
// handlers (and fmt) print "<nil>" for such values and emit the record.

import (
	"bytes"
	"encoding/json"
	logslog "log/slog"
	"testing"

	logz "github.com/hedzr/logg/slog"
)

type h4d6Err struct{ text string }

func (e *h4d6Err) Error() string { return e.text }

type h4d6Str struct{ text string }

func (s *h4d6Str) String() string { return s.text }

func TestH4D6_TypedNilValueLosesTheRecord(t *testing.T) {
	var nilErr *h4d6Err
	var nilStr *h4d6Str
	for _, c := range []struct {
		name string
		val  any
	}{{"nil *T implementing error", nilErr}, {"nil *T implementing fmt.Stringer", nilStr}} {
		for _, js := range []bool{true, false} {
			var buf bytes.Buffer
			l := logz.New("h4d6").SetWriter(&buf).SetErrorWriter(&buf)
			h := logz.NewSlogHandler(l, &logz.HandlerOptions{NoColor: true, JSON: js, Level: logz.InfoLevel})
			sl := logslog.New(h)

			var panicked any
			func() {
				defer func() { panicked = recover() }()
				sl.Info("request failed", "id", 7, "val", c.val)
			}()
			if panicked != nil {
				t.Errorf("%s (json=%v): logger.Info panicked: %v", c.name, js, panicked)
			}
			if n := bytes.Count(buf.Bytes(), []byte("request failed")); n != 1 {
				t.Errorf("%s (json=%v): record emitted %d times, want once: %q", c.name, js, n, buf.String())
			} else if js {
				var m map[string]any
				if err := json.Unmarshal(buf.Bytes(), &m); err != nil || m["id"] != float64(7) {
					t.Errorf("%s: bad record %q (%v)", c.name, buf.String(), err)
				}
			}
		}
	}
}
