package slog_test

// C08 demo (package slog_test). Copy to /tmp/mut/H4/slog/ and run:
//
//	go test -race ./slog/ -run 'TestH4D3' -count=1 -v
//
// Entry.WriteThru (the public entry point the log/slog adapter and other
// "external adapters" use, interface LogSlogAware) hands the caller's Attrs
// slice to serializeAttrs as it is. serializeAttrs sorts and dedupes that
// slice IN PLACE. Goroutines that log through WriteThru with an attribute
// list they share therefore (1) race on the slice (race detector report) and
// (2) rewrite the caller's data: after a single call the shared list is
// permanently reordered and one of its members is overwritten.
// Every other entry point copies the attributes into a per-call slice first,
// and shared groups are cloned before sorting (fix 2ece070); WriteThru was
// left out.

import (
	"context"
	"io"
	"sync"
	"testing"
	"time"

	logz "github.com/hedzr/logg/slog"
)

func TestH4D3_WriteThruSortsSharedAttrsInPlace(t *testing.T) {
	l := logz.New("h4d3").SetWriter(io.Discard).SetErrorWriter(io.Discard).SetJSONMode(true)
	var e logz.LogSlogAware = l

	// part 1: deterministic, no concurrency needed - the caller's list is rewritten
	b1, a, b2 := logz.Int("b", 1), logz.Int("a", 2), logz.Int("b", 3)
	shared := logz.Attrs{b1, a, b2}
	e.WriteThru(context.Background(), logz.InfoLevel, time.Now(), 0, "m", shared)
	if shared[0] != b1 || shared[1] != a || shared[2] != b2 {
		t.Errorf("WriteThru rewrote the caller's attribute list: [%s=%v %s=%v %s=%v], was [b=1 a=2 b=3]",
			shared[0].Key(), shared[0].Value(), shared[1].Key(), shared[1].Value(), shared[2].Key(), shared[2].Value())
	}

	// part 2: under -race the detector reports the concurrent in-place sort
	// even for a list that is already sorted and free of duplicates
	sorted := logz.Attrs{logz.Int("a", 1), logz.Int("b", 2), logz.Int("c", 3)}
	var wg sync.WaitGroup
	for g := 0; g < 8; g++ {
		wg.Add(1)
		go func() {
			defer wg.Done()
			for i := 0; i < 500; i++ {
				e.WriteThru(context.Background(), logz.InfoLevel, time.Now(), 0, "m", sorted)
			}
		}()
	}
	wg.Wait()
}
