package slog_test

// Demo d3 (property C02): with the level tag width set to 0 - a value that
// SetLevelOutputWidth accepts - every admitted log call of a colour-mode
// logger panics ("invalid length. the valid range: 1-5") instead of
// returning normally, and nothing is delivered.
//
//	cd /tmp/mut/H1 && cp out/d3/demo_test.go slog/demo_test.go && \
//	  go test ./slog/ -run 'TestDemoD3' -count=1 -v ; rm -f slog/demo_test.go

import (
	"testing"

	"github.com/hedzr/logg/slog"
)

type d3Rec struct{ writes [][]byte }

func (r *d3Rec) Write(p []byte) (int, error) {
	r.writes = append(r.writes, append([]byte(nil), p...))
	return len(p), nil
}

func TestDemoD3_LevelOutputWidthZero(t *testing.T) {
	defer slog.SetLevelOutputWidth(3) // factory value
	slog.SetLevelOutputWidth(0)       // accepted: the setter allows 0..5

	rec := &d3Rec{}
	l := slog.New("d3").SetLevel(slog.InfoLevel).SetColorMode(true).SetWriter(rec).SetErrorWriter(rec)

	func() {
		defer func() {
			if r := recover(); r != nil {
				t.Errorf("Info(\"hello\") on a colour-mode logger did not return normally: panic: %v", r)
			}
		}()
		l.Info("hello", "k", 1) // non-terminating severity, admitted
	}()
	if len(rec.writes) != 1 {
		t.Errorf("the admitted record was delivered in %d Write calls, want exactly 1", len(rec.writes))
	} else if w := rec.writes[0]; len(w) == 0 || w[len(w)-1] != '\n' {
		t.Errorf("payload does not end with a newline: %q", w)
	}
}
