package slog_test

// C15 demo (package slog_test). Copy to /tmp/mut/H4/slog/ and run:
//
//	go test ./slog/ -run 'TestH4D1' -count=1 -v
//
// A log/slog record whose level is not one of the four standard levels
// (here slog.Level(2), "notice") is mapped to AlwaysLevel by the adapter.
// Entry.printImpl replaces every AlwaysLevel record whose message is blank
// by a bare "\n": the record's time, level and ALL its attributes are lost.
// The same shortcut swallows blank messages of a std log bridge built with
// severity AlwaysLevel.

import (
	"bytes"
	"context"
	"encoding/json"
	logslog "log/slog"
	"testing"
	"time"

	logz "github.com/hedzr/logg/slog"
)

func TestH4D1_SlogRecordWithBlankMessageLosesAttrs(t *testing.T) {
	for _, msg := range []string{"", " ", "\n", "\t \r\n"} {
		var buf bytes.Buffer
		l := logz.New("h4d1").SetWriter(&buf).SetErrorWriter(&buf)
		h := logz.NewSlogHandler(l, &logz.HandlerOptions{NoColor: true, JSON: true, Level: logz.TraceLevel})
		sl := logslog.New(h)

		// control: same record with a standard level is emitted completely
		sl.Log(context.Background(), logslog.LevelInfo, msg, "user", "alice", "n", 42)
		var ctl map[string]any
		if err := json.Unmarshal(buf.Bytes(), &ctl); err != nil || ctl["user"] != "alice" || ctl["msg"] != msg {
			t.Fatalf("control record (LevelInfo) not as expected: %q (%v)", buf.String(), err)
		}
		buf.Reset()

		// the record under test: same content, level slog.Level(2)
		rec := logslog.NewRecord(time.Date(2024, 3, 5, 12, 0, 0, 0, time.UTC), logslog.Level(2), msg, 0)
		rec.AddAttrs(logslog.String("user", "alice"), logslog.Int("n", 42))
		if !h.Enabled(context.Background(), rec.Level) {
			t.Fatalf("handler does not admit the level")
		}
		sl.Log(context.Background(), logslog.Level(2), msg, "user", "alice", "n", 42)

		var m map[string]any
		if err := json.Unmarshal(buf.Bytes(), &m); err != nil {
			t.Errorf("msg=%q level=2: output is not a record: %q (%v)", msg, buf.String(), err)
			continue
		}
		if m["user"] != "alice" || m["msg"] != msg {
			t.Errorf("msg=%q level=2: content lost: %q", msg, buf.String())
		}
	}
}

func TestH4D1_StdLogBridgeBlankMessage(t *testing.T) {
	var buf bytes.Buffer
	l := logz.New("h4d1b").SetWriter(&buf).SetErrorWriter(&buf).SetJSONMode(true)
	ll := logz.NewLogLogger(l, logz.AlwaysLevel)
	ll.Print(" ") // std log hands " \n" to the bridge: message " "
	var m map[string]any
	if err := json.Unmarshal(buf.Bytes(), &m); err != nil || m["msg"] != " " {
		t.Errorf("bridge at AlwaysLevel, message %q: not emitted as one record: %q (%v)", " ", buf.String(), err)
	}
}
