package slog_test

// Property C10, last sentence ("... at the package's current default level,
// which is Warn in a production process until SetLevel changes it").
// Copy to /tmp/mut/H2/slog/h2_d6_demo_test.go and run
//   go test ./slog/ -run 'TestH2D6' -count=1
//
// The test re-executes its own test binary WITHOUT any -test.* argument, so
// that the library sees a production process (inTesting == false; the
// control run proves it: the default level there is Warn).  With the
// environment variable DEBUG=1 (also "true", "yes", "on", ...) the package
// init() raises the default level to Debug - nobody called SetLevel - and
// every logger created by the package-level New starts at Debug.

import (
	"bytes"
	"fmt"
	"os"
	"os/exec"
	"strings"
	"testing"

	"github.com/hedzr/logg/slog"
)

func init() {
	if os.Getenv("H2_D6_CHILD") != "1" {
		return
	}
	l := slog.New("x")
	fmt.Printf("default=%v new=%v color=%v parent-nil=%v\n", slog.GetLevel(), l.Level(), l.ColorMode(), l.Parent() == nil)
	os.Exit(0)
}

func h2d6Child(t *testing.T, env ...string) string {
	t.Helper()
	cmd := exec.Command(os.Args[0]) // no -test.* argument: a production process for the library
	var keep []string
	for _, e := range os.Environ() {
		if !strings.HasPrefix(e, "DEBUG=") {
			keep = append(keep, e)
		}
	}
	cmd.Env = append(append(keep, "H2_D6_CHILD=1"), env...)
	var out bytes.Buffer
	cmd.Stdout, cmd.Stderr = &out, &out
	if err := cmd.Run(); err != nil {
		t.Fatalf("child: %v: %s", err, out.String())
	}
	return strings.TrimSpace(out.String())
}

func TestH2D6_DefaultLevelOfAProductionProcess(t *testing.T) {
	const want = "default=warning new=warning color=true parent-nil=true"
	if got := h2d6Child(t); got != want {
		t.Fatalf("control run (no DEBUG variable): got %q want %q", got, want)
	}
	for _, v := range []string{"DEBUG=1", "DEBUG=true"} {
		if got := h2d6Child(t, v); got != want {
			t.Errorf("production process started with %s in its environment: got %q want %q", v, got, want)
		}
	}
}
