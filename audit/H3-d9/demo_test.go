package slog_test

// C04 ("times with their exact value"; C05 makes the same promise) - a
// time.Time attribute is printed with the layout RFC3339Nano, whose
// zone field "Z07:00" has no room for seconds.  For a time in a zone
// whose UTC offset is not a whole number of minutes (every IANA zone
// before standard time, e.g. Europe/Amsterdam +00:19:32 until 1937,
// Asia/Kolkata +05:53:28 LMT, Africa/Monrovia -00:44:30 until 1972; or
// time.FixedZone) the seconds of the offset are silently cut off while
// the wall clock is printed unchanged, so the text denotes a DIFFERENT
// INSTANT: decoding it gives a time up to 59 s away from the one logged.
//
// run:  cd /tmp/mut/H3 && go test ./slog/ -run TestHunt3D9 -count=1

import (
	"bytes"
	"encoding/json"
	"strings"
	"testing"
	"time"

	"github.com/hedzr/logg/slog"
)

func TestHunt3D9(t *testing.T) {
	defer slog.SaveFlagsAndMod(0, slog.Lcaller)()

	var buf bytes.Buffer
	l := slog.New(slog.WithJSONMode(true), slog.WithLevel(slog.TraceLevel), slog.WithWriter(&buf))

	amsterdam := time.FixedZone("AMT", 19*60+32)     // Europe/Amsterdam until 1937-07-01
	monrovia := time.FixedZone("MMT", -(44*60 + 30)) // Africa/Monrovia until 1972-01-07
	for _, when := range []time.Time{
		time.Date(2024, 5, 6, 7, 8, 9, 123456789, time.UTC), // reference
		time.Date(2024, 5, 6, 7, 8, 9, 123456789, time.FixedZone("", 2*3600)),
		time.Date(1930, 5, 6, 7, 8, 9, 0, amsterdam),
		time.Date(1970, 1, 1, 0, 0, 0, 0, monrovia),
	} {
		buf.Reset()
		l.Info("m", "at", when)
		line := strings.TrimSuffix(buf.String(), "\n")
		var rec map[string]any
		if err := json.Unmarshal([]byte(line), &rec); err != nil {
			t.Fatalf("%q: %v", line, err)
		}
		txt, _ := rec["at"].(string)
		back, err := time.Parse(time.RFC3339Nano, txt)
		if err != nil {
			t.Errorf("attribute at=%q does not parse: %v", txt, err)
			continue
		}
		if !back.Equal(when) {
			t.Errorf("logged %v (unix %d), record says %q = unix %d: off by %v",
				when, when.Unix(), txt, back.Unix(), back.Sub(when))
		}
	}
}
