package slog_test

// Demo d4 (property C02): a Print/Println whose message consists only of
// white space is delivered as a full formatted record instead of exactly one
// newline byte when the white space is anything but ' ', '\t', '\r', '\n'
// (vertical tab, form feed, NEL, no-break space, other Unicode spaces - all of
// them white space for unicode.IsSpace / strings.TrimSpace).
//
//	cd /tmp/mut/H1 && cp out/d4/demo_test.go slog/demo_test.go && \
//	  go test ./slog/ -run 'TestDemoD4' -count=1 -v ; rm -f slog/demo_test.go

import (
	"strings"
	"testing"

	"github.com/hedzr/logg/slog"
)

type d4Rec struct{ writes [][]byte }

func (r *d4Rec) Write(p []byte) (int, error) {
	r.writes = append(r.writes, append([]byte(nil), p...))
	return len(p), nil
}

func TestDemoD4_WhitespaceOnlyPrint(t *testing.T) {
	msgs := []string{
		"", " ", "\t \r\n", // handled: exactly "\n"
		"\v", "\f", " \v ", "\n\f\n", // ASCII white space the shortcut forgets
		"\u0085", "\u00a0", "\u2003", "\u3000", // Unicode white space
	}
	for mode, name := range []string{"json", "logfmt", "colour"} {
		for _, m := range msgs {
			if strings.TrimSpace(m) != "" {
				t.Fatalf("setup: %q is not whitespace-only", m)
			}
			for _, verb := range []string{"Print", "Println"} {
				rec := &d4Rec{}
				l := slog.New("d4").SetLevel(slog.InfoLevel).SetWriter(rec).SetErrorWriter(rec)
				switch mode {
				case 0:
					l.SetJSONMode(true)
				case 1:
					l.SetColorMode(false)
				case 2:
					l.SetColorMode(true)
				}
				if verb == "Print" {
					l.Print(m)
				} else {
					l.Println(m)
				}
				if len(rec.writes) != 1 || string(rec.writes[0]) != "\n" {
					t.Errorf("%s %s(%q): want exactly one Write of \"\\n\", got %q", name, verb, m, rec.writes)
				}
			}
		}
	}
}
