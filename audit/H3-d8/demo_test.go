package slog_test

// C04 (the same code path breaks C05) - a record of severity
// AlwaysLevel (Print, Println, PrintContext, Log(ctx, AlwaysLevel, ...),
// WriteThru) whose message is empty or consists of blanks, tabs, CR, LF
// is not formatted at all: printImpl writes a single "\n" to the
// destination and returns.  In JSON mode the record's line therefore
// holds no JSON object - no timestamp, no logger name, no level, no
// message - and every attribute that was logged with it is lost.  The
// statement quantifies over all message strings, the empty one included.
//
// run:  cd /tmp/mut/H3 && go test ./slog/ -run TestHunt3D8 -count=1

import (
	"bytes"
	"context"
	"encoding/json"
	"strings"
	"testing"
	"time"

	"github.com/hedzr/logg/slog"
)

func TestHunt3D8(t *testing.T) {
	defer slog.SaveFlagsAndMod(0, slog.Lcaller)()

	var buf bytes.Buffer
	l := slog.New("audit", slog.WithJSONMode(true), slog.WithLevel(slog.TraceLevel), slog.WithWriter(&buf))
	ts := time.Date(2024, 1, 2, 3, 4, 5, 0, time.UTC)

	check := func(what, wantMsg string) {
		t.Helper()
		out := buf.String()
		buf.Reset()
		if strings.Count(out, "\n") != 1 || !strings.HasSuffix(out, "\n") {
			t.Errorf("%s: payload %q is not exactly one line", what, out)
			return
		}
		var rec map[string]any
		if err := json.Unmarshal([]byte(strings.TrimSuffix(out, "\n")), &rec); err != nil {
			t.Errorf("%s: payload %q is not a JSON object: %v", what, out, err)
			return
		}
		if rec["msg"] != wantMsg || rec["level"] != "always" || rec["logger"] != "audit" || rec["user"] != "bob" {
			t.Errorf("%s: decoded %v, want msg=%q level=always logger=audit user=bob", what, rec, wantMsg)
		}
	}

	// reference: the same call with a visible message is fine
	l.Print("x", "user", "bob")
	check(`Print("x", "user", "bob")`, "x")

	// reference: the empty message at another severity is fine
	l.Info("", "user", "bob")
	if out := buf.String(); !strings.Contains(out, `"msg":""`) || !strings.Contains(out, `"user":"bob"`) {
		t.Errorf("Info with empty message: %q", out)
	}
	buf.Reset()

	l.Print("", "user", "bob")
	check(`Print("", "user", "bob")`, "")

	l.Print(" \t", "user", "bob")
	check(`Print(" \t", "user", "bob")`, " \t")

	l.Println("\n", "user", "bob")
	check(`Println("\n", "user", "bob")`, "\n")

	l.(slog.LogSlogAware).WriteThru(context.Background(), slog.AlwaysLevel, ts, 0, "", slog.Attrs{slog.String("user", "bob")})
	check(`WriteThru(AlwaysLevel, "", user=bob)`, "")
}
