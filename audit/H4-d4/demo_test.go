package slog_test

// C16 demo (package slog_test). Copy to /tmp/mut/H4/slog/ and run:
//
//	go test ./slog/ -run 'TestH4D4' -count=1 -v
//
// PrintCtx.appendTimestamp writes the formatted time RAW between two quote
// bytes in JSON and logfmt mode (every other string goes through
// appendQuotedString). Whatever the layout's literal text or the zone
// abbreviation contributes is not escaped, so the time member cannot be read
// back - in JSON mode the whole record is no longer valid JSON:
//   - a tab separated layout "2006-01-02\t15:04:05.000000Z07:00"
//     (a raw control character is illegal inside a JSON string),
//   - a layout with literal quote or backslash, e.g. `15h04'05" Z07:00`
//     or `2006\01\02 15:04:05 Z07:00`,
// (The same holds for a zone abbreviation holding such a character when the
// layout prints MST.)

import (
	"bytes"
	"context"
	"encoding/json"
	"testing"
	"time"

	logz "github.com/hedzr/logg/slog"
)

func TestH4D4_TimestampWrittenRaw(t *testing.T) {
	inst := time.Date(2024, 3, 5, 12, 34, 56, 123456000, time.FixedZone("", 2*3600))
	cases := []struct {
		layout string
		at     time.Time
	}{
		{"2006-01-02\t15:04:05.000000Z07:00", inst},
		{`2006-01-02 15h04'05" Z07:00`, inst.Truncate(time.Second)},
		{`2006\01\02 15:04:05 Z07:00`, inst.Truncate(time.Second)},
	}
	for _, c := range cases {
		// the layout itself round-trips: the loss is the library's
		if back, err := time.Parse(c.layout, c.at.Format(c.layout)); err != nil || !back.Equal(c.at) {
			t.Fatalf("layout %q does not round-trip by itself: %v %v", c.layout, back, err)
		}
		var buf bytes.Buffer
		l := logz.New("h4d4").SetWriter(&buf).SetErrorWriter(&buf).SetJSONMode(true).SetUTCMode(false).SetTimeFormat(c.layout)
		l.WriteThru(context.Background(), logz.InfoLevel, c.at, 0, "m", nil)

		var m map[string]any
		if err := json.Unmarshal(buf.Bytes(), &m); err != nil {
			t.Errorf("layout %q: the record is not valid JSON: %v\n    %q", c.layout, err, buf.String())
			continue
		}
		txt, _ := m["time"].(string)
		got, err := time.Parse(c.layout, txt)
		if err != nil || !got.Equal(c.at) {
			t.Errorf("layout %q: time member %q does not parse back to %v (got %v, %v)", c.layout, txt, c.at, got, err)
		}
	}
}
