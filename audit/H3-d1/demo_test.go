package slog_test

// C09 - the bytes of a record are not a function of the call alone:
// the caller's file name is shortened by walking the path-hardening
// table knownPathMap with `for k, v := range map`, i.e. in random
// order.  As soon as two entries of the table are prefixes of the same
// source file (the defaults are $HOME -> "~" and the start-up working
// directory -> ".", so this happens whenever the program runs from a
// directory below $HOME; here a second mapping is added through the
// public API so that the demo does not depend on $HOME), the very same
// call yields "./demo_test.go" one time and "~proj/slog/demo_test.go"
// another time.
//
// run:  cd /tmp/mut/H3 && go test ./slog/ -run TestHunt3D1 -count=1

import (
	"bytes"
	"context"
	"os"
	"path/filepath"
	"runtime"
	"testing"
	"time"

	"github.com/hedzr/logg/slog"
)

func TestHunt3D1(t *testing.T) {
	// default flags (Lcaller|Lprivacypath are part of LstdFlags); make it explicit
	defer slog.SaveFlagsAndMod(slog.Lcaller | slog.Lprivacypath)()

	cwd, err := os.Getwd() // == the directory registered as "." at start-up
	if err != nil {
		t.Skip(err)
	}
	parent := filepath.Dir(cwd)
	slog.AddKnownPathMapping(parent, "~proj")
	defer slog.RemoveKnownPathMapping(parent)

	for _, mode := range []string{"json", "logfmt", "color"} {
		var buf bytes.Buffer
		var l slog.Logger
		switch mode {
		case "json":
			l = slog.New("probe", slog.WithJSONMode(true), slog.WithLevel(slog.TraceLevel), slog.WithWriter(&buf))
		case "logfmt":
			l = slog.New("probe", slog.WithColorMode(false), slog.WithLevel(slog.TraceLevel), slog.WithWriter(&buf))
		default:
			l = slog.New("probe", slog.WithColorMode(true), slog.WithLevel(slog.TraceLevel), slog.WithWriter(&buf))
		}
		wt := l.(slog.LogSlogAware)

		var pcs [1]uintptr
		runtime.Callers(1, pcs[:]) // a frame inside this file
		ts := time.Date(2024, 1, 2, 3, 4, 5, 0, time.UTC)

		seen := map[string]int{}
		var first string
		for i := 0; i < 500; i++ {
			buf.Reset()
			// the identical probe call, nothing else happens in between
			wt.WriteThru(context.Background(), slog.InfoLevel, ts, pcs[0], "probe", slog.Attrs{slog.Int("k", 1)})
			if i == 0 {
				first = buf.String()
			}
			seen[buf.String()]++
		}
		if len(seen) != 1 {
			t.Errorf("%s mode: the same WriteThru call (same logger, level, timestamp, frame, message, attributes, flags) produced %d different payloads:", mode, len(seen))
			for k, n := range seen {
				t.Errorf("  %3d x %q", n, k)
			}
			_ = first
		}
	}
}
