package slog_test

// Property C10 (isolation: "every Set... call changes the receiver only",
// "no operation on one logger ever changes the level ... of another";
// observed at the bytes each logger emits for a probe record).
// Copy to /tmp/mut/H2/slog/h2_d4_demo_test.go and run
//   go test ./slog/ -run 'TestH2D4' -count=1
//
// Entry.SetLevel(DebugLevel) (and therefore WithLevel(DebugLevel), the
// WithLevel(DebugLevel) option of New, and the package-level SetLevel) also
// calls is.SetDebugMode(true), a process-wide switch, and Level.Enabled admits
// every Debug record while that switch is on.  So configuring ONE logger for
// Debug makes every OTHER logger - unrelated trees included - emit its Debug
// records although its own level (Warn, Error, ...) did not change, and
// setting the first logger back does not undo it.

import (
	"bytes"
	"testing"

	"github.com/hedzr/is"
	"github.com/hedzr/logg/slog"
)

func TestH2D4_SetLevelDebugOnOneLoggerOpensAllOthers(t *testing.T) {
	is.SetDebugMode(false) // the state of a fresh process
	defer is.SetDebugMode(false)

	var buf bytes.Buffer
	b := slog.New("b").Root().SetWriter(&buf).SetErrorWriter(&buf).SetColorMode(false).SetLevel(slog.ErrorLevel)
	bc := b.New("b-child")

	probe := func() string {
		buf.Reset()
		b.Debug("probe-b")
		bc.SetWriter(&buf).Debug("probe-bc")
		return buf.String()
	}

	if out := probe(); out != "" {
		t.Fatalf("precondition: an Error-level logger must drop Debug records, got %q", out)
	}

	a := slog.New("a").Root() // a detached logger of its own tree
	a.SetLevel(slog.DebugLevel)

	if b.Level() != slog.ErrorLevel || bc.Level() != slog.ErrorLevel {
		t.Fatalf("getter changed: %v %v", b.Level(), bc.Level())
	}
	if out := probe(); out != "" {
		t.Errorf("after a.SetLevel(DebugLevel), loggers b and b-child (level still %v) emit Debug records:\n%s", b.Level(), out)
	}

	a.SetLevel(slog.WarnLevel)
	if out := probe(); out != "" {
		t.Errorf("even after a.SetLevel(WarnLevel) again, b and b-child keep emitting Debug records:\n%s", out)
	}
}
