package slog_test

// C06 - "the attributes as key=value in ascending key order".  The
// attributes are sorted by their TOP-LEVEL key and a group is then
// expanded in place into its dotted members.  A plain key that shares a
// group's name as prefix followed by a character below '.' (0x2e), such
// as '-', '+', ',', '#', '$', '%', '!', sorts AFTER the group but BEFORE
// the group's dotted members as text: "g" < "g-a" but "g-a" < "g.x".
// The printed keys are therefore not in ascending order.
//
// run:  cd /tmp/mut/H3 && go test ./slog/ -run TestHunt3D10 -count=1

import (
	"bytes"
	"context"
	"regexp"
	"sort"
	"strings"
	"testing"
	"time"

	"github.com/hedzr/logg/slog"
)

func TestHunt3D10(t *testing.T) {
	defer slog.SaveFlagsAndMod(0, slog.Lcaller)()

	var buf bytes.Buffer
	l := slog.New(slog.WithColorMode(true), slog.WithLevel(slog.TraceLevel), slog.WithWriter(&buf))
	ts := time.Date(2024, 1, 2, 3, 4, 5, 0, time.UTC)

	l.(slog.LogSlogAware).WriteThru(context.Background(), slog.InfoLevel, ts, 0, "request", slog.Attrs{
		slog.Group("http", "status", 200, "method", "GET"),
		slog.Int("http-retries", 2),
		slog.String("zone", "eu"),
	})
	plain := strings.TrimSuffix(slog.StripEscapes(buf.String()), "\n")
	t.Logf("record: %q", plain)

	var keys []string
	for _, m := range regexp.MustCompile(` ([^ =]+)=`).FindAllStringSubmatch(plain, -1) {
		keys = append(keys, m[1])
	}
	if len(keys) != 4 {
		t.Fatalf("expected 4 attributes, parsed %v", keys)
	}
	if !sort.StringsAreSorted(keys) {
		sorted := append([]string(nil), keys...)
		sort.Strings(sorted)
		t.Errorf("attribute keys are printed as %v, ascending order is %v", keys, sorted)
	}
}
