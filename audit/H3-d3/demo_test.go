package slog_test

// C04 - the empty string is a legal attribute key in JSON mode (it is
// not one of the four reserved names; slog.String("", v) is printed
// correctly as "":v).  Given in the ordinary key/value argument list,
// however, the empty key is mistaken for "no key seen yet": the
// attribute is dropped, its VALUE is taken for the next key, and the
// rest of the list shifts by one.  The record decodes to something that
// was never logged: a forged member "v":"k", while "" and "k" are gone.
//
// run:  cd /tmp/mut/H3 && go test ./slog/ -run TestHunt3D3 -count=1

import (
	"bytes"
	"encoding/json"
	"reflect"
	"strings"
	"testing"

	"github.com/hedzr/logg/slog"
)

func TestHunt3D3(t *testing.T) {
	defer slog.SaveFlagsAndMod(0, slog.Lcaller)()

	decode := func(t *testing.T, buf *bytes.Buffer) map[string]any {
		line := strings.TrimSuffix(buf.String(), "\n")
		t.Logf("payload: %s", line)
		var rec map[string]any
		if err := json.Unmarshal([]byte(line), &rec); err != nil {
			t.Fatalf("not valid JSON: %v", err)
		}
		delete(rec, "time")
		return rec
	}

	want := map[string]any{"level": "info", "msg": "m", "": "v", "k": float64(1)}

	// reference: the Attr form of the very same two attributes is fine
	var buf bytes.Buffer
	l := slog.New(slog.WithJSONMode(true), slog.WithLevel(slog.TraceLevel), slog.WithWriter(&buf))
	l.Info("m", slog.String("", "v"), slog.Int("k", 1))
	if got := decode(t, &buf); !reflect.DeepEqual(got, want) {
		t.Errorf("Attr form: got %v, want %v", got, want)
	}

	// the key/value form of the same call
	buf.Reset()
	l.Info("m", "", "v", "k", 1)
	if got := decode(t, &buf); !reflect.DeepEqual(got, want) {
		t.Errorf("key/value form  Info(\"m\", \"\", \"v\", \"k\", 1): got %v, want %v", got, want)
	}

	// the empty key in last position: the attribute silently disappears
	buf.Reset()
	l.Info("m", "k", 1, "", "v")
	if got := decode(t, &buf); !reflect.DeepEqual(got, want) {
		t.Errorf("key/value form  Info(\"m\", \"k\", 1, \"\", \"v\"): got %v, want %v", got, want)
	}

	// same parser behind Group(...): a member with an empty key
	buf.Reset()
	l.Info("m", slog.Group("g", "", "v", "k", 1))
	wantG := map[string]any{"level": "info", "msg": "m", "g": map[string]any{"": "v", "k": float64(1)}}
	if got := decode(t, &buf); !reflect.DeepEqual(got, wantG) {
		t.Errorf("Group(\"g\", \"\", \"v\", \"k\", 1): got %v, want %v", got, wantG)
	}
}
