package slog_test

// Property C07.  Copy to /tmp/mut/H2/slog/h2_d3_demo_test.go and run
//   go test ./slog/ -run 'TestH2D3' -count=1
//
// An attribute whose key is the empty string is printed when it is given as
// an Attr value (NewAttr("", 5) -> "":5), but when the same attribute is
// given as a key/value pair, argsToAttrs uses key == "" as its "no key seen
// yet" state: the empty key is forgotten, the VALUE is taken for the next
// key, and all following pairs of the argument list are shifted by one.
// The same happens in the logger's own attributes (Set / With / New pairs).

import (
	"bytes"
	"encoding/json"
	"testing"

	"github.com/hedzr/logg/slog"
)

func h2d3Record(t *testing.T, l *slog.Entry, args ...any) map[string]any {
	t.Helper()
	var buf bytes.Buffer
	l.SetWriter(&buf).SetErrorWriter(&buf).SetJSONMode(true)
	l.Warn("probe", args...)
	var m map[string]any
	if err := json.Unmarshal(buf.Bytes(), &m); err != nil {
		t.Fatalf("not JSON: %v: %s", err, buf.String())
	}
	for _, k := range []string{"time", "logger", "level", "msg", "caller"} {
		delete(m, k)
	}
	return m
}

func TestH2D3_EmptyKeyInPairForm(t *testing.T) {
	// reference: the Attr form keeps the attribute and its neighbours
	m := h2d3Record(t, slog.New("ref").Root(), slog.NewAttr("", "first"), "second", 2)
	if len(m) != 2 || m[""] != "first" || m["second"] != float64(2) {
		t.Fatalf("reference (Attr form) is wrong: %v", m)
	}

	// the same two attributes as plain pairs at the call site
	m = h2d3Record(t, slog.New("call").Root(), "", "first", "second", 2)
	if len(m) != 2 || m[""] != "first" || m["second"] != float64(2) {
		t.Errorf(`call-site pairs ("", "first", "second", 2): want {"":"first","second":2}, got %v`, m)
	}

	// the same two attributes as the logger's own attributes
	m = h2d3Record(t, slog.New("own").Root().Set("", "first", "second", 2))
	if len(m) != 2 || m[""] != "first" || m["second"] != float64(2) {
		t.Errorf(`own attributes Set("", "first", "second", 2): want {"":"first","second":2}, got %v`, m)
	}
}
