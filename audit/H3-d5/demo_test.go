package slog_test

// C06 - "the first line of the message padded to the minimal width (36
// by default)": the padding is computed from len(msg), the number of
// BYTES.  A message with non-ASCII letters (no markup, no control
// characters, no escapes - plain UTF-8 text) is padded short by one
// column for every extra byte, so its attributes do not start in the
// column where they start for an ASCII message of the same length.
// "héllo" gets 35 columns, "日本語のログ" gets 24.  (The level tag got the
// same bytes-vs-characters repair in commit 07d11fc; the message did not.)
//
// run:  cd /tmp/mut/H3 && go test ./slog/ -run TestHunt3D5 -count=1

import (
	"bytes"
	"context"
	"strings"
	"testing"
	"time"
	"unicode/utf8"

	"github.com/hedzr/logg/slog"
)

func TestHunt3D5(t *testing.T) {
	defer slog.SaveFlagsAndMod(0, slog.Lcaller)()

	var buf bytes.Buffer
	l := slog.New(slog.WithColorMode(true), slog.WithLevel(slog.TraceLevel), slog.WithWriter(&buf))
	wt := l.(slog.LogSlogAware)
	ts := time.Date(2024, 1, 2, 3, 4, 5, 0, time.UTC)

	// width of the message field = characters between "[INF] " and " k=1"
	field := func(msg string) (int, string) {
		buf.Reset()
		wt.WriteThru(context.Background(), slog.InfoLevel, ts, 0, msg, slog.Attrs{slog.Int("k", 1)})
		plain := slog.StripEscapes(buf.String())
		plain = strings.TrimSuffix(plain, "\n")
		const tag, attr = "[INF] ", " k=1"
		a := strings.Index(plain, tag)
		b := strings.LastIndex(plain, attr)
		if a < 0 || b < 0 || b < a {
			t.Fatalf("unexpected layout: %q", plain)
		}
		return utf8.RuneCountInString(plain[a+len(tag) : b]), plain
	}

	const minimal = 36 // default minimal message width
	for _, msg := range []string{
		"hello",         // ASCII reference
		"héllo",         // 5 characters, 6 bytes
		"Grüße, Jürgen", // 13 characters, 16 bytes
		"日本語のログ",        // 6 characters, 18 bytes
	} {
		w, plain := field(msg)
		t.Logf("%-16q -> %q", msg, plain)
		if w != minimal {
			t.Errorf("message %q (%d characters, %d bytes): first line occupies %d columns, want it padded to %d",
				msg, utf8.RuneCountInString(msg), len(msg), w, minimal)
		}
	}
}
